// awsfacts: LibTooling fact extractor for the aws-c-common static checks.
// One translation unit in, one JSON file out: per-function CFGs whose elements are
// canonical expression trees, plus record layouts, enum constants and constant
// initialisers of file-scope objects.  Nothing is executed; clang's constant
// evaluator is used on initialisers and integral constant expressions only.
//
// usage: awsfacts [--main-only] -o out.json file.c -- <compile flags>
#include "clang/AST/ASTConsumer.h"
#include "clang/AST/ASTContext.h"
#include "clang/AST/Decl.h"
#include "clang/AST/Expr.h"
#include "clang/AST/RecordLayout.h"
#include "clang/AST/RecursiveASTVisitor.h"
#include "clang/AST/Stmt.h"
#include "clang/Analysis/CFG.h"
#include "clang/Basic/Builtins.h"
#include <functional>
#include "clang/Basic/SourceManager.h"
#include "clang/Frontend/CompilerInstance.h"
#include "clang/Frontend/FrontendAction.h"
#include "clang/Lex/Lexer.h"
#include "clang/Lex/Preprocessor.h"
#include "clang/Tooling/CompilationDatabase.h"
#include "clang/Tooling/Tooling.h"
#include "llvm/Support/raw_ostream.h"
#include <map>
#include <set>
#include <string>
#include <vector>

using namespace clang;

static std::string g_out;
static clang::Preprocessor *g_pp = nullptr;
static bool g_main_only = false;

static std::string jstr(llvm::StringRef s) {
    std::string o = "\"";
    for (unsigned char c : s) {
        switch (c) {
            case '"': o += "\\\""; break;
            case '\\': o += "\\\\"; break;
            case '\n': o += "\\n"; break;
            case '\r': o += "\\r"; break;
            case '\t': o += "\\t"; break;
            default:
                if (c < 0x20 || c >= 0x7f) {
                    char b[8];
                    snprintf(b, sizeof b, "\\u%04x", c);
                    o += b;
                } else
                    o += (char)c;
        }
    }
    o += "\"";
    return o;
}

namespace {

struct Emitter {
    ASTContext &Ctx;
    SourceManager &SM;
    PrintingPolicy PP;
    std::map<std::string, int> typeIdx;
    std::vector<std::string> typeTab;

    // per function
    std::map<const Stmt *, int> ids;
    std::set<const Stmt *> elems;
    FileID fnFile;

    Emitter(ASTContext &C) : Ctx(C), SM(C.getSourceManager()), PP(C.getLangOpts()) {
        PP.SuppressTagKeyword = false;
        PP.AnonymousTagLocations = false;
    }


    std::string recName(const RecordDecl *RD) {
        if (!RD) return "";
        std::string n = RD->getNameAsString();
        if (!n.empty()) return n;
        if (const TypedefNameDecl *TD = RD->getTypedefNameForAnonDecl()) return TD->getNameAsString();
        const DeclContext *DC = RD->getLexicalDeclContext();
        if (auto *P = dyn_cast<RecordDecl>(DC)) {
            for (const FieldDecl *F : P->fields()) {
                const RecordType *RT = F->getType()->getAs<RecordType>();
                if (!RT) if (const ArrayType *AT = Ctx.getAsArrayType(F->getType())) RT = AT->getElementType()->getAs<RecordType>();
                if (RT && RT->getDecl() == RD) return recName(P) + "." + F->getNameAsString();
            }
            return recName(P) + ".<anon>";
        }
        return "<anon>";
    }

    int typeId(QualType T) {
        if (T.isNull()) return -1;
        std::string s = T.getAsString(PP);
        QualType C = T.getCanonicalType();
        std::string key = s + "|" + C.getAsString(PP);
        auto it = typeIdx.find(key);
        if (it != typeIdx.end()) return it->second;
        std::string j = "{\"s\":" + jstr(s) + ",\"c\":" + jstr(C.getUnqualifiedType().getAsString(PP));
        if (C->isIntegralOrEnumerationType() && !C->isDependentType()) {
            j += ",\"w\":" + std::to_string(Ctx.getTypeSize(C));
            j += std::string(",\"u\":") + (C->isUnsignedIntegerOrEnumerationType() ? "true" : "false");
            if (C->isBooleanType()) j += ",\"bool\":true";
        } else if (C->isPointerType()) {
            j += ",\"ptr\":true";
            QualType P = C->getPointeeType();
            if (const RecordType *RT = P->getAs<RecordType>())
                j += ",\"rec\":" + jstr(recName(RT->getDecl()));
            if (!P->isIncompleteType() && !P->isFunctionType())
                j += ",\"psz\":" + std::to_string(Ctx.getTypeSizeInChars(P).getQuantity());
            if (P->isFunctionType()) j += ",\"fnptr\":true";
            else {
                // reserve our slot first so that the recursive call cannot reuse the index
                int id0 = (int)typeTab.size();
                typeTab.push_back("");
                typeIdx[key] = id0;
                int pt = typeId(P.getUnqualifiedType());
                j += ",\"pt\":" + std::to_string(pt) + "}";
                typeTab[id0] = j;
                return id0;
            }
        } else if (const RecordType *RT = C->getAs<RecordType>()) {
            j += ",\"rec\":" + jstr(recName(RT->getDecl()));
            if (RT->getDecl()->isCompleteDefinition())
                j += ",\"sz\":" + std::to_string(Ctx.getTypeSizeInChars(C).getQuantity());
        } else if (const ConstantArrayType *AT = Ctx.getAsConstantArrayType(C)) {
            j += ",\"arr\":" + std::to_string(AT->getSize().getZExtValue());
            QualType E = AT->getElementType();
            if (!E->isIncompleteType()) j += ",\"esz\":" + std::to_string(Ctx.getTypeSizeInChars(E).getQuantity());
        } else if (const IncompleteArrayType *IAT = Ctx.getAsIncompleteArrayType(C)) {
            j += ",\"arr\":-1";
            QualType E = IAT->getElementType();
            if (!E->isIncompleteType()) j += ",\"esz\":" + std::to_string(Ctx.getTypeSizeInChars(E).getQuantity());
        } else if (C->isFloatingType()) {
            j += ",\"flt\":" + std::to_string(Ctx.getTypeSize(C));
        } else if (C->isVectorType() && !C->isIncompleteType()) {
            j += ",\"vec\":true,\"sz\":" + std::to_string(Ctx.getTypeSizeInChars(C).getQuantity());
        }
        j += "}";
        int id = (int)typeTab.size();
        typeTab.push_back(j);
        typeIdx[key] = id;
        return id;
    }

    std::string locJ(SourceLocation L) {
        if (L.isInvalid()) return "[0,0]";
        SourceLocation E = SM.getExpansionLoc(L);
        PresumedLoc P = SM.getPresumedLoc(E);
        if (P.isInvalid()) return "[0,0]";
        std::string s = "[" + std::to_string(P.getLine()) + "," + std::to_string(P.getColumn());
        if (SM.getFileID(E) != fnFile) s += "," + jstr(P.getFilename());
        s += "]";
        return s;
    }

    std::string constMacroName(SourceLocation L) {
        // name of the object-like macro whose body spells this literal (not the macro it was an argument of)
        int guard = 0;
        while (L.isMacroID() && guard++ < 16) {
            if (SM.isMacroArgExpansion(L)) {
                L = SM.getImmediateSpellingLoc(L);
                continue;
            }
            std::string nm = Lexer::getImmediateMacroName(L, SM, Ctx.getLangOpts()).str();
            if (g_pp) {
                IdentifierInfo *II = g_pp->getIdentifierInfo(nm);
                const MacroInfo *MI = II ? g_pp->getMacroInfo(II) : nullptr;
                if (MI && MI->isFunctionLike()) return "";  // a literal inside a function-like macro body is not that macro's value
            }
            return nm;
        }
        return "";
    }

    std::string macroName(SourceLocation L) {
        if (!L.isMacroID()) return "";
        // outermost macro
        SourceLocation cur = L;
        std::string name;
        while (cur.isMacroID()) {
            name = Lexer::getImmediateMacroName(cur, SM, Ctx.getLangOpts()).str();
            SourceLocation next = SM.getImmediateMacroCallerLoc(cur);
            if (next == cur) break;
            cur = next;
        }
        return name;
    }

    int idOf(const Stmt *S) {
        auto it = ids.find(S);
        if (it != ids.end()) return it->second;
        int n = (int)ids.size() + 1;
        ids[S] = n;
        return n;
    }

    static const Expr *strip(const Expr *E) {
        // parentheses, __builtin_expect, value-preserving implicit casts
        for (;;) {
            if (auto *P = dyn_cast<ParenExpr>(E)) {
                E = P->getSubExpr();
                continue;
            }
            if (auto *C = dyn_cast<ConstantExpr>(E)) {
                E = C->getSubExpr();
                continue;
            }
            if (auto *CE = dyn_cast<CallExpr>(E)) {
                if (CE->getBuiltinCallee() == Builtin::BI__builtin_expect && CE->getNumArgs() == 2) {
                    E = CE->getArg(0);
                    continue;
                }
            }
            break;
        }
        return E;
    }

    bool keepCast(const CastExpr *C) {
        CastKind K = C->getCastKind();
        bool implicit = isa<ImplicitCastExpr>(C);
        switch (K) {
            case CK_LValueToRValue:
            case CK_NoOp:
            case CK_FunctionToPointerDecay:
            case CK_BuiltinFnToFnPtr:
            case CK_LValueBitCast:
                return false;
            case CK_ArrayToPointerDecay:
                return true; // emitted as "decay"
            case CK_ToVoid:
                return false;
            case CK_NullToPointer:
                return true;
            case CK_IntegralCast: {
                QualType F = C->getSubExpr()->getType().getCanonicalType();
                QualType T = C->getType().getCanonicalType();
                if (!F->isIntegralOrEnumerationType() || !T->isIntegralOrEnumerationType()) return true;
                uint64_t fw = Ctx.getTypeSize(F), tw = Ctx.getTypeSize(T);
                bool fu = F->isUnsignedIntegerOrEnumerationType(), tu = T->isUnsignedIntegerOrEnumerationType();
                if (F->isBooleanType()) return false; // bool -> int keeps 0/1
                // value-preserving widenings are dropped
                if (tw > fw && (fu || !tu)) return false;
                if (tw == fw && fu == tu) return false;
                return true;
            }
            case CK_BitCast:
                return !implicit;
            default:
                return true;
        }
    }

    const Stmt *pendingTop = nullptr;
    std::string head(const Stmt *S, const char *k) {
        std::string j = "{\"k\":\"";
        j += k;
        int theId = pendingTop ? idOf(pendingTop) : idOf(S);
        pendingTop = nullptr;
        j += "\",\"id\":" + std::to_string(theId);
        if (auto *E = dyn_cast<Expr>(S)) j += ",\"t\":" + std::to_string(typeId(E->getType()));
        j += ",\"loc\":" + locJ(S->getBeginLoc());
        return j;
    }

    std::string kids(std::vector<const Stmt *> v, const Stmt *top) {
        std::string j = ",\"a\":[";
        bool first = true;
        for (const Stmt *c : v) {
            if (!first) j += ",";
            first = false;
            j += c ? tree(c, top) : "null";
        }
        j += "]";
        return j;
    }

    bool foldInt(const Expr *E, llvm::APSInt &out) {
        if (E->isValueDependent()) return false;
        if (!E->getType()->isIntegralOrEnumerationType()) return false;
        if (isa<DeclRefExpr>(E) && !isa<EnumConstantDecl>(cast<DeclRefExpr>(E)->getDecl())) return false;
        Expr::EvalResult R;
        if (!E->EvaluateAsInt(R, Ctx, Expr::SE_NoSideEffects)) return false;
        if (R.HasSideEffects) return false;
        out = R.Val.getInt();
        return true;
    }

    std::string srcText(const Stmt *S) {
        SourceLocation B = SM.getSpellingLoc(S->getBeginLoc()), E = SM.getSpellingLoc(S->getEndLoc());
        if (B.isInvalid() || E.isInvalid()) return "";
        if (SM.getFileID(B) != SM.getFileID(E)) {
            // macro: take the expansion range text
            CharSourceRange R = SM.getExpansionRange(S->getSourceRange());
            llvm::StringRef t = Lexer::getSourceText(R, SM, Ctx.getLangOpts());
            return t.substr(0, 80).str();
        }
        llvm::StringRef t = Lexer::getSourceText(CharSourceRange::getTokenRange(B, E), SM, Ctx.getLangOpts());
        return t.substr(0, 80).str();
    }

    std::string treeWithId(const Stmt *S, const Stmt *top, const Stmt *idFrom) {
        // emit S but give the emitted root the id of idFrom (a dropped wrapper that is a CFG element)
        const Stmt *S2 = S;
        if (auto *E0 = dyn_cast<Expr>(S)) S2 = strip(E0);
        if (S2 != top && S != top && (elems.count(S2) || elems.count(S))) {
            // the inner expression is an element of its own: keep a reference, and alias the wrapper id to it
            const Stmt *R = elems.count(S2) ? S2 : S;
            int was = ids.count(idFrom) ? ids[idFrom] : -1;
            ids[idFrom] = idOf(R);
            pendingTop = nullptr;
            std::string j = tree(S, top);
            // the wrapper was already referred to (by an element printed earlier) under its own id: record the alias
            if (was != -1 && was != ids[idFrom] && j.size() > 1 && j.back() == '}') j = j.substr(0, j.size() - 1) + ",\"was\":" + std::to_string(was) + "}";
            return j;
        }
        pendingTop = idFrom;
        return tree(S, top);
    }

    // Expression / statement tree. `top` is the CFG element being printed; any other
    // sub-statement that is a CFG element of its own is printed as a reference.
    std::string tree(const Stmt *S0, const Stmt *top) {
        if (!S0) return "null";
        const Stmt *S = S0;
        if (auto *E0 = dyn_cast<Expr>(S0)) S = strip(E0);
        if (S0 == top && S != S0) pendingTop = top;
        if (S != top && S0 != top && (elems.count(S) || elems.count(S0))) {
            const Stmt *R = elems.count(S) ? S : S0;
            std::string j = "{\"k\":\"ref\",\"id\":" + std::to_string(idOf(R));
            if (auto *E = dyn_cast<Expr>(R)) j += ",\"t\":" + std::to_string(typeId(E->getType()));
            return j + "}";
        }
        if (auto *E = dyn_cast<Expr>(S)) {
            // casts first (so that folding does not hide explicit narrowing on non-constants)
            llvm::APSInt V;
            if (!isa<CastExpr>(E) || true) {
                if (!isa<IntegerLiteral>(E) && !isa<CharacterLiteral>(E) && foldInt(E, V)) {
                    std::string j = head(S, "int") + ",\"v\":" + llvm::toString(V, 10);
                    if (auto *DR = dyn_cast<DeclRefExpr>(E->IgnoreParenCasts())) j += ",\"name\":" + jstr(DR->getDecl()->getNameAsString());
                    else {
                        std::string m = constMacroName(E->getBeginLoc());
                        if (!m.empty()) j += ",\"name\":" + jstr(m);
                        j += ",\"src\":" + jstr(srcText(E));
                    }
                    return j + "}";
                }
            }
            if (auto *IL = dyn_cast<IntegerLiteral>(E)) {
                llvm::APSInt v(IL->getValue(), E->getType()->isUnsignedIntegerOrEnumerationType());
                std::string j = head(S, "int") + ",\"v\":" + llvm::toString(v, 10);
                std::string m = constMacroName(E->getBeginLoc());
                if (!m.empty()) j += ",\"name\":" + jstr(m);
                return j + "}";
            }
            if (auto *CL = dyn_cast<CharacterLiteral>(E)) return head(S, "int") + ",\"v\":" + std::to_string(CL->getValue()) + ",\"chr\":true}";
            if (auto *FL = dyn_cast<FloatingLiteral>(E)) {
                llvm::SmallString<32> buf;
                FL->getValue().toString(buf);
                return head(S, "float") + ",\"v\":" + jstr(buf) + "}";
            }
            if (auto *SL = dyn_cast<StringLiteral>(E)) {
                if (SL->getCharByteWidth() == 1) return head(S, "str") + ",\"v\":" + jstr(SL->getBytes()) + ",\"n\":" + std::to_string(SL->getLength()) + "}";
                return head(S, "str") + ",\"v\":\"\"}";
            }
            if (auto *DR = dyn_cast<DeclRefExpr>(E)) {
                const ValueDecl *D = DR->getDecl();
                if (isa<FunctionDecl>(D)) return head(S, "fn") + ",\"n\":" + jstr(D->getNameAsString()) + "}";
                if (auto *VD = dyn_cast<VarDecl>(D)) {
                    const char *sc = isa<ParmVarDecl>(VD) ? "param" : VD->isLocalVarDecl() ? (VD->isStaticLocal() ? "slocal" : "local") : "global";
                    return head(S, "var") + ",\"n\":" + jstr(VD->getNameAsString()) + ",\"sc\":\"" + sc + "\"}";
                }
                return head(S, "var") + ",\"n\":" + jstr(D->getNameAsString()) + ",\"sc\":\"other\"}";
            }
            if (auto *ME = dyn_cast<MemberExpr>(E)) {
                std::string rec;
                if (auto *FD = dyn_cast<FieldDecl>(ME->getMemberDecl())) rec = recName(FD->getParent());
                return head(S, "member") + ",\"f\":" + jstr(ME->getMemberDecl()->getNameAsString()) + ",\"arrow\":" + (ME->isArrow() ? "true" : "false") +
                       ",\"rec\":" + jstr(rec) + kids({ME->getBase()}, top) + "}";
            }
            if (auto *UO = dyn_cast<UnaryOperator>(E)) {
                std::string op = UnaryOperator::getOpcodeStr(UO->getOpcode()).str();
                if (UO->getOpcode() == UO_PostInc) op = "post++";
                if (UO->getOpcode() == UO_PostDec) op = "post--";
                if (UO->getOpcode() == UO_PreInc) op = "pre++";
                if (UO->getOpcode() == UO_PreDec) op = "pre--";
                if (UO->getOpcode() == UO_Deref) op = "deref";
                if (UO->getOpcode() == UO_AddrOf) op = "addr";
                return head(S, "un") + ",\"op\":" + jstr(op) + kids({UO->getSubExpr()}, top) + "}";
            }
            if (auto *BO = dyn_cast<BinaryOperator>(E)) {
                std::string j = head(S, "bin") + ",\"op\":" + jstr(BO->getOpcodeStr());
                if (auto *CAO = dyn_cast<CompoundAssignOperator>(BO)) j += ",\"ct\":" + std::to_string(typeId(CAO->getComputationResultType()));
                return j + kids({BO->getLHS(), BO->getRHS()}, top) + "}";
            }
            if (auto *AS = dyn_cast<ArraySubscriptExpr>(E)) return head(S, "index") + kids({AS->getBase(), AS->getIdx()}, top) + "}";
            if (auto *CO = dyn_cast<ConditionalOperator>(E)) return head(S, "cond") + kids({CO->getCond(), CO->getTrueExpr(), CO->getFalseExpr()}, top) + "}";
            if (auto *CE = dyn_cast<CallExpr>(E)) {
                std::string j = head(S, "call");
                const FunctionDecl *FD = CE->getDirectCallee();
                if (FD) {
                    j += ",\"callee\":" + jstr(FD->getNameAsString());
                    if (FD->isNoReturn() || CE->getBuiltinCallee() == Builtin::BI__builtin_unreachable) j += ",\"noreturn\":true";
                    if (CE->getBuiltinCallee()) j += ",\"builtin\":true";
                } else
                    j += ",\"callee\":null";
                std::string m = macroName(CE->getBeginLoc());
                if (!m.empty()) j += ",\"macro\":" + jstr(m);
                j += ",\"fn\":" + tree(CE->getCallee(), top);
                std::vector<const Stmt *> a;
                for (const Expr *x : CE->arguments()) a.push_back(x);
                return j + kids(a, top) + "}";
            }
            if (auto *C = dyn_cast<CastExpr>(E)) {
                if (!keepCast(C)) {
                    if (S == top || S0 == top || pendingTop) { const Stmt *pt = pendingTop ? pendingTop : top; std::string r = treeWithId(C->getSubExpr(), top, pt); return r; }
                    return tree(C->getSubExpr(), top);
                }
                std::string j = head(S, C->getCastKind() == CK_ArrayToPointerDecay ? "decay" : "cast");
                j += std::string(",\"ck\":") + jstr(C->getCastKindName()) + ",\"impl\":" + (isa<ImplicitCastExpr>(C) ? "true" : "false");
                j += ",\"ft\":" + std::to_string(typeId(C->getSubExpr()->getType()));
                return j + kids({C->getSubExpr()}, top) + "}";
            }
            if (auto *UE = dyn_cast<UnaryExprOrTypeTraitExpr>(E)) {
                return head(S, "other") + ",\"cls\":\"sizeof\"}";
            }
            if (auto *IL = dyn_cast<InitListExpr>(E)) {
                std::vector<const Stmt *> a;
                for (const Expr *x : IL->inits()) a.push_back(x);
                std::string j = head(S, "init");
                if (IL->hasArrayFiller()) j += ",\"filler\":true";
                if (const RecordType *RT = E->getType()->getAs<RecordType>()) {
                    j += ",\"fields\":[";
                    bool f = true;
                    for (const FieldDecl *FD : RT->getDecl()->fields()) {
                        if (!f) j += ",";
                        f = false;
                        j += jstr(FD->getNameAsString());
                    }
                    j += "]";
                }
                return j + kids(a, top) + "}";
            }
            if (auto *CLE = dyn_cast<CompoundLiteralExpr>(E)) return head(S, "complit") + kids({CLE->getInitializer()}, top) + "}";
            if (auto *IVE = dyn_cast<ImplicitValueInitExpr>(E)) return head(S, "zeroinit") + "}";
            if (auto *SE = dyn_cast<StmtExpr>(E)) return head(S, "stmtexpr") + "}";
            if (auto *AE = dyn_cast<AtomicExpr>(E)) {
                std::vector<const Stmt *> a;
                for (const Stmt *c : const_cast<AtomicExpr *>(AE)->children()) a.push_back(c);
                const char *bn = "";
                switch (AE->getOp()) {
#define BUILTIN(ID, TYPE, ATTRS)
#define ATOMIC_BUILTIN(ID, TYPE, ATTRS) case AtomicExpr::AO##ID: bn = #ID; break;
#include "clang/Basic/Builtins.def"
                }
                return head(S, "atomic") + ",\"op\":" + std::to_string((int)AE->getOp()) + ",\"name\":" + jstr(bn) + kids(a, top) + "}";
            }
            if (auto *OE = dyn_cast<OpaqueValueExpr>(E)) {
                if (OE->getSourceExpr()) return tree(OE->getSourceExpr(), top);
            }
            if (auto *BCO = dyn_cast<BinaryConditionalOperator>(E)) return head(S, "bincond") + kids({BCO->getCommon(), BCO->getFalseExpr()}, top) + "}";
            // generic
            std::vector<const Stmt *> a;
            for (const Stmt *c : const_cast<Expr *>(E)->children()) a.push_back(c);
            return head(S, "other") + ",\"cls\":" + jstr(E->getStmtClassName()) + kids(a, top) + "}";
        }
        if (auto *DS = dyn_cast<DeclStmt>(S)) {
            std::string j = head(S, "decl") + ",\"vars\":[";
            bool first = true;
            for (const Decl *D : DS->decls()) {
                if (auto *VD = dyn_cast<VarDecl>(D)) {
                    if (!first) j += ",";
                    first = false;
                    j += "{\"n\":" + jstr(VD->getNameAsString()) + ",\"t\":" + std::to_string(typeId(VD->getType()));
                    if (VD->isStaticLocal()) j += ",\"static\":true";
                    j += ",\"init\":" + (VD->getInit() ? tree(VD->getInit(), top) : std::string("null")) + "}";
                }
            }
            return j + "]}";
        }
        if (auto *RS = dyn_cast<ReturnStmt>(S)) return head(S, "ret") + kids({RS->getRetValue()}, top) + "}";
        if (auto *AS = dyn_cast<GCCAsmStmt>(S)) {
            std::string j = head(S, "asm") + ",\"volatile\":" + (AS->isVolatile() ? "true" : "false");
            j += ",\"asm\":" + jstr(AS->getAsmString()->getString());
            j += ",\"clobbers\":[";
            for (unsigned i = 0; i < AS->getNumClobbers(); i++) j += (i ? "," : "") + jstr(AS->getClobber(i));
            j += "],\"outputs\":[";
            for (unsigned i = 0; i < AS->getNumOutputs(); i++) j += (i ? "," : "") + tree(AS->getOutputExpr(i), top);
            j += "],\"inputs\":[";
            for (unsigned i = 0; i < AS->getNumInputs(); i++) j += (i ? "," : "") + tree(AS->getInputExpr(i), top);
            j += "],\"names\":[";
            for (unsigned i = 0; i < AS->getNumOutputs(); i++) j += (i ? "," : "") + jstr(AS->getOutputName(i));
            for (unsigned i = 0; i < AS->getNumInputs(); i++) j += ((i || AS->getNumOutputs()) ? "," : "") + jstr(AS->getInputName(i));
            j += "],\"constraints\":[";
            for (unsigned i = 0; i < AS->getNumOutputs(); i++) j += (i ? "," : "") + jstr(AS->getOutputConstraint(i));
            for (unsigned i = 0; i < AS->getNumInputs(); i++) j += ((i || AS->getNumOutputs()) ? "," : "") + jstr(AS->getInputConstraint(i));
            return j + "]}";
        }
        std::vector<const Stmt *> a;
        for (const Stmt *c : const_cast<Stmt *>(S)->children()) a.push_back(c);
        return head(S, "stmt") + ",\"cls\":" + jstr(S->getStmtClassName()) + kids(a, top) + "}";
    }

    std::string apvalue(const APValue &V, QualType T) {
        switch (V.getKind()) {
            case APValue::Int:
                return "{\"int\":" + llvm::toString(V.getInt(), 10) + "}";
            case APValue::Float: {
                llvm::SmallString<32> b;
                V.getFloat().toString(b);
                return "{\"float\":" + jstr(b) + "}";
            }
            case APValue::LValue: {
                APValue::LValueBase B = V.getLValueBase();
                if (B.isNull()) return "{\"int\":" + std::to_string(V.getLValueOffset().getQuantity()) + ",\"null\":true}";
                if (const ValueDecl *D = B.dyn_cast<const ValueDecl *>()) {
                    if (isa<FunctionDecl>(D)) return "{\"fn\":" + jstr(D->getNameAsString()) + "}";
                    return "{\"addr\":" + jstr(D->getNameAsString()) + ",\"off\":" + std::to_string(V.getLValueOffset().getQuantity()) + "}";
                }
                if (const Expr *E = B.dyn_cast<const Expr *>()) {
                    if (auto *SL = dyn_cast<StringLiteral>(E->IgnoreParenCasts()))
                        if (SL->getCharByteWidth() == 1) return "{\"str\":" + jstr(SL->getBytes()) + "}";
                }
                return "{\"opaque\":\"lvalue\"}";
            }
            case APValue::Array: {
                QualType ET;
                if (const ArrayType *AT = Ctx.getAsArrayType(T)) ET = AT->getElementType();
                std::string j = "{\"array\":[";
                unsigned n = V.getArraySize(), init = V.getArrayInitializedElts();
                for (unsigned i = 0; i < n; i++) {
                    if (i) j += ",";
                    const APValue &e = i < init ? V.getArrayInitializedElt(i) : V.getArrayFiller();
                    j += apvalue(e, ET);
                }
                return j + "]}";
            }
            case APValue::Struct: {
                std::string j = "{\"struct\":{";
                const RecordType *RT = T.isNull() ? nullptr : T->getAs<RecordType>();
                if (RT) {
                    unsigned i = 0;
                    for (const FieldDecl *FD : RT->getDecl()->fields()) {
                        if (i) j += ",";
                        j += jstr(FD->getNameAsString()) + ":" + apvalue(V.getStructField(i), FD->getType());
                        i++;
                    }
                }
                return j + "}}";
            }
            case APValue::Union: {
                const FieldDecl *FD = V.getUnionField();
                if (!FD) return "{\"opaque\":\"union\"}";
                return "{\"struct\":{" + jstr(FD->getNameAsString()) + ":" + apvalue(V.getUnionValue(), FD->getType()) + "}}";
            }
            default:
                return "{\"opaque\":\"kind\"}";
        }
    }

    bool wanted(SourceLocation L) {
        if (L.isInvalid()) return false;
        SourceLocation E = SM.getExpansionLoc(L);
        if (SM.isInSystemHeader(E)) return false;
        if (g_main_only && !SM.isInMainFile(E)) return false;
        return true;
    }

    std::string function(const FunctionDecl *FD) {
        ids.clear();
        elems.clear();
        fnFile = SM.getFileID(SM.getExpansionLoc(FD->getLocation()));
        PresumedLoc P = SM.getPresumedLoc(SM.getExpansionLoc(FD->getLocation()));
        PresumedLoc PE = SM.getPresumedLoc(SM.getExpansionLoc(FD->getEndLoc()));
        std::string j = "{\"name\":" + jstr(FD->getNameAsString());
        j += ",\"file\":" + jstr(P.isValid() ? P.getFilename() : "");
        j += ",\"line\":" + std::to_string(P.isValid() ? P.getLine() : 0);
        j += ",\"end_line\":" + std::to_string(PE.isValid() ? PE.getLine() : 0);
        j += std::string(",\"static\":") + (FD->getStorageClass() == SC_Static ? "true" : "false");
        j += std::string(",\"inline\":") + (FD->isInlineSpecified() ? "true" : "false");
        j += ",\"ret\":" + std::to_string(typeId(FD->getReturnType()));
        j += ",\"params\":[";
        bool first = true;
        for (const ParmVarDecl *PV : FD->parameters()) {
            if (!first) j += ",";
            first = false;
            j += "{\"n\":" + jstr(PV->getNameAsString()) + ",\"t\":" + std::to_string(typeId(PV->getType())) + "}";
        }
        j += "]";

        CFG::BuildOptions BO;
        BO.PruneTriviallyFalseEdges = false;
        BO.AddEHEdges = false;
        BO.AddInitializers = false;
        BO.AddImplicitDtors = false;
        std::unique_ptr<CFG> cfg = CFG::buildCFG(FD, FD->getBody(), &Ctx, BO);
        if (!cfg) return j + ",\"blocks\":null}";
        for (const CFGBlock *B : *cfg)
            for (const CFGElement &El : *B)
                if (auto CS = El.getAs<CFGStmt>()) {
                    const Stmt *S = CS->getStmt();
                    elems.insert(S);
                }
        j += ",\"entry\":" + std::to_string(cfg->getEntry().getBlockID());
        j += ",\"exit\":" + std::to_string(cfg->getExit().getBlockID());
        j += ",\"blocks\":[";
        first = true;
        for (const CFGBlock *B : *cfg) {
            if (!first) j += ",";
            first = false;
            j += "{\"id\":" + std::to_string(B->getBlockID()) + ",\"elems\":[";
            bool f2 = true;
            bool noret = B->hasNoReturnElement();
            for (const CFGElement &El : *B) {
                if (auto CS = El.getAs<CFGStmt>()) {
                    if (!f2) j += ",";
                    f2 = false;
                    const Stmt *S = CS->getStmt();
                    j += tree(S, S);
                }
            }
            j += "]";
            if (noret) j += ",\"noreturn\":true";
            const Stmt *T = B->getTerminatorStmt();
            if (T) {
                const char *k = "other";
                if (isa<IfStmt>(T)) k = "if";
                else if (isa<WhileStmt>(T)) k = "while";
                else if (isa<ForStmt>(T)) k = "for";
                else if (isa<DoStmt>(T)) k = "do";
                else if (isa<SwitchStmt>(T)) k = "switch";
                else if (isa<ConditionalOperator>(T)) k = "?:";
                else if (isa<GotoStmt>(T)) k = "goto";
                else if (isa<BreakStmt>(T)) k = "break";
                else if (isa<ContinueStmt>(T)) k = "continue";
                else if (auto *BOp = dyn_cast<BinaryOperator>(T)) k = BOp->getOpcode() == BO_LAnd ? "&&" : BOp->getOpcode() == BO_LOr ? "||" : "other";
                j += std::string(",\"term\":\"") + k + "\",\"term_loc\":" + locJ(T->getBeginLoc());
                if (auto *LOp = dyn_cast<BinaryOperator>(T)) {
                    // short-circuit exit: `a || ...` true (resp. `a && ...` false) jumps to the block that branches on the
                    // enclosing condition; when that condition is a chain of the same operator containing this one, the
                    // branch there is already decided
                    if (LOp->isLogicalOp() && B->succ_size() == 2) {
                        auto I = B->succ_begin();
                        if (LOp->getOpcode() == BO_LAnd) ++I;
                        const CFGBlock *Sx = I->getReachableBlock();
                        if (!Sx) Sx = I->getPossiblyUnreachableBlock();
                        const Stmt *SC = Sx ? Sx->getTerminatorCondition(true) : nullptr;
                        const Stmt *ST = Sx ? Sx->getTerminatorStmt() : nullptr;
                        if (SC && ST && !isa<BinaryOperator>(ST) && !isa<ConditionalOperator>(ST) && !isa<SwitchStmt>(ST)) {
                            std::function<bool(const Expr *)> det = [&](const Expr *E) -> bool {
                                E = E->IgnoreParenImpCasts();
                                if (E == LOp) return true;
                                if (auto *BO = dyn_cast<BinaryOperator>(E))
                                    if (BO->getOpcode() == LOp->getOpcode()) return det(BO->getLHS()) || det(BO->getRHS());
                                return false;
                            };
                            if (auto *SE = dyn_cast<Expr>(SC)) {
                                // wrappers around the chain: __builtin_expect(x, c), !x (flips the decided branch)
                                int sign = 1;
                                const Expr *E = SE->IgnoreParenImpCasts();
                                for (int guard = 0; guard < 16; ++guard) {
                                    if (auto *CE = dyn_cast<CallExpr>(E)) {
                                        if (CE->getBuiltinCallee() == Builtin::BI__builtin_expect && CE->getNumArgs() == 2) {
                                            E = CE->getArg(0)->IgnoreParenImpCasts();
                                            continue;
                                        }
                                    }
                                    if (auto *UO = dyn_cast<UnaryOperator>(E)) {
                                        if (UO->getOpcode() == UO_LNot) {
                                            sign = -sign;
                                            E = UO->getSubExpr()->IgnoreParenImpCasts();
                                            continue;
                                        }
                                    }
                                    break;
                                }
                                if (det(E)) j += std::string(",\"sc_forced\":") + (sign > 0 ? "1" : "-1");
                            }
                        }
                    }
                }
                const Stmt *C = B->getTerminatorCondition(true);
                if (B->succ_size() == 2 && !isa<SwitchStmt>(T)) {
                    // the value that decides this branch is the last expression evaluated in the block
                    // (for `if (a && b)` the block holding `b` branches on `b`, not on the whole conjunction)
                    if (const Expr *LC = B->getLastCondition()) C = LC;
                }
                if (C) {
                    const Stmt *CS = C;
                    if (auto *CE = dyn_cast<Expr>(C)) CS = strip(CE);
                    // the condition's value is the last element evaluated in this block when it is one
                    if (elems.count(CS) || elems.count(C)) j += ",\"cond\":{\"k\":\"ref\",\"id\":" + std::to_string(idOf(elems.count(CS) ? CS : C)) + "}";
                    else j += ",\"cond\":" + tree(C, nullptr);
                }
            }
            if (const Stmt *L = B->getLabel()) {
                if (auto *CS = dyn_cast<CaseStmt>(L)) {
                    llvm::APSInt v;
                    Expr::EvalResult R;
                    if (CS->getLHS()->EvaluateAsInt(R, Ctx)) j += ",\"case\":" + llvm::toString(R.Val.getInt(), 10);
                    else j += ",\"case\":null";
                } else if (isa<DefaultStmt>(L))
                    j += ",\"default\":true";
                else if (auto *LS = dyn_cast<LabelStmt>(L))
                    j += ",\"label\":" + jstr(LS->getName());
            }
            j += ",\"succ\":[";
            bool f3 = true;
            for (auto I = B->succ_begin(); I != B->succ_end(); ++I) {
                if (!f3) j += ",";
                f3 = false;
                const CFGBlock *Sx = I->getReachableBlock();
                if (!Sx) Sx = I->getPossiblyUnreachableBlock();
                j += Sx ? std::to_string(Sx->getBlockID()) : std::string("null");
            }
            j += "]}";
        }
        j += "]}";
        return j;
    }
};

class Consumer : public ASTConsumer {
  public:
    void HandleTranslationUnit(ASTContext &Ctx) override {
        Emitter Em(Ctx);
        SourceManager &SM = Ctx.getSourceManager();
        std::error_code EC;
        llvm::raw_fd_ostream OS(g_out, EC);
        if (EC) {
            llvm::errs() << "cannot open " << g_out << "\n";
            return;
        }
        const FileEntry *MF = SM.getFileEntryForID(SM.getMainFileID());
        OS << "{\"unit\":" << jstr(MF ? MF->getName() : "") << ",\n\"functions\":[\n";
        bool first = true;
        std::string records = "", enums = "", globals = "";
        std::set<std::string> seenRec;
        for (Decl *D : Ctx.getTranslationUnitDecl()->decls()) {
            if (auto *FD = dyn_cast<FunctionDecl>(D)) {
                if (FD->doesThisDeclarationHaveABody() && Em.wanted(FD->getLocation())) {
                    if (!first) OS << ",\n";
                    first = false;
                    OS << Em.function(FD);
                }
            } else if (auto *RD = dyn_cast<RecordDecl>(D)) {
                if (RD->isCompleteDefinition() && !RD->isInvalidDecl() && !SM.isInSystemHeader(SM.getExpansionLoc(RD->getLocation())) && !RD->getNameAsString().empty() &&
                    !seenRec.count(RD->getNameAsString())) {
                    seenRec.insert(RD->getNameAsString());
                    const ASTRecordLayout &L = Ctx.getASTRecordLayout(RD);
                    if (!records.empty()) records += ",\n";
                    records += jstr(RD->getNameAsString()) + ":{\"size\":" + std::to_string(L.getSize().getQuantity()) + ",\"union\":" + (RD->isUnion() ? "true" : "false") + ",\"fields\":[";
                    unsigned i = 0;
                    for (const FieldDecl *F : RD->fields()) {
                        if (i) records += ",";
                        records += "{\"n\":" + jstr(F->getNameAsString()) + ",\"t\":" + std::to_string(Em.typeId(F->getType())) + ",\"off\":" + std::to_string(L.getFieldOffset(i) / 8) + "}";
                        i++;
                    }
                    records += "]}";
                }
            } else if (auto *ED = dyn_cast<EnumDecl>(D)) {
                if (SM.isInSystemHeader(SM.getExpansionLoc(ED->getLocation()))) continue;
                for (const EnumConstantDecl *EC2 : ED->enumerators()) {
                    if (!enums.empty()) enums += ",";
                    enums += jstr(EC2->getNameAsString()) + ":" + llvm::toString(EC2->getInitVal(), 10);
                }
            } else if (auto *VD = dyn_cast<VarDecl>(D)) {
                if (!VD->isThisDeclarationADefinition()) continue;
                if (!Em.wanted(VD->getLocation())) continue;
                if (!globals.empty()) globals += ",\n";
                PresumedLoc P = SM.getPresumedLoc(SM.getExpansionLoc(VD->getLocation()));
                globals += "{\"n\":" + jstr(VD->getNameAsString()) + ",\"t\":" + std::to_string(Em.typeId(VD->getType())) + ",\"file\":" + jstr(P.isValid() ? P.getFilename() : "") +
                           ",\"line\":" + std::to_string(P.isValid() ? P.getLine() : 0) + ",\"static\":" + (VD->getStorageClass() == SC_Static ? "true" : "false") +
                           ",\"const\":" + (VD->getType().isConstQualified() ? "true" : "false") +
                           ",\"tls\":" + (VD->getTLSKind() != VarDecl::TLS_None ? "true" : "false");
                if (VD->getInit() && !VD->getInit()->isValueDependent()) {
                    APValue Val;
                    llvm::SmallVector<PartialDiagnosticAt, 8> Notes;
                    bool ok = VD->getInit()->EvaluateAsInitializer(Val, Ctx, VD, Notes, true);
                    if (ok && !Val.isAbsent() && !Val.isIndeterminate()) globals += ",\"init\":" + Em.apvalue(Val, VD->getType());
                    else {
                        Em.ids.clear();
                        Em.elems.clear();
                        Em.fnFile = SM.getFileID(SM.getExpansionLoc(VD->getLocation()));
                        globals += ",\"init\":null,\"init_expr\":" + Em.tree(VD->getInit(), nullptr);
                    }
                } else
                    globals += ",\"init\":null";
                globals += "}";
            }
        }
        OS << "\n],\n\"records\":{" << records << "},\n\"enums\":{" << enums << "},\n\"globals\":[" << globals << "],\n\"types\":[";
        for (size_t i = 0; i < Em.typeTab.size(); i++) OS << (i ? ",\n" : "\n") << Em.typeTab[i];
        OS << "]}\n";
    }
};

class Action : public ASTFrontendAction {
  public:
    std::unique_ptr<ASTConsumer> CreateASTConsumer(CompilerInstance &CI, llvm::StringRef) override {
        g_pp = &CI.getPreprocessor();
        return std::make_unique<Consumer>();
    }
};

} // namespace

int main(int argc, const char **argv) {
    std::vector<std::string> files;
    std::vector<std::string> flags;
    int i = 1;
    for (; i < argc; i++) {
        std::string a = argv[i];
        if (a == "--") {
            i++;
            break;
        }
        if (a == "--main-only") g_main_only = true;
        else if (a == "-o" && i + 1 < argc) g_out = argv[++i];
        else files.push_back(a);
    }
    for (; i < argc; i++) flags.push_back(argv[i]);
    if (files.size() != 1 || g_out.empty()) {
        llvm::errs() << "usage: awsfacts [--main-only] -o out.json file.c -- flags\n";
        return 2;
    }
    flags.push_back("-resource-dir");
    flags.push_back("/usr/lib/llvm-14/lib/clang/14.0.6");
    flags.push_back("-Wno-everything");
    clang::tooling::FixedCompilationDatabase DB(".", flags);
    clang::tooling::ClangTool Tool(DB, files);
    int rc = Tool.run(clang::tooling::newFrontendActionFactory<Action>().get());
    return rc;
}
