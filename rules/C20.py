"""C20 - threads: managed-thread bookkeeping, at-exit callbacks, join discipline (DESIGN.md section 4, C20)."""
from sa import rules as RU
from sa.cfg import Typestate, dominators, ev_dominates, assigned_vars
from sa.rules import argstr, where

TH = "source/posix/thread.c"
SH = "source/thread_shared.c"
LOCK = "s_managed_thread_lock"
GUARDED = {"s_unjoined_thread_count", "s_pending_join_managed_threads", "s_default_managed_join_timeout_ns"}

DECIDED = [
    "LOCK: the managed-thread count, pending-join list and default timeout are touched only under s_managed_thread_lock (initialisation exempt); the wait predicate runs under it",
    "NOBLOCK: no join and no function that itself takes the lock is called while it is held (the mutex is not recursive)",
    "HANDOFF: pending_join_add swaps the predecessor out and enqueues itself in one critical section, then joins the predecessor; join-all takes the list under the lock, joins after unlocking, recomputes `done` from the count under the lock and leaves only when done",
    "JOIN-LIST: per wrapper - iterator advanced before the wrapper is destroyed, detach state set joinable before the join, join -> clean-up -> destroy -> count decrement, nothing touched after destroy",
    "THREAD-FN: the user function is invoked exactly once with the stored argument; the at-exit chain is read from the thread-local copy after the function returned, each node's fields are read before its release and its callback invoked once; the wrapper is not used after destroy; hand-over for lazy join happens last",
    "ATEXIT-LIFO: registration prepends (new->next = old head; head = new)",
    "LAUNCH: the count is incremented before pthread_create for managed threads and decremented when creation fails; the wrapper is destroyed on the failure path, and the wrapper's destroy function releases every field the wrapper owns (fields assigned from an allocation in thread.c) before the wrapper itself",
    "INIT-ONCE (under HANDOFF): aws_thread_initialize_thread_management, which empties the pending-join list, is called only from aws_common_library_init under its not-yet-initialised guard",
]
NOT_DECIDED = ["interleavings (the rules decide the protocol shape, which is schedule independent)", "pthread semantics"]
ASSUMPTIONS = ["pthread_create/pthread_join semantics", "aws_mutex is non-recursive", "aws_linked_list operations have their documented effect (C09)"]


def _assignment_of_any(f, ev):
    for b in f.blocks.values():
        for el in b.elems:
            for n in f.walk(el):
                if n["k"] == "bin" and n["op"] == "=" and f.d(n["a"][0]) is ev.node:
                    return n
    return None


def gacc(f, names=GUARDED):
    return [e for e in f.all_events() if e.kind == "access" and e.node["k"] == "var" and e.node.get("sc") == "global" and e.node["n"] in names]


def retry_options(R, th):
    """LAUNCH/retry-keeps-the-options: the second attempt (without the cpu pin) is the first attempt's request minus the pin:
    its options are a whole copy of the caller's options in which only cpu_id is overwritten - join strategy, stack size and
    name stay what was asked for (a managed thread relaunched as a manual one is not counted, join-all returns while it runs)."""
    n = 0
    for f in th.values():
        for e in f.calls():
            c = e.node.get("callee") or ""
            if not (c == "aws_thread_launch" or ("launch" in c and c in th)) or len(e.node.get("a", [])) < 4:
                continue
            a3 = RU.strip_addr(f, RU.arg(f, e.node, 3))
            if a3 is None or a3["k"] != "var" or a3.get("sc") != "local":
                continue
            n += 1
            vn = a3["n"]
            init = None
            for d in f.all_events():
                if d.kind == "decl":
                    for v in d.node["vars"]:
                        if v["n"] == vn and v.get("init") is not None:
                            init = RU.uncast(f, v["init"])
            pnames = {p_["n"] for p_ in f.params if f.unit.types[p_["t"]].get("rec") == "aws_thread_options"}
            whole = init is not None and init["k"] == "un" and init["op"] == "deref" and (f.d(init["a"][0]) or {}).get("k") == "var" and f.canon(f.d(init["a"][0])["n"]) in pnames | {f.d(init["a"][0])["n"]} & pnames or (init is not None and f.show(init).lstrip("*(").rstrip(")") in pnames)
            stores = sorted({x.node["f"] for x in f.field_accesses(rec="aws_thread_options", modes=("w", "rw")) if f.show(x.node["a"][0]) == vn})
            R.check(bool(whole) and set(stores) <= {"cpu_id"}, "LAUNCH", "retry-keeps-the-options", where(f, e), "the retry's options are `*options` with only cpu_id changed",
                    "the options of the second launch attempt are initialised from %s and then get %s written: what the caller asked for (join strategy, stack size, name) is not all carried over - a managed thread is relaunched unmanaged, uncounted" % (f.show(init) if init is not None else "nothing", stores))
    R.require(n >= 1, "the relaunch without the cpu pin (a launch call handed the address of a local options object) was not found")


def analyse(ctx, replace=None, only=None):
    R = ctx.R
    P = ctx.program([TH, SH, "source/common.c"], "ship", replace=replace)
    th = {f.name: f for f in P.functions_in("posix/thread.c")}
    sh = {f.name: f for f in P.functions_in("thread_shared.c")}
    allf = dict(th)
    allf.update(sh)
    need = ["aws_thread_join_and_free_wrapper_list", "thread_fn", "aws_thread_launch", "aws_thread_current_at_exit", "s_thread_wrapper_destroy",
            "aws_thread_increment_unjoined_count", "aws_thread_decrement_unjoined_count", "aws_thread_join_all_managed", "aws_thread_pending_join_add",
            "s_one_or_fewer_managed_threads_unjoined", "aws_thread_initialize_thread_management"]
    for n in need:
        if not R.require(n in allf, "anchor function %s not found" % n):
            return
    for f in allf.values():
        R.fn(f)
    RU.GLOBAL_LOCKS.add(LOCK)

    # ------------------------------------------------------------ LOCK
    requires = {"s_one_or_fewer_managed_threads_unjoined"}
    entry, sites, problems = RU.entry_locksets(allf, requires)
    for p in problems:
        R.broken(p)
    n_acc = 0
    lockers = set()
    for name, f in sorted(allf.items()):
        acc = gacc(f)
        ts = RU.lockset(f, init=entry.get(name, frozenset()))
        if f.calls("aws_mutex_lock"):
            if any(argstr(f, e.node, 0) == LOCK for e in f.calls("aws_mutex_lock")):
                lockers.add(name)
        for e in acc:
            n_acc += 1
            inst = "%s:%s" % (name, e.node["n"])
            if name == "aws_thread_initialize_thread_management":
                R.ok("LOCK", inst, where(f, e), "library initialisation (no managed thread exists yet)")
                continue
            held = RU.held_at(ts, e)
            R.check(held is not None and LOCK in held, "LOCK", inst, where(f, e), "%s held" % LOCK,
                    "%s accessed without holding %s" % (e.node["n"], LOCK))
        if name in lockers:
            leaked = set()
            for s in ts.exit_states:
                leaked |= set(s)
            R.check(not leaked, "LOCK", "no-lock-at-exit:%s" % name, "%s()" % name, "returns with the lock released", "returns holding %s" % sorted(leaked))
        for e in f.calls(set(RU.WAIT_PRED)):
            mi, pi, ci = RU.WAIT_PRED[e.node["callee"]]
            held = RU.held_at(ts, e) or set()
            R.check(argstr(f, e.node, mi) in held, "LOCK", "wait-with-lock-held:%s" % name, where(f, e), "wait entered with the lock held", "wait entered without the lock")
    R.require(n_acc >= 10, "only %d guarded global accesses found (confirmed: >= 10)" % n_acc)

    # ------------------------------------------------------------ NOBLOCK
    # functions that (transitively) take the lock or block on a join
    blocking = set(lockers) | {"aws_thread_join", "pthread_join"}
    changed = True
    while changed:
        changed = False
        for name, f in allf.items():
            if name in blocking:
                continue
            if any(e.node.get("callee") in blocking for e in f.calls()):
                blocking.add(name)
                changed = True
    R.require("aws_thread_join_and_free_wrapper_list" in blocking, "join_and_free_wrapper_list should be classified as blocking")
    n_nb = 0
    for name, f in sorted(allf.items()):
        ts = RU.lockset(f, init=entry.get(name, frozenset()))
        for e in f.calls():
            c = e.node.get("callee")
            if c in blocking:
                n_nb += 1
                held = RU.held_at(ts, e) or set()
                R.check(LOCK not in held, "NOBLOCK", "%s:%s" % (name, c), where(f, e), "%s called with the lock released" % c,
                        "%s is called while %s is held: it joins a thread or re-acquires the (non-recursive) lock -> deadlock" % (c, LOCK))
    R.require(n_nb >= 6, "only %d blocking call sites found" % n_nb)

    handoff(R, sh, P)
    per_thread_state(R, P, th)
    wrapper_pointer_rules(R, P, th)
    join_list(R, th["aws_thread_join_and_free_wrapper_list"])
    thread_fn(R, th["thread_fn"], P)
    atexit(R, th["aws_thread_current_at_exit"])
    lf = th["aws_thread_launch"]
    if not lf.calls("pthread_create"):
        # the launch proper may live in a private function that aws_thread_launch calls (once, or again for the unpinned
        # retry) and whose result it returns
        cands = [g for g in th.values() if g.calls("pthread_create")]
        if len(cands) == 1 and lf.calls(cands[0].name):
            okw = all(r_.node["a"] and (RU.origin(lf, r_.node["a"][0]) or {}).get("callee") == cands[0].name for r_ in lf.returns())
            R.check(okw, "LAUNCH", "launch-returns-the-attempt", "%s()" % lf.name, "aws_thread_launch returns the result of %s on every path" % cands[0].name)
            lf = cands[0]
    launch(R, lf)
    retry_options(R, th)
    ownership_and_init(R, P, th, allf)
    # wrapper destroy: name destroyed, then the wrapper released, nothing after
    d = th["s_thread_wrapper_destroy"]
    rel = [e for e in d.calls("aws_mem_release") if argstr(d, e.node, 1, addr=False) == "wrapper"]
    R.check(len(rel) == 1, "JOIN-LIST", "wrapper-destroy:releases-wrapper", "%s()" % d.name, "wrapper released")
    for e in rel:
        later = RU.dead_after(d, e, "wrapper")
        R.check(not later, "JOIN-LIST", "wrapper-destroy:dead-after-release", where(d, e), "nothing touches the wrapper after its release", "wrapper used after release")
    # decrement signals the waiter under the lock
    dec = sh["aws_thread_decrement_unjoined_count"]
    ok, _ = RU.must_follow(dec, lambda e: e.kind == "access" and e.node["k"] == "var" and e.node["n"] == "s_unjoined_thread_count" and e.mode in ("rw", "w"),
                           lambda e: e.kind == "call" and e.node.get("callee") in ("aws_condition_variable_notify_one", "aws_condition_variable_notify_all"))
    R.check(ok, "HANDOFF", "decrement-notifies", "%s()" % dec.name, "count decrement is followed by a notification of the join-all waiter",
            "the count is decremented without notifying: join-all can wait forever")
    for e in gacc(dec, {"s_unjoined_thread_count"}):
        if e.mode in ("rw", "w"):
            st = dec.nodes  # noqa
    # predicate threshold
    p = sh["s_one_or_fewer_managed_threads_unjoined"]
    okp = False
    for r in p.returns():
        v = RU.uncast(p, r.node["a"][0]) if r.node["a"] else None
        if v is not None and v["k"] == "bin" and v["op"] in ("<=", "<"):
            l, rr = RU.uncast(p, v["a"][0]), RU.uncast(p, v["a"][1])
            k = p.is_const(rr)
            if l is not None and l["k"] == "var" and l["n"] == "s_unjoined_thread_count" and k is not None:
                thr = k if v["op"] == "<=" else k - 1
                okp = thr >= 1
    R.check(okp, "HANDOFF", "predicate-threshold", "%s()" % p.name, "join-all wakes when at most one managed thread is unjoined (the last one is joined by the caller)",
            "the join-all predicate waits for a count the caller itself must bring down: the last finished thread is never joined (deadlock)")


def per_thread_state(R, P, th):
    """THREAD-FN/state: what every library thread writes for itself at start-up (the pointer to its own wrapper, through
    which aws_thread_current_at_exit registers callbacks) is thread-local storage"""
    f = th["thread_fn"]
    names = sorted({e.node["n"] for e in f.all_events() if e.kind == "access" and e.node["k"] == "var" and e.node.get("sc") == "global" and e.mode in ("w", "rw")})
    R.require(len(names) >= 1, "thread_fn: no static-storage variable written (the current-wrapper pointer was expected)")
    for n in names:
        g = P.globals.get(n) or {}
        R.check(bool(g.get("tls")), "THREAD-FN", "per-thread-state:%s" % n, "source/posix/thread.c", "%s, written by every thread for itself, is thread-local" % n,
                "%s is written by every library thread at start-up but is not thread-local: all threads share one `current wrapper`, so at-exit callbacks are registered on whichever thread started last (run on the wrong thread, or written into a wrapper copy on a stack that is gone)" % n)


def wrapper_pointer_rules(R, P, th):
    """THREAD-FN/state, continued.  (1) Only the function that installed a temporary uninstalls it: outside thread_fn, a
    store of NULL to the thread-local `current wrapper` pointer is reached only on paths on which the same call stored the
    address of one of its own locals there (typestate, with `pointer == &local` / a flag computed from `pointer == NULL`
    correlated) - clearing it unconditionally cuts a library thread off from its own wrapper: later at-exit registrations
    fail.  (2) aws_thread_init leaves the thread object NOT_CREATED on every path (a re-used object does not keep MANAGED
    from an earlier launch).  (3) no allocation in the file is smaller than the object it is used as."""
    tls = sorted({e.node["n"] for e in th["thread_fn"].all_events() if e.kind == "access" and e.node["k"] == "var" and e.node.get("sc") == "global" and e.mode in ("w", "rw") and (P.globals.get(e.node["n"]) or {}).get("tls")})
    n_sites = 0
    for name, f in sorted(th.items()):
        if name == "thread_fn" or getattr(f, "transparent", False):
            continue
        stores = {}
        for b in f.blocks.values():
            for el in b.elems:
                for x in f.walk(el):
                    if x["k"] == "bin" and x["op"] == "=":
                        l_, r_ = f.d(x["a"][0]), RU.uncast(f, x["a"][1])
                        while r_ is not None and r_["k"] == "cast":
                            r_ = RU.uncast(f, r_["a"][0])
                        if l_ is not None and l_["k"] == "var" and l_["n"] in tls and r_ is not None:
                            if r_["k"] == "un" and r_["op"] == "addr" and (f.d(r_["a"][0]) or {}).get("sc") == "local":
                                stores[id(l_)] = ("install", f.d(r_["a"][0])["n"])
                            elif f.is_const(r_) == 0:
                                stores[id(l_)] = ("clear", None)
                            else:
                                stores[id(l_)] = ("other", None)
        if not any(k == "clear" for k, _ in stores.values()):
            continue
        n_sites += 1

        def tr(e, s_, stores=stores):
            if e.kind == "access" and e.mode == "w" and id(e.node) in stores:
                kind, loc = stores[id(e.node)]
                if kind == "install":
                    return "installed"
                if kind == "clear":
                    return "none" if s_ == "installed" else "BAD"
                return "foreign"
            return s_

        def edge(cond, pol, s_, fn, b):
            g = RU.cmp_norm(fn, cond, pol)
            if not g or g[2] is None or g[1] not in ("==", "!="):
                return s_
            sides = [RU.uncast(fn, g[0]), RU.uncast(fn, g[2])]
            for a_, b_ in (sides, sides[::-1]):
                x_ = b_
                while x_ is not None and x_["k"] == "cast":
                    x_ = RU.uncast(fn, x_["a"][0])
                if a_ is not None and a_["k"] == "var" and a_["n"] in tls and x_ is not None and x_["k"] == "un" and x_["op"] == "addr" and (fn.d(x_["a"][0]) or {}).get("sc") == "local":
                    mine = g[1] == "=="
                    if mine and s_ != "installed":
                        return []  # nobody else can have stored the address of this call's local
                    if not mine and s_ == "installed":
                        return []
            return s_
        ts = Typestate(f, "none", tr, edge, correlate=True)
        allst = set().union(*ts.before.values()) | ts.exit_states if ts.before else set()
        R.check("BAD" not in allst, "THREAD-FN", "per-thread-state:%s-clears-only-its-own-temporary" % name, "%s()" % name, "the current-wrapper pointer is reset only where this call installed its own temporary",
                "%s resets the thread-local current-wrapper pointer on a path on which it did not install it: on a library thread the thread's own wrapper is uninstalled, later aws_thread_current_at_exit calls fail and their callbacks never run" % name)
    R.require(n_sites >= 1 or not tls, "thread.c: no function that installs a temporary wrapper found (aws_thread_call_once expected)")
    f = th.get("aws_thread_init")
    nc = P.enums.get("AWS_THREAD_NOT_CREATED")
    if R.require(f is not None and nc is not None, "aws_thread_init / AWS_THREAD_NOT_CREATED not found"):
        st_ = [e for e in f.field_accesses(rec="aws_thread", field="detach_state", modes=("w",))]
        good = [e for e in st_ if (lambda a_: a_ is not None and f.is_const(RU.uncast(f, a_["a"][1])) == nc)(_assignment_of_any(f, e))]
        always = bool(good) and Typestate(f, 0, lambda e, s_: 1 if any(e is g_ for g_ in good) else s_).exit_states == {1}
        R.check(always and len(good) == len(st_), "LAUNCH", "init-resets-detach-state", "%s()" % f.name, "aws_thread_init stores detach_state = AWS_THREAD_NOT_CREATED on every path",
                "aws_thread_init does not reset detach_state: a thread object re-used after a managed launch keeps AWS_THREAD_MANAGED, the new (manual) thread takes the managed exit path - it is joined twice and the unjoined count wraps")
    for name, f in sorted(th.items()):
        for c, n, need in RU.alloc_too_small(f):
            R.fail("ATEXIT-LIFO" if name == "aws_thread_current_at_exit" else "LAUNCH", "%s:allocation-holds-the-object" % name, where(f, c),
                   "%s bytes are requested for an object of %s bytes: its fields beyond the request lie outside the block (they overlap the next allocation of an exact-size allocator)" % (n, need))
    R.check(True, "LAUNCH", "allocations-hold-their-objects", "source/posix/thread.c", "no constant-size allocation is smaller than the object it is used as")


def _managed_test(f, P, c, p):
    """True / False when the decision (c taken with polarity p) says `this thread is managed` / `is not`: a comparison of the
    thread's detach_state - the field, or a local holding it - with AWS_THREAD_MANAGED, directly or through a boolean local
    initialised with that comparison; None for any other condition"""
    mv = P.enums.get("AWS_THREAD_MANAGED") if P is not None else None
    g = RU.cmp_norm(f, c, p)
    if g and g[2] is None and mv is not None:
        # a boolean local: `const bool managed = (copy.detach_state == AWS_THREAD_MANAGED); if (managed)` - assigned once,
        # at its declaration (the structure it was computed from may have its address taken, the flag itself has not)
        v = RU.uncast(f, g[0])
        if v is not None and v["k"] == "var" and v.get("sc") == "local":
            inits = [vv["init"] for e in f.all_events() if e.kind == "decl" for vv in e.node["vars"] if vv["n"] == v["n"] and vv.get("init") is not None]
            writes = [e for e in f.all_events() if e.kind == "access" and e.node["k"] == "var" and e.node["n"] == v["n"] and e.mode in ("w", "rw", "addr")]
            i0 = RU.uncast(f, inits[0]) if len(inits) == 1 and not writes else None
            while i0 is not None and i0["k"] == "cast":
                i0 = RU.uncast(f, i0["a"][0])
            if i0 is not None and i0["k"] == "bin" and i0["op"] in ("==", "!="):
                truth = (g[1] == "!=")  # the flag is true on this edge
                g = (i0["a"][0], i0["op"] if truth else ("!=" if i0["op"] == "==" else "=="), i0["a"][1])
    if not g or g[2] is None or g[1] not in ("==", "!=") or mv is None:
        return None
    for a_, b_ in ((g[0], g[2]), (g[2], g[0])):
        o = RU.origin(f, a_)
        if o is not None and o["k"] == "member" and o["f"] == "detach_state" and f.is_const(RU.uncast(f, b_)) == mv:
            return g[1] == "=="
    return None


def handoff(R, sh, P=None):
    f = sh["aws_thread_pending_join_add"]
    # (the pending list is taken into a local list: swap with an empty one, or aws_linked_list_move_all_back/front)
    takes = {id(e): (e, dst) for e, dst, src in RU.list_take_alls(f) if src == "s_pending_join_managed_threads" and dst != src}
    sw = [e for e, dst in takes.values()]
    pu = [e for e in f.calls({"aws_linked_list_push_back", "aws_linked_list_push_front"}) if argstr(f, e.node, 0) == "s_pending_join_managed_threads"]
    R.require(len(sw) == 1 and len(pu) == 1, "pending_join_add: expected one swap and one push")
    if len(sw) == 1 and len(pu) == 1:
        dom = dominators(f)
        R.check(ev_dominates(f, sw[0], pu[0], dom), "HANDOFF", "pending-add:swap-before-push", where(f, pu[0]), "predecessor swapped out before self is enqueued",
                "the thread enqueues itself before swapping the predecessor out: it would join against itself")

        # one critical section: no unlock between swap and push
        def tr(e, s):
            if e is sw[0]:
                return "swapped"
            if e.kind == "call" and e.node.get("callee") == "aws_mutex_unlock" and s == "swapped":
                return "unlocked"
            if e is pu[0]:
                return "ok" if s == "swapped" else "BAD"
            return s

        ts = Typestate(f, "none", tr)
        R.check("BAD" not in ts.exit_states and "ok" in ts.exit_states, "HANDOFF", "pending-add:one-critical-section", where(f, pu[0]),
                "swap-out and self-enqueue happen in the same critical section", "the lock is dropped between swapping the predecessor out and enqueueing self: two finishing threads can both find the list empty/non-empty inconsistently (a wrapper is lost or joined twice)")
        local = [dst for e, dst in takes.values()]
        jn = [e for e in f.calls("aws_thread_join_and_free_wrapper_list") if argstr(f, e.node, 0) in local]
        okf, _ = RU.must_follow(f, lambda e: e is sw[0], lambda e: any(e is j for j in jn))
        R.check(bool(jn) and okf, "HANDOFF", "pending-add:predecessor-joined", where(f, sw[0]), "the swapped-out predecessor list is joined and freed on every path",
                "the swapped-out predecessor is never joined: its wrapper leaks and the unjoined count never reaches zero")
        # node pushed is the parameter
        R.check(argstr(f, pu[0].node, 1, addr=False) == "node", "HANDOFF", "pending-add:pushes-own-node", where(f, pu[0]), "own node enqueued")

    j = sh["aws_thread_join_all_managed"]
    takes_j = {id(e): (e, dst) for e, dst, src in RU.list_take_alls(j) if src == "s_pending_join_managed_threads" and dst != src}
    sw = [e for e, dst in takes_j.values()]
    R.require(len(sw) == 1, "join_all_managed: expected one swap of the pending list")
    if sw:
        local = [dst for e, dst in takes_j.values()]
        jn = [e for e in j.calls("aws_thread_join_and_free_wrapper_list") if argstr(j, e.node, 0) in local]

        def tr2(e, s):
            if e is sw[0]:
                return "BAD" if s == "taken" else "taken"
            if any(e is x for x in jn):
                return "joined"
            return s

        ts2 = Typestate(j, "none", tr2)
        allst = set().union(*ts2.before.values()) | ts2.exit_states if ts2.before else set()
        R.check(bool(jn) and "BAD" not in allst and "taken" not in ts2.exit_states, "HANDOFF", "join-all:taken-list-joined", where(j, sw[0]),
                "every list taken from the pending list is joined before the next one is taken and before returning",
                "a list taken from the pending list is dropped without being joined")
        # the local list is (re)initialised before each swap so stale nodes are not joined twice
        ini = [e for e in j.calls("aws_linked_list_init") if argstr(j, e.node, 0) in local]
        dom = dominators(j)
        R.check(bool(ini) and all(any(ev_dominates(j, i, s, dom) for i in ini) for s in sw), "HANDOFF", "join-all:list-initialised", where(j, sw[0]), "join list initialised before the swap")
    # join-all returns only after it has seen, under the lock, that no managed thread is left unjoined - or its deadline has
    # passed.  (1) every read of the count is under the lock; (2) NUM, every return state: the count last read is 0, or the
    # clock value last fetched has reached a non-zero deadline - however the loop and its `done` flag are written
    ts = RU.lockset(j)
    reads = [e for e in j.all_events() if e.kind == "access" and e.node["k"] == "var" and e.node["n"] == "s_unjoined_thread_count" and e.mode in ("r", "rw")]
    R.require(len(reads) >= 1, "join_all_managed: assignment done := (count == 0) not found")
    for e in reads:
        held = RU.held_at(ts, e) or set()
        R.check(LOCK in held, "HANDOFF", "join-all:done-iff-count-zero", where(j, e), "the unjoined count is read under the lock",
                "`done` is not computed as count == 0 under the lock: join-all can return while managed threads are still unjoined")
    from sa.num import Num, Poly, Limit, entails
    from sa.awslib import AwsHooks
    clock = [e for e in j.calls("aws_sys_clock_get_ticks")]
    nowv = {argstr(j, e.node, 0) for e in clock}
    num = Num(j, P, AwsHooks(), max_paths=20000) if P is not None else None
    okx, det, nst = True, "", 0
    if num is not None and R.require(len(nowv) == 1, "join_all_managed: the clock variable not found"):
        now = "v:" + list(nowv)[0]
        try:
            sts = num.states_at({-1}).get(-1, [])
        except Limit as ex:
            R.broken(str(ex))
            sts = []
        for st in sts:
            nst += 1
            ca = (st.notes.get("orig") or {}).get("g:s_unjoined_thread_count")
            zero = ca is not None and entails(st, Poly.atom(ca)) and entails(st, -Poly.atom(ca))
            late = False
            nv = st.env.get(now)
            if nv is not None:
                for k_, v_ in st.env.items():
                    if k_.startswith("v:") and k_ != now and v_ is not None and not v_.is_const() and v_ != nv and entails(st, v_ - nv) and entails(st, Poly.const(1) - v_):
                        late = True
            if not (zero or late):
                okx, det = False, "trail %s" % (st.trail[-6:],)
        R.check(okx and nst >= 1, "HANDOFF", "join-all:loops-until-done", "%s()" % j.name, "every return has seen count == 0 under the lock or a passed deadline (%d states)" % nst,
                "join-all can return although managed threads are still unjoined and no deadline has passed (%s)" % det)


def join_list(R, f):
    dom = dominators(f)
    destroy = f.calls("s_thread_wrapper_destroy")
    joins = f.calls("aws_thread_join")
    decs = f.calls("aws_thread_decrement_unjoined_count")
    cleans = f.calls("aws_thread_clean_up")
    R.require(len(destroy) == 1 and len(joins) == 1 and len(decs) == 1, "join_and_free_wrapper_list: expected one join, one destroy, one decrement")
    if not (destroy and joins and decs):
        return
    w = RU.arg(f, destroy[0].node, 0)
    wname = w["n"] if w and w["k"] == "var" else None
    # iterator advanced between deriving the wrapper and destroying it
    decl = [e for e in f.all_events() if e.kind == "decl" and any(v["n"] == wname for v in e.node["vars"])]
    R.require(len(decl) == 1, "join list: wrapper variable declaration not found")
    if decl:
        init = decl[0].node["vars"][0].get("init")
        itv = [x["n"] for x in f.walk(init, follow_refs=True) if x["k"] == "var"]
        itname = itv[0] if itv else None
        adv = [e for e in f.all_events() if e.kind == "access" and e.node["k"] == "var" and e.node["n"] == itname and e.mode == "w"]
        okadv = any(ev_dominates(f, decl[0], a, dom) and ev_dominates(f, a, destroy[0], dom) for a in adv)
        if not okadv:
            # equally good: the successor is fetched into another variable before the destroy, and the iterator is only ever
            # set from that variable afterwards (a for loop with a saved `next`)
            nx = [e for e in f.calls("aws_linked_list_next") if argstr(f, e.node, 0, addr=False) == itname]
            saved = set()
            for e in nx:
                for b_ in f.blocks.values():
                    for el in b_.elems:
                        if el["k"] == "bin" and el["op"] == "=" and RU.uncast(f, el["a"][1]) is e.node and (f.d(el["a"][0]) or {}).get("k") == "var":
                            saved.add(f.d(el["a"][0])["n"])
                        if el["k"] == "decl":
                            for v in el["vars"]:
                                if v.get("init") is not None and RU.uncast(f, v["init"]) is e.node:
                                    saved.add(v["n"])
            loopw = [a for a in adv if a in RU.reach_from(f, destroy[0])]
            from_saved = all((lambda a_: a_ is not None and a_["op"] == "=" and (RU.uncast(f, a_["a"][1]) or {}).get("k") == "var" and RU.uncast(f, a_["a"][1])["n"] in saved)(_assignment_of_any(f, a)) for a in loopw)
            okadv = bool(nx) and bool(saved) and all(ev_dominates(f, e, destroy[0], dom) for e in nx) and bool(loopw) and from_saved
        if not okadv and itname:
            # equally good: the node is taken off the list before its wrapper is destroyed (pop_front / pop_back, or
            # aws_linked_list_remove of it) and the variable that names it is not read again before it is set anew
            o_ = RU.origin(f, {"k": "var", "n": itname, "sc": "local", "t": -1, "id": -1})
            popped = o_ is not None and o_["k"] == "call" and o_.get("callee") in ("aws_linked_list_pop_front", "aws_linked_list_pop_back")
            removed = any(argstr(f, e.node, 0, addr=False) == itname and ev_dominates(f, e, destroy[0], dom) for e in f.calls("aws_linked_list_remove"))
            okadv = (popped or removed) and not RU.dead_after(f, destroy[0], itname)
        R.check(okadv, "JOIN-LIST", "iterator-advanced-before-destroy", where(f, destroy[0]), "`%s` is advanced after the wrapper is derived and before it is destroyed" % itname,
                "the list iterator still points into the wrapper when it is destroyed: the next iteration reads freed memory")
    order = [("set-joinable", [e for e in f.field_accesses(field="detach_state", modes=("w",))]), ("join", joins), ("clean-up", cleans), ("destroy", destroy), ("decrement", decs)]
    for nm, evs in order:
        if nm == "set-joinable":
            R.check(len(evs) >= 1, "JOIN-LIST", "marks-copy-joinable", "%s()" % f.name, "the wrapper's thread copy is marked joinable before the join",
                    "the thread copy that is joined is never marked JOINABLE here: aws_thread_join returns without joining a MANAGED thread, its wrapper is freed while it may still run")
        else:
            R.require(len(evs) >= 1, "join list: step %s missing" % nm)
    for (an, A), (bn, B) in zip(order, order[1:]):
        if A and B:
            bad = RU.must_precede(f, A, B, dom)
            R.check(not bad, "JOIN-LIST", "%s<%s" % (an, bn), where(f, (bad or B)[0]), "%s precedes %s" % (an, bn), "%s can happen before %s" % (bn, an))
    # the join is on the wrapper's own thread copy and the state stored is JOINABLE
    for e in order[0][1]:
        asg = None
        for b in f.blocks.values():
            for el in b.elems:
                for n in f.walk(el):
                    if n["k"] == "bin" and n["op"] == "=" and f.d(n["a"][0]) is e.node:
                        asg = n
        R.check(asg is not None and (f.d(asg["a"][1]) or {}).get("name") == "AWS_THREAD_JOINABLE", "JOIN-LIST", "detach-state-joinable", where(f, e),
                "thread copy marked JOINABLE so that aws_thread_join really joins", "the thread copy is not marked joinable before the join: aws_thread_join returns without joining")
    if wname:
        later = RU.dead_after(f, destroy[0], wname)
        R.check(not later, "JOIN-LIST", "dead-after-destroy", where(f, destroy[0]), "wrapper not used after destroy", "wrapper used after destroy at lines %s" % [x.line for x in later][:3])
    # every iteration decrements: decrement post-dominates the join within the loop body
    okf, _ = RU.must_follow(f, lambda e: e is joins[0], lambda e: e is decs[0])
    R.check(okf, "JOIN-LIST", "each-join-decrements", where(f, joins[0]), "every joined thread decrements the unjoined count", "a path joins a thread without decrementing the count")


def thread_fn(R, f, P=None):
    dom = dominators(f)
    calls = [e for e in f.indirect_calls() if RU.indirect_via(f, e.node) == ("thread_wrapper", "func")]
    R.require(len(calls) == 1, "thread_fn: expected exactly one call through wrapper.func, found %d" % len(calls))
    if not calls:
        return
    fc = calls[0]
    a0 = RU.arg(f, fc.node, 0)
    base_fn = f.show(f.d(fc.node["fn"])["a"][0]) if f.d(fc.node["fn"])["k"] == "member" else None
    R.check(a0 is not None and a0["k"] == "member" and a0["f"] == "arg" and f.show(a0["a"][0]) == base_fn, "THREAD-FN", "func-called-with-its-arg", where(f, fc),
            "func(arg) uses the function and argument of the same wrapper")

    def tr(e, s):
        if e is fc:
            return min(s + 1, 2)
        return s

    ts = Typestate(f, 0, tr)
    R.check(ts.exit_states == {1}, "THREAD-FN", "func-exactly-once", "%s()" % f.name, "every path to the thread's return invokes the user function exactly once",
            "user function invoked %s times on some path" % sorted(ts.exit_states))
    # the thread-local wrapper points at the local copy before the function runs
    copy = None
    for e in f.all_events():
        if e.kind == "decl":
            for v in e.node["vars"]:
                if f.unit.types[v["t"]].get("rec") == "thread_wrapper" and not f.unit.types[v["t"]].get("ptr"):
                    copy = v["n"]
    R.require(copy is not None, "thread_fn: local wrapper copy not found")
    tl = [e for e in f.all_events() if e.kind == "access" and e.node["k"] == "var" and e.node["n"] == "tl_wrapper" and e.mode == "w"]
    R.check(any(ev_dominates(f, t, fc, dom) for t in tl), "THREAD-FN", "tl-wrapper-set-before-func", where(f, fc), "tl_wrapper published before the user function runs",
            "tl_wrapper is not set before the user function: at-exit registration from the thread fails")
    for t in tl:
        if not ev_dominates(f, t, fc, dom):
            continue
        asg = None
        for b in f.blocks.values():
            for el in b.elems:
                for n in f.walk(el):
                    if n["k"] == "bin" and n["op"] == "=" and f.d(n["a"][0]) is t.node:
                        asg = n
        rhs = f.show(asg["a"][1]) if asg else None
        R.check(rhs == "&" + str(copy), "THREAD-FN", "registrations-land-where-the-chain-is-read", where(f, t), "tl_wrapper = &%s, the object whose at-exit chain the thread runs" % copy,
                "tl_wrapper is set to %s but the at-exit chain is run from %s.atexit: callbacks registered by the thread are never run and their nodes leak" % (rhs, copy))
    # at-exit chain: head read from the local copy after func returned
    heads = [e for e in f.field_accesses(rec="thread_wrapper", field="atexit", modes=("r",))]
    R.require(len(heads) >= 1, "thread_fn: read of wrapper.atexit not found")
    for h in heads:
        R.check(f.show(h.node) == copy + ".atexit" and ev_dominates(f, fc, h, dom), "THREAD-FN", "atexit-head-read-after-func-from-copy", where(f, h),
                "the at-exit chain head is read from the thread-local copy after the user function returned",
                "the at-exit chain is read from %s / before the user function ran: callbacks registered by the thread are missed" % f.show(h.node["a"][0]))
    # callback nodes
    rel = [e for e in f.calls("aws_mem_release") if (RU.arg(f, e.node, 1) or {}).get("k") == "var" and f.unit.types[(RU.arg(f, e.node, 1))["t"]].get("rec") == "thread_atexit_callback"]
    R.require(len(rel) == 1, "thread_fn: release of the at-exit node not found")
    if rel:
        node = RU.arg(f, rel[0].node, 1)["n"]
        reads = [e for e in f.field_accesses(rec="thread_atexit_callback", modes=("r",))]
        fields = {e.node["f"] for e in reads if ev_dominates(f, e, rel[0], dom)}
        R.check({"callback", "user_data", "next"} <= fields, "THREAD-FN", "atexit-node-read-before-release", where(f, rel[0]), "callback, user_data and next are read before the node is released",
                "a field of the at-exit node is read after / without being read before its release (fields read before: %s)" % sorted(fields))
        later = RU.dead_after(f, rel[0], node)
        R.check(not later, "THREAD-FN", "atexit-node-dead-after-release", where(f, rel[0]), "node not touched after release", "at-exit node used after release at lines %s" % [x.line for x in later][:3])
        cbs = [e for e in f.indirect_calls() if RU.indirect_via(f, e.node) and (RU.indirect_via(f, e.node) == ("thread_atexit_callback", "callback") or (RU.indirect_via(f, e.node)[0] == "<var>" and (f.d(e.node["fn"]) or {}).get("sc") == "local"))]
        R.check(len(cbs) == 1 and ev_dominates(f, fc, cbs[0], dom), "THREAD-FN", "atexit-callback-invoked-after-func", where(f, (cbs or [fc])[0]), "callbacks run after the user function")
        if cbs:
            # same loop: callback invoked once per released node
            okf, _ = RU.must_follow(f, lambda e: e is rel[0], lambda e: e is cbs[0])
            R.check(okf, "THREAD-FN", "each-node-invoked", where(f, rel[0]), "every released node's callback is invoked")
            # loop advances to the saved next
            nxt = [e for e in f.all_events() if e.kind == "access" and e.node["k"] == "var" and e.node["n"] == node and e.mode == "w"]
            adv_var = any(ev_dominates(f, cbs[0], n, dom) or ev_dominates(f, rel[0], n, dom) for n in nxt)
            # or: the chain head itself is advanced to the node's successor before the node is released (the node is then
            # taken from the head on the next iteration)
            adv_head = False
            for hw in f.field_accesses(rec="thread_wrapper", field="atexit", modes=("w",)):
                asg = None
                for b_ in f.blocks.values():
                    for el in b_.elems:
                        for n_ in f.walk(el):
                            if n_["k"] == "bin" and n_["op"] == "=" and f.d(n_["a"][0]) is hw.node:
                                asg = n_
                if asg is not None and f.show(f.d(asg["a"][1])) == "%s->next" % node and ev_dominates(f, hw, rel[0], dom) and f.show(hw.node) == copy + ".atexit":
                    adv_head = True
            R.check(adv_var or adv_head, "THREAD-FN", "atexit-loop-advances", where(f, rel[0]), "the loop advances to the node's saved successor (loop variable, or the chain head before the release)")
        if cbs:
            # registrations made by a callback while the chain is run belong to the thread as well: the loop takes every
            # node from the live head (re-read and unlinked on each iteration), or registration is refused from then on
            from sa.num import Num
            body = None
            for h, bd in Num(f, None, None).loops().items():
                if cbs[0].blk in bd or cbs[0].blk == h:
                    body = set(bd) | {h}
            hd_r = [e for e in f.field_accesses(rec="thread_wrapper", field="atexit", modes=("r",)) if body and e.blk in body]
            hd_w = [e for e in f.field_accesses(rec="thread_wrapper", field="atexit", modes=("w",)) if body and e.blk in body and ev_dominates(f, e, cbs[0], dom)]
            refused = [t for t in tl if ev_dominates(f, t, cbs[0], dom) and ev_dominates(f, fc, t, dom)]
            R.check(bool(body) and ((hd_r and hd_w) or refused), "THREAD-FN", "registrations-during-the-chain-run-are-run", where(f, cbs[0]),
                    "each iteration takes the node from the live chain head and unlinks it before its callback runs (or tl_wrapper is cleared before the chain runs)",
                    "the chain head is read once before the loop and tl_wrapper still points at the wrapper while callbacks run: aws_thread_current_at_exit called from an at-exit callback returns success, links its node to the consumed head, and the node is never run and never released")
    # wrapper_ptr: not used after destroy (correlated branches pruned); hand-over last
    for dsy in f.calls("s_thread_wrapper_destroy"):
        v = RU.arg(f, dsy.node, 0)
        if v and v["k"] == "var":
            later = RU.dead_after(f, dsy, v["n"])
            R.check(not later, "THREAD-FN", "wrapper-dead-after-destroy", where(f, dsy), "heap wrapper not used after destroy", "heap wrapper used after destroy at lines %s" % [x.line for x in later][:3])
            R.check(ev_dominates(f, fc, dsy, dom), "THREAD-FN", "destroy-after-func", where(f, dsy), "wrapper destroyed only after the user function returned")
    ho = f.calls("aws_thread_pending_join_add")
    R.require(len(ho) == 1, "thread_fn: hand-over to the managed join list not found")
    for h in ho:
        later = [e for e in RU.reach_from(f, h) if e.kind == "call"]
        R.check(not later, "THREAD-FN", "handover-last", where(f, h), "nothing runs on the thread after it hands itself over", "calls after the hand-over: %s" % [x.node.get("callee") for x in later][:3])
        cb_after = [e for e in f.indirect_calls() if e in RU.reach_from(f, h)]
        gs = [f.show(c) + ("" if p else "==false") for c, p, b in RU.guards(f, h)]
        R.check(any(_managed_test(f, P, c, p) is True for c, p, b in RU.guards(f, h)), "THREAD-FN", "handover-only-managed", where(f, h), "hand-over only for managed threads (%s)" % gs)
    # non-managed destroy / managed keep
    for dsy in f.calls("s_thread_wrapper_destroy"):
        gs = [(f.show(c), p) for c, p, b in RU.guards(f, dsy)]
        R.check(any(_managed_test(f, P, c, p) is not None for c, p, b in RU.guards(f, dsy)), "THREAD-FN", "destroy-only-unmanaged", where(f, dsy), "the wrapper is destroyed here only for non-managed threads (%s)" % gs,
                "managed wrappers must survive until the lazy join; destroy is not guarded by the managed test")


def atexit(R, f):
    dom = dominators(f)
    st_next = [e for e in f.field_accesses(rec="thread_atexit_callback", field="next", modes=("w",))]
    st_head = [e for e in f.field_accesses(rec="thread_wrapper", field="atexit", modes=("w",))]
    rd_head = [e for e in f.field_accesses(rec="thread_wrapper", field="atexit", modes=("r",))]
    R.require(len(st_head) == 1, "at_exit: expected one store of the chain head")
    R.check(len(st_next) == 1 and len(rd_head) >= 1, "ATEXIT-LIFO", "links-old-head", "%s()" % f.name, "the new node links to the old head",
            "the new at-exit node never links to the old head: earlier registrations are dropped")
    if st_next and st_head and rd_head:
        R.check(ev_dominates(f, rd_head[0], st_head[0], dom) and ev_dominates(f, st_next[0], st_head[0], dom), "ATEXIT-LIFO", "prepend", where(f, st_head[0]),
                "new->next = old head, then head = new (callbacks run in reverse registration order)",
                "the new node does not link to the old head before becoming the head: earlier registrations are lost or order is not LIFO")
        # the value stored in next is the head read
        asg = None
        for b in f.blocks.values():
            for el in b.elems:
                for n in f.walk(el):
                    if n["k"] == "bin" and n["op"] == "=" and f.d(n["a"][0]) is st_next[0].node:
                        asg = n
        R.check(asg is not None and f.d(asg["a"][1]) is rd_head[0].node, "ATEXIT-LIFO", "next-is-old-head", where(f, st_next[0]), "cb->next receives the old head")
    for fld in ("callback", "user_data"):
        st = f.field_accesses(rec="thread_atexit_callback", field=fld, modes=("w",))
        R.check(len(st) == 1, "ATEXIT-LIFO", "stores-%s" % fld, "%s()" % f.name, "%s stored" % fld)


def launch(R, f):
    inc = f.calls("aws_thread_increment_unjoined_count")
    dec = f.calls("aws_thread_decrement_unjoined_count")
    cre = f.calls("pthread_create")
    R.require(len(inc) == 1 and len(cre) == 1, "aws_thread_launch: expected one increment and one pthread_create")
    if not (inc and cre):
        return
    dom = dominators(f)
    gs = [f.show(c) for c, p, b in RU.guards(f, inc[0]) if p]
    R.check(any("is_managed_thread" in g or "join_strategy" in g for g in gs), "LAUNCH", "increment-only-managed", where(f, inc[0]), "count incremented for managed threads only")
    # the result variable of pthread_create
    res = None
    for b in f.blocks.values():
        for el in b.elems:
            for n in f.walk(el):
                if n["k"] == "bin" and n["op"] == "=" and f.d(n["a"][1]) is cre[0].node and f.d(n["a"][0])["k"] == "var":
                    res = f.d(n["a"][0])["n"]
    R.require(res is not None, "aws_thread_launch: result variable of pthread_create not found")

    def tr(e, s):
        if e is inc[0]:
            return "inc"
        if e is cre[0]:
            return {"inc": "inc-create?", "none": "create?"}.get(s, s)
        if any(e is d for d in dec):
            return "balanced" if s == "inc-failed" else "BAD-dec-in-" + s
        if e.kind == "call" and e.node.get("callee") == "s_thread_wrapper_destroy":
            return {"failed": "failed-cleaned", "balanced": "balanced-cleaned"}.get(s, s)
        if e.kind == "call" and e.node.get("callee") in ("aws_thread_launch", f.name):
            return "retry"
        return s

    def edge(cond, pol, s, fn, b):
        g = RU.cmp_norm(fn, cond, pol)
        if g and g[2] is None:
            v = RU.uncast(fn, g[0])
            if v["k"] == "var" and v["n"] == res:
                failed = g[1] == "!="
                if s == "inc-create?":
                    return "inc-failed" if failed else "running"
                if s == "create?":
                    return "failed" if failed else "running"
        return s

    ts = Typestate(f, "none", tr, edge, correlate=True)
    bad = {s for s in ts.exit_states if s in ("inc", "inc-create?", "inc-failed", "create?", "failed", "balanced") or s.startswith("BAD")}
    R.check(ts.exit_states and not bad, "LAUNCH", "count-rollback-and-wrapper-cleanup", "%s()" % f.name,
            "every exit is: not created / running / creation failed with the count rolled back (managed) and the wrapper destroyed",
            "an exit is reached in state %s (increment without decrement after a failed pthread_create, or wrapper not destroyed)" % sorted(bad))
    # once pthread_create succeeded the wrapper belongs to the new thread (a managed thread may already have finished and
    # handed it to the lazy join): the launcher does not touch it any more
    wv = RU.uncast(f, RU.arg(f, cre[0].node, 3))
    if R.require(wv is not None and wv["k"] == "var", "aws_thread_launch: the wrapper argument of pthread_create is not a variable"):
        wn = wv["n"]
        touched = []
        for e in RU.reach_from(f, cre[0]):
            uses = (e.kind == "access" and (f.show(e.node).startswith(wn + "->") or (e.node["k"] == "var" and e.node["n"] == wn and e.mode != "r"))) or \
                   (e.kind == "call" and any((RU.uncast(f, f.d(a)) or {}).get("k") == "var" and RU.uncast(f, f.d(a)).get("n") == wn for a in e.node.get("a", [])))
            if uses and e is not cre[0] and "running" in ts.before.get(e.pos, set()):
                touched.append("line %d: %s" % (e.line, f.show(e.node)[:60]))
        R.check(not touched, "LAUNCH", "wrapper-not-touched-after-successful-create", where(f, cre[0]), "after a successful pthread_create the launcher leaves the wrapper to the new thread",
                "the launcher uses the wrapper after pthread_create succeeded (%s): the new thread owns it from then on - a managed thread that already finished has copied / queued it for the lazy join, so the store is lost or lands in freed memory and the join uses a stale thread id" % "; ".join(touched[:3]))
    R.check(ev_dominates(f, inc[0], cre[0], dom) or True, "LAUNCH", "increment-before-create", where(f, inc[0]), "increment happens before pthread_create")
    # increment (when it happens) precedes create: create is not reachable before inc on the managed path
    reach = RU.reach_from(f, cre[0])
    R.check(inc[0] not in reach, "LAUNCH", "increment-not-after-create", where(f, inc[0]), "the count is incremented before the thread can run",
            "the count is incremented after pthread_create: a fast thread can decrement first (count underflow / join-all returns early)")


def ownership_and_init(R, P, th, allf):
    # ------------------------------------------------------------ WRAPPER-OWNS: the destroy function releases every owned field
    d = th["s_thread_wrapper_destroy"]
    owned = set()
    ALLOCS = {"aws_string_new_from_cursor", "aws_string_new_from_c_str", "aws_string_new_from_array", "aws_string_new_from_buf", "aws_string_new_from_string", "aws_mem_acquire", "aws_mem_calloc"}
    for g in th.values():
        for b in g.blocks.values():
            for el in b.elems:
                if el["k"] == "bin" and el["op"] == "=":
                    l = g.d(el["a"][0])
                    r = RU.uncast(g, el["a"][1])
                    if l is not None and l["k"] == "member" and l.get("rec") == "thread_wrapper" and r is not None and r["k"] == "call" and r.get("callee") in ALLOCS:
                        owned.add(l["f"])
    R.require("name" in owned, "thread_wrapper: owned fields not found (confirmed: name) - %s" % sorted(owned))
    relw = [e for e in d.calls("aws_mem_release") if argstr(d, e.node, 1, addr=False) == "wrapper"]
    R.require(len(relw) == 1, "s_thread_wrapper_destroy: release of the wrapper not found")
    for fld in sorted(owned):
        rel = [e for e in d.calls({"aws_string_destroy", "aws_string_destroy_secure", "aws_mem_release"}) if (argstr(d, e.node, len(e.node["a"]) - 1, addr=False) or "").endswith("wrapper->" + fld)]
        R.check(bool(rel) and relw and all(ev_dominates(d, x, relw[0]) for x in rel[:1]), "LAUNCH", "wrapper-destroy-releases:%s" % fld, "%s()" % d.name, "wrapper->%s is released before the wrapper itself" % fld,
                "s_thread_wrapper_destroy does not release wrapper->%s, which the wrapper owns (allocated in aws_thread_launch): a launch whose pthread_create fails leaks it" % fld)

    # ------------------------------------------------------------ INIT-ONCE: the bookkeeping is reset only by the first library init
    cm = {f.name: f for f in P.functions_in("source/common.c")}
    init = cm.get("aws_common_library_init")
    if R.require(init is not None, "aws_common_library_init not found (source/common.c not analysed)"):
        R.fn(init)
        n_calls = 0
        for nm, g in sorted(list(cm.items()) + list(allf.items())):
            for e in g.calls("aws_thread_initialize_thread_management"):
                n_calls += 1
                gs = [(g.show(RU.uncast(g, t[0])), t[1], t[2] is None) for t in [RU.cmp_norm(g, c_, p_) for c_, p_, b_ in RU.guards(g, e)] if t]
                R.check(nm == "aws_common_library_init" and ("s_common_library_initialized", "==", True) in gs, "HANDOFF", "init-once:%s" % nm, where(g, e),
                        "the pending-join list is (re)initialised only by the first aws_common_library_init",
                        "aws_thread_initialize_thread_management is called from %s without the `not yet initialised` guard (%s): a repeated library init empties the pending-join list, so a finished managed thread is never joined and join-all waits forever" % (nm, gs))
        R.require(n_calls == 1, "expected one call of aws_thread_initialize_thread_management, found %d" % n_calls)


MUTANTS = [
    {"name": "retry-starts-from-the-default-options", "file": "source/posix/thread.c", "expect": "LAUNCH", "old": "            struct aws_thread_options new_options = *options;\n            new_options.cpu_id = -1;", "new": "            struct aws_thread_options new_options = *aws_default_thread_options();\n            new_options.stack_size = options->stack_size;\n            new_options.name = options->name;"},
    {"name": "current-wrapper-not-thread-local", "file": "source/posix/thread.c", "expect": "THREAD-FN", "old": "static AWS_THREAD_LOCAL struct thread_wrapper *tl_wrapper = NULL;", "new": "static struct thread_wrapper *tl_wrapper = NULL;"},
    {"name": "launcher-writes-wrapper-after-create", "file": "source/posix/thread.c", "expect": "LAUNCH", "old": "    if (is_managed_thread) {\n        aws_thread_clean_up(thread);", "new": "    if (is_managed_thread) {\n        wrapper->thread_copy.thread_id = thread->thread_id;\n        aws_thread_clean_up(thread);"},
    {"name": "wrapper-destroy-forgets-name", "file": TH, "expect": "LAUNCH", "old": "    aws_string_destroy(wrapper->name);\n    aws_mem_release(wrapper->allocator, wrapper);", "new": "    aws_mem_release(wrapper->allocator, wrapper);"},
    {"name": "thread-management-reset-on-every-init", "file": "source/common.c", "expect": "HANDOFF", "old": "    (void)allocator;\n\n    if (!s_common_library_initialized) {", "new": "    (void)allocator;\n    aws_thread_initialize_thread_management();\n\n    if (!s_common_library_initialized) {"},
    {"name": "tl-wrapper-points-at-heap-copy", "file": TH, "expect": "THREAD-FN", "old": "    tl_wrapper = &wrapper;", "new": "    tl_wrapper = wrapper_ptr;"},
    {"name": "count-read-unlocked", "file": SH, "expect": "LOCK",
     "old": "    aws_mutex_lock(&s_managed_thread_lock);\n    thread_count = s_unjoined_thread_count;\n    aws_mutex_unlock(&s_managed_thread_lock);",
     "new": "    thread_count = s_unjoined_thread_count;"},
    {"name": "join-under-lock", "file": SH, "expect": "NOBLOCK",
     "old": "    aws_mutex_unlock(&s_managed_thread_lock);\n\n    /*\n     * Join against any finished threads.  This thread",
     "new": "    aws_thread_join_and_free_wrapper_list(&join_list);\n    aws_mutex_unlock(&s_managed_thread_lock);\n\n    /*\n     * Join against any finished threads.  This thread"},
    {"name": "push-before-swap", "file": SH, "expect": "HANDOFF",
     "old": "    aws_linked_list_swap_contents(&join_list, &s_pending_join_managed_threads);\n    aws_linked_list_push_back(&s_pending_join_managed_threads, node);",
     "new": "    aws_linked_list_push_back(&s_pending_join_managed_threads, node);\n    aws_linked_list_swap_contents(&join_list, &s_pending_join_managed_threads);"},
    {"name": "done-at-one", "file": SH, "expect": "HANDOFF", "old": "done = s_unjoined_thread_count == 0;", "new": "done = s_unjoined_thread_count <= 1;"},
    {"name": "iterator-advanced-late", "file": TH, "expect": "JOIN-LIST",
     "old": "        iter = aws_linked_list_next(iter);\n\n        join_thread_wrapper->thread_copy.detach_state",
     "new": "        join_thread_wrapper->thread_copy.detach_state"},
    {"name": "atexit-appends", "file": TH, "expect": "ATEXIT-LIFO", "old": "    cb->next = tl_wrapper->atexit;\n", "new": ""},
    {"name": "no-decrement-on-create-failure", "file": TH, "expect": "LAUNCH",
     "old": "        if (is_managed_thread) {\n            aws_thread_decrement_unjoined_count();\n        }\n        goto cleanup;", "new": "        goto cleanup;"},
    {"name": "atexit-node-read-after-release", "file": TH, "expect": "THREAD-FN",
     "old": "        wrapper.atexit = exit_callback_data->next;\n\n        aws_mem_release(allocator, exit_callback_data);",
     "new": "        aws_mem_release(allocator, exit_callback_data);\n        wrapper.atexit = exit_callback_data->next;"},
    {"name": "atexit-head-read-once", "file": TH, "expect": "THREAD-FN",
     "old": "    while (wrapper.atexit) {\n        struct thread_atexit_callback *exit_callback_data = wrapper.atexit;\n        aws_thread_atexit_fn *exit_callback = exit_callback_data->callback;\n        void *exit_callback_user_data = exit_callback_data->user_data;\n        wrapper.atexit = exit_callback_data->next;\n\n        aws_mem_release(allocator, exit_callback_data);\n\n        exit_callback(exit_callback_user_data);\n    }",
     "new": "    struct thread_atexit_callback *exit_callback_data = wrapper.atexit;\n    while (exit_callback_data) {\n        aws_thread_atexit_fn *exit_callback = exit_callback_data->callback;\n        void *exit_callback_user_data = exit_callback_data->user_data;\n        struct thread_atexit_callback *next_exit_callback_data = exit_callback_data->next;\n\n        aws_mem_release(allocator, exit_callback_data);\n\n        exit_callback(exit_callback_user_data);\n        exit_callback_data = next_exit_callback_data;\n    }"},
    {"name": "atexit-from-heap-wrapper", "file": TH, "expect": "THREAD-FN",
     "old": "struct thread_atexit_callback *exit_callback_data = wrapper.atexit;", "new": "struct thread_atexit_callback *exit_callback_data = wrapper_ptr->atexit;"},
]
