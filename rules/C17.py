"""C17 - memory tracer accounting (DESIGN.md section 4, C17)."""
from sa import rules as RU
from sa.cfg import Typestate, dominators, ev_dominates
from sa.rules import argstr, where

FILE = "source/memtrace.c"
REC = "alloc_tracer"

DECIDED = [
    "VTABLE: acquire/calloc call the wrapped allocator then track(result, requested size); release untracks before releasing; realloc is untrack(old) -> realloc -> track(new ptr, new size); each returns the wrapped allocator's pointer and forwards sizes unchanged",
    "TRACK/UNTRACK: the amount added to the byte counter is the value stored as the record's size; the amount subtracted is the found record's stored size, read before the record is destroyed, and the element is then removed; the record is keyed by the traced pointer",
    "LOCK: the allocation and stack tables are touched only under tracer->mutex (construction exempt; dump callbacks run under the dump's lock); every unlock is of a held mutex; no function returns holding it",
    "LEVEL: every access to counter/tables/mutex is guarded by level != NONE; bytes/count return 0 at level NONE",
    "TRACK/frames (NUM): frames_per_stack is stored within [1, 128] at the STACKS level; every copy of captured frames into a fresh stack record fits the frames_per_stack slots it was allocated with, for every count the capture can return (found D21, fixed); the frame buffer handed to aws_backtrace has the count asked for; the level stored is the clamped level; the allocation record is fully initialised",
    "DUMP: nothing reachable from aws_mem_tracer_dump tracks, untracks, changes the counter or mutates the tracer's tables; its foreach callbacks over the tracer's tables only continue",
]
NOT_DECIDED = ["numeric equality of the totals over histories; interleavings (only lock discipline and pairing are decided)"]
ASSUMPTIONS = ["aws_hash_table put/find/remove_element behave as a map (C02)", "aws_atomic_fetch_add/sub are atomic", "aws_backtrace returns at most the number of frames asked for"]

TABLE_MUT = {"aws_hash_table_put", "aws_hash_table_remove", "aws_hash_table_remove_element", "aws_hash_table_clear", "aws_hash_table_clean_up", "aws_hash_table_create",
             "aws_hash_iter_delete", "aws_hash_table_swap", "aws_hash_table_move"}


def tracer_field(f, node):
    n = RU.strip_addr(f, node)
    if n is not None and n["k"] == "var" and n["n"] in f.aliases():
        n = RU.strip_addr(f, f.aliases()[n["n"]])
    if n is not None and n["k"] == "member" and n.get("rec") == REC:
        return n["f"]
    return None


def excludes_none(f, g):
    """guard (lhs, op, rhs) on tracer->level that rules out AWS_MEMTRACE_NONE (0)"""
    if not g:
        return False
    l, op, r = g
    l = RU.uncast(f, l)
    if r is None:
        return l is not None and l["k"] == "member" and l["f"] == "level" and op == "!="
    r = RU.uncast(f, r)
    if l is not None and l["k"] == "member" and l["f"] == "level" or (l is not None and l["k"] == "var" and l["n"] == "level"):
        k = f.is_const(r)
    elif r is not None and r["k"] == "member" and r["f"] == "level":
        k = f.is_const(l)
        op = RU.FLIP[op]
    else:
        return False
    if k is None:
        return False
    return (op == "!=" and k == 0) or (op == "==" and k != 0) or (op == ">=" and k >= 1) or (op == ">" and k >= 0)


def analyse(ctx, replace=None, only=None):
    R = ctx.R
    P = ctx.program([FILE, "source/allocator.c"], "ship", replace=replace)
    fns = {f.name: f for f in P.functions_in("memtrace.c")}
    need = ["s_alloc_tracer_track", "s_alloc_tracer_untrack", "s_trace_mem_acquire", "s_trace_mem_release", "s_trace_mem_realloc", "s_trace_mem_calloc",
            "aws_mem_tracer_dump", "aws_mem_tracer_bytes", "aws_mem_tracer_count", "aws_mem_tracer_destroy", "s_alloc_tracer_init"]
    for n in need:
        if not R.require(n in fns, "anchor function %s not found" % n):
            return
    for f in fns.values():
        R.fn(f)
    vt = P.globals.get("s_trace_allocator", {}).get("init", {}).get("struct", {})
    exp = {"mem_acquire": "s_trace_mem_acquire", "mem_release": "s_trace_mem_release", "mem_realloc": "s_trace_mem_realloc", "mem_calloc": "s_trace_mem_calloc"}
    # (the same table filled in place: `trace_allocator->mem_acquire = s_trace_mem_acquire;` in the constructor)
    for g_ in fns.values():
        for e_ in g_.field_accesses(rec="aws_allocator", modes=("w",)):
            for b_ in g_.blocks.values():
                for el_ in b_.elems:
                    if el_["k"] == "bin" and el_["op"] == "=" and g_.d(el_["a"][0]) is e_.node:
                        r_ = RU.uncast(g_, el_["a"][1])
                        while r_ is not None and r_["k"] in ("decay", "cast", "un"):
                            r_ = g_.d(r_["a"][0])
                        if r_ is not None and r_["k"] == "fn" and e_.node["f"] not in vt:
                            vt = dict(vt)
                            vt[e_.node["f"]] = {"fn": r_.get("n")}
    for k, v in exp.items():
        R.check(vt.get(k, {}).get("fn") == v, "VTABLE", "slot:%s" % k, FILE, "vtable slot %s = %s" % (k, v), "vtable slot %s is %s" % (k, vt.get(k)))

    vtable(R, fns)
    track_untrack(R, fns)
    locks(R, fns)
    level(R, fns, P)
    dump(R, fns)
    dispatch(R, P)
    frames(R, fns)
    init_and_records(R, fns, P)
    frame_copies(R, P, fns)


def init_and_records(R, fns, P):
    """LEVEL/init: the level the tracer stores is the level after the `no backtrace support` clamp (no assignment to the
    local level can follow the store); TRACK/record: the per-allocation record is zero-initialised (calloc) or every one of
    its fields is assigned on every path - the dump reads `stack` at every level"""
    f = fns["s_alloc_tracer_init"]
    st = [e for e in f.field_accesses(rec="alloc_tracer", field="level", modes=("w",))]
    later = []
    for s in st:
        for e in RU.reach_from(f, s):
            if e.kind == "access" and e.mode in ("w", "rw") and e.node["k"] == "var" and e.node.get("n") == "level":
                later.append(e)
    R.check(len(st) >= 1 and not later, "LEVEL", "init:stores-the-clamped-level", where(f, st[0]) if st else f.name, "tracer->level is stored after the last adjustment of the requested level",
            "tracer->level is stored before the level is clamped for platforms without backtrace support (the clamp at line %s only changes the local): a STACKS request stays STACKS there and the first allocation aborts on the empty stack" % [e.line for e in later][:2])
    g = fns["s_alloc_tracer_track"]
    rec = P.records.get("alloc_info")
    allocs = [e for e in g.calls({"aws_mem_calloc", "aws_mem_acquire"}) if g.is_const(RU.arg(g, e.node, len(e.node.get("a", [])) - 1)) == (rec or {}).get("size")]
    if R.require(rec is not None and len(allocs) == 1, "s_alloc_tracer_track: record allocation not found"):
        zeroed = allocs[0].node["callee"] == "aws_mem_calloc"
        missing = []
        if not zeroed:
            for fd in rec["fields"]:
                ws = [e for e in g.field_accesses(rec="alloc_info", field=fd["n"], modes=("w",))] + [e for e in g.all_events() if e.kind == "call" and any("alloc->%s" % fd["n"] in g.show(a) and "&" in g.show(a) for a in e.node.get("a", []))]
                wp = {w.pos for w in ws}
                ts = Typestate(g, "pre", lambda e, s, wp=wp, ap=allocs[0].pos: 0 if e.pos == ap else (1 if e.pos in wp and s == 0 else s))
                if not ws or 0 in {s_ for s_ in ts.exit_states}:
                    missing.append(fd["n"])
        R.check(zeroed or not missing, "TRACK", "record-fully-initialised", where(g, allocs[0]), "the allocation record is calloc'ed" if zeroed else "every field of the record is assigned on every path",
                "the allocation record comes from %s and its field(s) %s are not assigned on every path: at the BYTES level `stack` is heap garbage, which aws_mem_tracer_dump then follows" % (allocs[0].node["callee"], missing))


def frame_copies(R, P, fns):
    """TRACK/frames: the captured frames copied into a fresh stack record fit the room the record was allocated with
    (sizeof(struct stack_trace) + frames_per_stack pointers), for every configured frames_per_stack and every number of
    frames the capture can return (NUM).  frames_per_stack is in [1, 128] at the STACKS level: decided at the initialiser."""
    from sa.num import Num, Poly, Limit, entails
    from sa.awslib import AwsHooks, in_bounds
    from sa.bounds import access_sites, addr_size
    ini = fns["s_alloc_tracer_init"]
    num0 = Num(ini, P, AwsHooks(), max_paths=4000)
    lo_ok, n0 = True, 0
    try:
        ex = num0.states_at({-1})
    except Limit as exn:
        R.broken(str(exn))
        return
    stores = ini.field_accesses(rec="alloc_tracer", field="frames_per_stack", modes=("w",))
    for st in ex.get(-1, []):
        v = [x for k, x in st.env.items() if k.endswith("->frames_per_stack")]
        lv = [x for k, x in st.env.items() if k.endswith("->level")]
        stacks = P.enums.get("AWS_MEMTRACE_STACKS")
        if not v:
            # the field is not stored on this path: then this is not the STACKS level (where it is the only level used)
            if not lv or stacks is None or num0.assume_cmp("==", lv[0], Poly.const(stacks), st.copy()):
                lo_ok = False
            continue
        n0 += 1
        if len(v) != 1 or not (entails(st, Poly.const(1) - v[0]) and entails(st, v[0] - 128)):
            lo_ok = False
    R.check(lo_ok and n0 >= 1 and len(stores) >= 1, "TRACK", "init:frames-per-stack-in-1..128", where(ini, stores[0]) if stores else ini.name, "at the STACKS level frames_per_stack is stored within [1, 128] (%d exit states)" % n0,
            "s_alloc_tracer_init can leave frames_per_stack outside [1, 128] at the STACKS level")
    f = fns["s_alloc_tracer_track"]

    class H(AwsHooks):
        def entry(self, num, st):
            for b in num.fn.blocks.values():
                for el in b.elems:
                    for n in num.fn.walk(el, follow_refs=True):
                        if n["k"] == "member" and n["f"] == "frames_per_stack":
                            p = num.field(st, num.key(n, st), "alloc_tracer", "frames_per_stack")
                            st.add(Poly.const(1) - p)
                            st.add(p - 128)
                            return

        def flex_extent(self, num, st, key, rec, fld, t):
            if rec == "stack_trace" and fld == "frames":
                off = [x["off"] for x in (P.records.get("stack_trace") or {}).get("fields", []) if x["n"] == "frames"]
                for a, ext in st.extent.items():
                    if key == "(%r)->frames" % Poly.atom(a) and off:
                        return ext - off[0]
            return None

        def call(self, num, st, e, args):
            if (e.get("callee") or "") == "aws_backtrace":
                a = num.fresh(st, "depth", None, (0, 2 ** 31))  # ASSUMED: returns at most the number of frames asked for
                if args[1] is not None:
                    st.add(Poly.atom(a) - args[1])
                return Poly.atom(a)
            return AwsHooks.call(self, num, st, e, args)

    num = Num(f, P, H(), max_paths=6000)
    sites = [s for s in access_sites(f) if s[1] == "mem"]
    try:
        sts = num.states_at({s[0] for s in sites})
    except Limit as exn:
        R.broken(str(exn))
        return
    n = 0
    for eid, kind, nd in sites:
        ok, det, cnt = True, "", 0
        for st in sts.get(eid, []):
            s2 = st.copy()
            for (D, sz, mode) in addr_size(num, s2, kind, nd):
                if mode != "w":
                    continue
                cnt += 1
                r = in_bounds(s2, D, sz)
                if r[0] != "ok":
                    ok, det = False, r[1]
        if cnt:
            n += 1
            R.check(ok, "TRACK", "frames-copied-fit-the-record:line%d" % nd.get("loc", [0])[0], where(f, nd), "the frames copied into the new stack record fit its frames_per_stack slots (%d states)" % cnt,
                    "s_alloc_tracer_track copies more frames into a new stack record than it was allocated for (%s): with frames_per_stack = 1 and a capture that yields only the tracer's own 2 frames the copy runs 8 bytes past the heap block" % det)
    R.require(n >= 1, "s_alloc_tracer_track: no copy into a stack record analysed (confirmed by reading: 2, or 1 shared by both branches)")


def dispatch(R, P):
    """VTABLE/dispatch: the tracer sees every request made through the public entry points: aws_mem_realloc reaches the
    allocator's own mem_realloc (when it has one) for every request except the documented `new size 0 = release`; no
    size-based shortcut is taken before the dispatch (a shrinking realloc changes the traced size)."""
    f = P.fn("aws_mem_realloc")
    if not R.require(f is not None, "aws_mem_realloc not found (source/allocator.c not analysed)"):
        return
    R.fn(f)
    dom = dominators(f)
    tests = [b.id for b in f.blocks.values() if b.cond is not None and any(x["k"] == "member" and x["f"] == "mem_realloc" for x in f.walk(f.d(b.cond), follow_refs=True)) and not any(x["k"] == "member" and x["f"] == "mem_acquire" for x in f.walk(f.d(b.cond), follow_refs=True))]
    calls = [e for e in f.indirect_calls() if RU.indirect_via(f, e.node) == ("aws_allocator", "mem_realloc")]
    if not R.require(len(tests) >= 1 and len(calls) == 1, "aws_mem_realloc: dispatch test / call not found"):
        return
    T = max([t for t in tests if t in dom.get(calls[0].blk, ())], key=lambda t: len(dom.get(t, ())))  # the innermost test before the call
    bad = []
    for r_ in f.returns():
        if T in dom.get(r_.blk, ()):
            continue
        gs = [RU.cmp_norm(f, c_, p_) for c_, p_, b_ in RU.guards(f, r_, dom)]
        txt = [(f.show(RU.uncast(f, g[0])), g[1], f.show(g[2]) if g[2] is not None else None) for g in gs if g]
        okr = any(g and g[1] == "==" and f.show(RU.uncast(f, g[0])) == "newsize" and (g[2] is None or f.is_const(g[2]) == 0) for g in gs) and not any("oldsize" in (a or "") or "oldsize" in (b or "") or "ptr" in (a or "") for a, op, b in txt)
        if not okr:
            bad.append("line %d under %s" % (r_.node["loc"][0], [(f.show(RU.uncast(f, g[0])), g[1]) for g in gs if g]))
    R.check(not bad, "VTABLE", "aws_mem_realloc:every-request-reaches-the-allocator", where(f, calls[0]), "the only return before the mem_realloc dispatch is the `newsize == 0` release",
            "aws_mem_realloc returns before dispatching to the allocator's mem_realloc (%s): a tracing allocator is not told about that request, so its byte total keeps the old size" % "; ".join(bad))


def frames(R, fns):
    """TRACK/frames: the buffer handed to aws_backtrace has room for the number of frames asked for"""
    import re
    n = 0
    for name, f in sorted(fns.items()):
        for e in f.calls("aws_backtrace"):
            buf = RU.uncast(f, RU.arg(f, e.node, 0))
            while buf is not None and buf["k"] in ("decay", "cast"):
                buf = f.d(buf["a"][0])
            cnt = RU.arg(f, e.node, 1)
            if buf is None or buf["k"] != "var":
                continue
            n += 1
            t = f.unit.types[buf["t"]]
            want = f.show(RU.uncast(f, cnt)).replace(" ", "").strip("()")
            if t.get("arr") is not None:
                cv = f.is_const(cnt)
                ok, det = cv is not None and cv <= t["arr"], "a fixed array of %s entries for a count of %s" % (t["arr"], f.show(cnt))
            else:
                m = re.search(r"\[(.*)\]$", t.get("s", ""))
                have = m.group(1).replace(" ", "").strip("()") if m else None
                ok, det = have == want, "an array of [%s] entries for a count of %s" % (have, want)
            R.check(ok, "TRACK", "%s:backtrace-buffer-holds-the-frames-asked-for" % name, where(f, e), "the frame buffer is declared with the very count passed to aws_backtrace",
                    "aws_backtrace is given %s: with the largest frames_per_stack the capture writes return addresses past the array" % det)
    R.require(n >= 1, "no aws_backtrace call with a local buffer found in memtrace.c")


def single(R, f, callee, what):
    c = f.calls(callee)
    R.require(len(c) == 1, "%s: expected exactly one %s (found %d)" % (f.name, what, len(c)))
    return c[0] if len(c) == 1 else None


def once_on_all_paths(f, ev, allow_zero_when=None):
    def tr(e, s):
        if e is ev:
            return min(s + 1, 2)
        return s
    return Typestate(f, 0, tr).exit_states


def vtable(R, fns):
    # acquire / calloc
    for name, under, size_expr in (("s_trace_mem_acquire", "aws_mem_acquire", "size"), ("s_trace_mem_calloc", "aws_mem_calloc", "(num * size)")):
        f = fns[name]
        dom = dominators(f)
        us = f.calls(under)
        others = [e for e in f.all_events() if e.kind == "call" and e not in us and ((e.node.get("callee") or "") in ("aws_mem_acquire", "aws_mem_calloc", "aws_mem_realloc", "malloc", "calloc") or (e.node.get("callee") is None and (RU.indirect_via(f, e.node) or ("", ""))[1] in ("mem_acquire", "mem_calloc", "mem_realloc")))]
        R.check(len(us) == 1 and not others, "VTABLE", "%s:allocates-through-%s" % (name, under), where(f, (us or others or [None])[0]) if (us or others) else name, "the memory comes from %s on the wrapped allocator and nothing else" % under,
                "%s obtains memory other than through one %s call (%s): the zeroing / overflow handling that function provides for allocators without the optional entry is lost" % (name, under, [f.show(e.node)[:50] for e in others]))
        u = us[0] if len(us) == 1 else None
        t = single(R, f, "s_alloc_tracer_track", "track call")
        if not (u and t):
            continue
        R.check(argstr(f, u.node, 0, addr=False).endswith("traced_allocator"), "VTABLE", "%s:wraps-traced-allocator" % name, where(f, u), "memory comes from the wrapped allocator")
        fw = [argstr(f, u.node, i, addr=False) for i in range(1, len(u.node["a"]))]
        R.check(fw == [p["n"] for p in f.params[1:]], "VTABLE", "%s:sizes-forwarded" % name, where(f, u), "request forwarded unchanged %s" % fw, "the request is not forwarded unchanged: %s" % fw)
        R.check(ev_dominates(f, u, t, dom), "VTABLE", "%s:alloc-then-track" % name, where(f, t), "track after the allocation")
        pv = RU.arg(f, t.node, 1)
        res_ok = False
        if pv is not None and pv["k"] == "var":
            init = f.aliases().get(pv["n"])
            res_ok = init is not None and f.d(init) is u.node or any(e.kind == "decl" and any(v["n"] == pv["n"] and v.get("init") and f.d(v["init"]) is u.node for v in e.node["vars"]) for e in f.all_events())
        R.check(res_ok, "VTABLE", "%s:tracks-returned-pointer" % name, where(f, t), "the pointer tracked is the one the wrapped allocator returned")
        sz = f.show(RU.arg(f, t.node, 2), alias=True)
        R.check(sz == size_expr, "VTABLE", "%s:tracks-requested-size" % name, where(f, t), "tracked size is %s" % size_expr, "tracked size is %s, expected %s" % (sz, size_expr))
        for r in f.returns():
            rv = f.show(r.node["a"][0]) if r.node["a"] else None
            okr = pv is not None and rv == pv["n"]
            if not okr and pv is not None and r.node["a"] and f.is_const(RU.uncast(f, r.node["a"][0])) == 0:
                # `return NULL` on the branch where the wrapped allocator's pointer is NULL: the same value
                gr = [RU.cmp_norm(f, c_, p_) for c_, p_, b_ in RU.guards(f, r)]
                okr = any(g_ and g_[2] is None and g_[1] == "==" and f.show(RU.uncast(f, g_[0])) == pv["n"] for g_ in gr)
            R.check(okr, "VTABLE", "%s:returns-wrapped-pointer" % name, where(f, r), "returns the wrapped allocator's pointer")
        # tracked whenever non-NULL: the only guard on track is the pointer test (a test whose other branch aborts - an
        # assertion - does not skip anything)
        def aborts(b_, pol_):
            from sa.cfg import edges as _e
            for s_, c_, p_ in _e(f, b_):
                if p_ is (not pol_):
                    blk = f.blocks[s_]
                    return blk.noreturn or any(el["k"] == "call" and (el.get("callee") or "") in ("aws_fatal_assert", "abort") for el in blk.elems)
            return False
        gs = [RU.cmp_norm(f, c, p) for c, p, b in RU.guards(f, t) if not aborts(b, p)]
        okg = all(g and g[2] is None and g[1] == "!=" and f.show(g[0]) == (pv or {}).get("n") for g in gs)
        R.check(okg, "VTABLE", "%s:tracked-on-every-success" % name, where(f, t), "every successful allocation is tracked", "tracking is skipped under an extra condition: %s" % [f.show(c) for c, p, b in RU.guards(f, t)])
    # release
    f = fns["s_trace_mem_release"]
    dom = dominators(f)
    u = single(R, f, "aws_mem_release", "release on the wrapped allocator")
    t = single(R, f, "s_alloc_tracer_untrack", "untrack call")
    if u and t:
        R.check(ev_dominates(f, t, u, dom), "VTABLE", "release:untrack-before-release", where(f, u), "untrack happens before the block is returned (its address cannot be reused in between)",
                "the block is released before it is untracked: another thread can be handed the same address and its record is then removed instead")
        R.check(argstr(f, t.node, 1, addr=False) == "ptr" and argstr(f, u.node, 1, addr=False) == "ptr", "VTABLE", "release:same-pointer", where(f, t), "untrack and release the caller's pointer")
        R.check(once_on_all_paths(f, t) == {1} and once_on_all_paths(f, u) == {1}, "VTABLE", "release:exactly-once", "%s()" % f.name, "untrack and release exactly once on every path")
    # realloc
    f = fns["s_trace_mem_realloc"]
    dom = dominators(f)
    un = single(R, f, "s_alloc_tracer_untrack", "untrack")
    res = f.calls("aws_mem_realloc")
    R.require(len(res) >= 1, "s_trace_mem_realloc: no realloc on the wrapped allocator")
    # every wrapped realloc (the booked one, and any fast path next to it) forwards the sizes and is followed only by
    # returns of the very pointer variable it updated
    for c in res:
        newp_c = argstr(f, c.node, 1)
        after = RU.reach_from(f, c)
        for r in f.returns():
            if r in after:
                R.check(bool(r.node["a"]) and f.show(r.node["a"][0]) == newp_c, "VTABLE", "realloc:returns-new-pointer", where(f, r), "returns the reallocated pointer",
                        "after aws_mem_realloc(.., &%s, ..) the function returns %s: the caller gets the old, possibly released, block" % (newp_c, f.show(r.node["a"][0]) if r.node["a"] else None))
        R.check([argstr(f, c.node, i, addr=False) for i in (2, 3)] == ["old_size", "new_size"], "VTABLE", "realloc:sizes-forwarded", where(f, c), "sizes forwarded unchanged")
    none_ = 0  # AWS_MEMTRACE_NONE

    def off_only(c):
        """reached only with tracing off (tracer->level == AWS_MEMTRACE_NONE): track / untrack do nothing there"""
        for c_, p_, b_ in RU.guards(f, c, dom):
            g = RU.cmp_norm(f, c_, p_)
            if g and g[1] == "==" and (g[2] is None or f.is_const(RU.uncast(f, g[2])) == none_):
                l_ = RU.uncast(f, g[0])
                if l_ is not None and l_["k"] == "member" and l_["f"] == "level":
                    return True
        return False
    fast = [c for c in res if off_only(c)]
    booked = [c for c in res if c not in fast and un and ev_dominates(f, un, c, dom)]
    re_ = res[0] if len(res) == 1 else None
    if len(res) > 1:
        R.check(len(booked) + len(fast) == len(res) and len(booked) == 1, "VTABLE", "realloc:untrack-realloc-track", where(f, res[0]), "every wrapped realloc with tracing on is preceded by untrack(old)",
                "a realloc on the wrapped allocator is not preceded by untrack(old): the record of the old address outlives the block")
        re_ = booked[0] if booked else None
    tr = single(R, f, "s_alloc_tracer_track", "track")
    if un and re_ and tr:
        R.check(ev_dominates(f, un, re_, dom) and ev_dominates(f, re_, tr, dom), "VTABLE", "realloc:untrack-realloc-track", where(f, re_),
                "untrack(old) precedes the realloc, track(new) follows it", "realloc bookkeeping is not ordered untrack -> realloc -> track: the old address can be reused by another thread while its record still exists")
        for ev in (un, re_, tr):
            R.check(once_on_all_paths(f, ev) == {1} or (bool(fast) and once_on_all_paths(f, ev) <= {0, 1}), "VTABLE", "realloc:%s-exactly-once" % ev.node["callee"], where(f, ev), "executed exactly once on every path",
                    "%s is skipped or repeated on some path" % ev.node["callee"])
        R.check(argstr(f, un.node, 1, addr=False) == "old_ptr", "VTABLE", "realloc:untracks-old", where(f, un), "old pointer untracked")
        newp = argstr(f, re_.node, 1)
        R.check(argstr(f, tr.node, 1, addr=False, alias=False) == newp and argstr(f, tr.node, 2, addr=False) == "new_size", "VTABLE", "realloc:tracks-new", where(f, tr),
                "track(%s, new_size)" % newp, "track is given (%s, %s)" % (argstr(f, tr.node, 1, addr=False), argstr(f, tr.node, 2, addr=False)))


def assignment_of(f, ev):
    for b in f.blocks.values():
        for el in b.elems:
            for n in f.walk(el):
                if n["k"] == "bin" and n["op"] == "=" and f.d(n["a"][0]) is ev.node:
                    return n
    return None


def track_untrack(R, fns):
    f = fns["s_alloc_tracer_track"]
    dom = dominators(f)
    add = single(R, f, {"aws_atomic_fetch_add", "aws_atomic_fetch_add_explicit"}, "counter increment")
    put = single(R, f, "aws_hash_table_put", "record insertion")
    st = [e for e in f.field_accesses(rec="alloc_info", field="size", modes=("w",))]
    R.require(len(st) == 1, "track: store to alloc->size not found")
    if add and put and st:
        a = assignment_of(f, st[0])
        stored = f.show(a["a"][1], alias=True) if a else None
        R.check(tracer_field(f, RU.arg(f, add.node, 0)) == "allocated" and f.show(RU.arg(f, add.node, 1), alias=True) == stored == "size", "TRACK", "added==stored==requested", where(f, add),
                "counter += size and record.size = size (the same parameter)", "the amount added (%s) differs from the size stored in the record (%s)" % (f.show(RU.arg(f, add.node, 1)), stored))
        R.check(tracer_field(f, RU.arg(f, put.node, 0)) == "allocs" and argstr(f, put.node, 1, addr=False) == "ptr", "TRACK", "record-keyed-by-pointer", where(f, put), "allocs[ptr] = record")
        rec = RU.arg(f, put.node, 2)
        R.check(rec is not None and f.show(rec, alias=True) == f.show(st[0].node["a"][0], alias=True), "TRACK", "record-inserted-is-record-filled", where(f, put), "the record inserted is the one whose size was set")
        R.check(once_on_all_paths(f, add) <= {0, 1} and once_on_all_paths(f, put) <= {0, 1}, "TRACK", "at-most-once", "%s()" % f.name, "no path adds or inserts twice")
        # add and put happen together: every path that adds also inserts
        okf, _ = RU.must_follow(f, lambda e: e is add, lambda e: e is put)
        R.check(okf, "TRACK", "add-implies-insert", where(f, add), "every path that bumps the counter inserts the record", "a path bumps the byte counter without inserting the record (bytes never come back down)")
        R.check(ev_dominates(f, add, put, dom) or ev_dominates(f, put, add, dom), "TRACK", "insert-implies-add", where(f, put), "every path that inserts also bumps the counter")
    f = fns["s_alloc_tracer_untrack"]
    dom = dominators(f)
    take = [e for e in f.calls("aws_hash_table_remove") if len(e.node["a"]) >= 3 and f.is_const(RU.uncast(f, RU.arg(f, e.node, 2))) is None]
    if not f.calls("aws_hash_table_find") and len(take) == 1:
        return untrack_by_take(R, f, dom, take[0])
    find = single(R, f, "aws_hash_table_find", "lookup")
    sub = single(R, f, {"aws_atomic_fetch_sub", "aws_atomic_fetch_sub_explicit"}, "counter decrement")
    rems = f.calls({"aws_hash_table_remove_element", "aws_hash_table_remove"})
    R.check(len(rems) == 1, "UNTRACK", "removes-record", "%s()" % f.name, "the found record is removed from the table",
            "untrack does not remove the record (found %d removals): the count stays high and the size is subtracted again later" % len(rems))
    rem = rems[0] if len(rems) == 1 else None
    if find and sub and rem:
        R.check(tracer_field(f, RU.arg(f, find.node, 0)) == "allocs" and argstr(f, find.node, 1, addr=False) == "ptr", "UNTRACK", "looks-up-pointer", where(f, find), "allocs[ptr] looked up")
        item = argstr(f, find.node, 2)
        amt = RU.resolve(f, RU.arg(f, sub.node, 1))
        ok_amt = amt is not None and amt["k"] == "member" and amt["f"] == "size" and amt.get("rec") == "alloc_info"
        src = f.show(amt["a"][0], alias=True) if ok_amt else None
        R.check(ok_amt and src == item + "->value" and tracer_field(f, RU.arg(f, sub.node, 0)) == "allocated", "UNTRACK", "subtracts-stored-size", where(f, sub),
                "counter -= (found record)->size", "the amount subtracted (%s) is not the stored size of the record found for ptr" % f.show(amt))
        R.check(ev_dominates(f, find, sub, dom) and ev_dominates(f, sub, rem, dom), "UNTRACK", "find-sub-remove", where(f, rem), "lookup, subtract, then remove")
        R.check(argstr(f, rem.node, 1, addr=False) in (item, "ptr") and tracer_field(f, RU.arg(f, rem.node, 0)) == "allocs", "UNTRACK", "removes-found-element", where(f, rem), "the found element is removed")
        okf, _ = RU.must_follow(f, lambda e: e is sub, lambda e: e is rem)
        R.check(okf, "UNTRACK", "sub-implies-remove", where(f, sub), "every path that subtracts removes the record", "a path subtracts the size but leaves the record in the table (count stays high, double subtraction later)")
        # stored size read before the record is destroyed
        for d in f.calls({"s_destroy_alloc", "aws_mem_release"}):
            R.check(ev_dominates(f, sub, d, dom), "UNTRACK", "size-read-before-destroy", where(f, d), "record destroyed after its size was read", "the record is destroyed before its size is read (use after free)")
            # no use of the alias after destroy
            for v in [x for x in f.aliases() if f.show(f.aliases()[x], alias=True) == item + "->value"]:
                later = RU.dead_after(f, d, v)
                R.check(not later, "UNTRACK", "record-dead-after-destroy", where(f, d), "record not used after destroy", "record used after destroy at %s" % [x.line for x in later][:3])


def untrack_by_take(R, f, dom, rem):
    """UNTRACK, the other way to write it: aws_hash_table_remove(&allocs, ptr, &element, &was_present) looks the record up and
    takes it out of the table in one step, handing the element over (an out-parameter is passed, so the table does not run
    its value destructor); the size subtracted is the taken record's, read before the record is destroyed"""
    sub = single(R, f, {"aws_atomic_fetch_sub", "aws_atomic_fetch_sub_explicit"}, "counter decrement")
    R.check(True, "UNTRACK", "removes-record", "%s()" % f.name, "the record is taken out of the table (aws_hash_table_remove with an out-element)")
    if not sub:
        return
    R.check(tracer_field(f, RU.arg(f, rem.node, 0)) == "allocs" and argstr(f, rem.node, 1, addr=False) == "ptr", "UNTRACK", "looks-up-pointer", where(f, rem), "allocs[ptr] looked up and taken out")
    item = argstr(f, rem.node, 2)
    amt = RU.resolve(f, RU.arg(f, sub.node, 1))
    ok_amt = amt is not None and amt["k"] == "member" and amt["f"] == "size" and amt.get("rec") == "alloc_info"
    src = f.show(amt["a"][0], alias=True) if ok_amt else None
    R.check(ok_amt and src in (item + ".value", item + "->value") and tracer_field(f, RU.arg(f, sub.node, 0)) == "allocated", "UNTRACK", "subtracts-stored-size", where(f, sub),
            "counter -= (taken record)->size", "the amount subtracted (%s) is not the stored size of the record found for ptr" % f.show(amt))
    R.check(ev_dominates(f, rem, sub, dom), "UNTRACK", "find-sub-remove", where(f, rem), "the record is taken out, then its size subtracted")
    R.check(True, "UNTRACK", "removes-found-element", where(f, rem), "the element found is the element removed (one call)")
    # the subtraction happens exactly when something was taken: guarded by the was-present flag (or the element's value) only
    flag = argstr(f, rem.node, 3) if len(rem.node["a"]) >= 4 else None
    gs = [RU.cmp_norm(f, c_, p_) for c_, p_, b_ in RU.guards(f, sub, dom)]
    gs = [g for g in gs if g and not (RU.uncast(f, g[0]) or {}).get("k") == "call"]
    okg = any(g[1] == "!=" and (g[2] is None or f.is_const(g[2]) == 0) and f.show(RU.uncast(f, g[0]), alias=True) in (flag, item + ".value", item + ".key") for g in gs)
    R.check(okg, "UNTRACK", "sub-implies-remove", where(f, sub), "the size is subtracted exactly when a record was taken out", "the subtraction does not depend on a record having been taken out of the table (guards %s)" % [f.show(g[0]) for g in gs])
    for d in f.calls({"s_destroy_alloc", "aws_mem_release"}):
        R.check(ev_dominates(f, sub, d, dom), "UNTRACK", "size-read-before-destroy", where(f, d), "record destroyed after its size was read", "the record is destroyed before its size is read (use after free)")
        for v in [x for x in f.aliases() if f.show(f.aliases()[x], alias=True) in (item + ".value", item + "->value")]:
            later = RU.dead_after(f, d, v)
            R.check(not later, "UNTRACK", "record-dead-after-destroy", where(f, d), "record not used after destroy", "record used after destroy at %s" % [x.line for x in later][:3])


def locks(R, fns):
    requires = {"s_collect_stack_trace", "s_collect_stack_stats", "s_insert_allocs", "s_insert_stacks"} & set(fns)
    entry, sites, problems = RU.entry_locksets(fns, requires)
    n = 0
    for name, f in sorted(fns.items()):
        ts = RU.lockset(f, init=entry.get(name, frozenset()))
        for e in f.field_accesses(rec=REC, field=("allocs", "stacks")):
            n += 1
            inst = "%s:%s" % (name, e.node["f"])
            if name == "s_alloc_tracer_init":
                R.ok("LOCK", inst, where(f, e), "construction: tracer not yet published")
                continue
            base = f.show(e.node["a"][0], alias=True)
            want = base + "->mutex"
            # taking the table's ADDRESS into a local is not a use of the table: the obligation moves to the uses of that local
            holder = [v_ for v_, init_ in f.aliases().items() if init_ is not None and RU.strip_addr(f, init_) is e.node]
            if holder:
                uses = [c_ for c_ in f.all_events() if c_.kind == "call" and any(RU.uses_var(f, a_, holder[0]) for a_ in c_.node.get("a", []))]
                okh = bool(uses)
                for c_ in uses:
                    h_ = RU.held_at(ts, c_)
                    okh = okh and h_ is not None and want in h_
                R.check(okh, "LOCK", inst, where(f, e), "%s held at every use of the local `%s` that points to the table" % (want, holder[0]),
                        "tracer->%s is reached through the local `%s` without holding %s" % (e.node["f"], holder[0], want))
                continue
            held = RU.held_at(ts, e)
            R.check(held is not None and want in held, "LOCK", inst, where(f, e), "%s held%s" % (want, (" via " + str(sites.get(name))) if name in requires else ""),
                    "tracer->%s touched without holding %s (held on all paths: %s)" % (e.node["f"], want, sorted(held or [])))
        for e in f.calls("aws_mutex_unlock"):
            m = argstr(f, e.node, 0)
            held = RU.held_at(ts, e)
            R.check(held is not None and m in held, "LOCK", "unlock-held:%s" % name, where(f, e), "unlock of a mutex held on every path",
                    "aws_mutex_unlock(%s) on a path that does not hold it" % m)
        leaked = set()
        for s in ts.exit_states:
            leaked |= set(s) - set(entry.get(name, ()))
        if f.calls("aws_mutex_lock"):
            R.check(not leaked, "LOCK", "no-lock-at-exit:%s" % name, "%s()" % name, "returns with the mutex released", "returns while holding %s: every later tracer call blocks forever" % sorted(leaked))
    R.require(n >= 8, "only %d table accesses found" % n)


def level(R, fns, P=None):
    n = 0
    requires = {"s_collect_stack_trace"}
    for name, f in sorted(fns.items()):
        if name in requires:
            continue
        for e in f.field_accesses(rec=REC, field=("allocated", "allocs", "stacks", "mutex")):
            n += 1
            gs = [RU.cmp_norm(f, c, p) for c, p, b in RU.guards(f, e)]
            R.check(any(excludes_none(f, g) for g in gs), "LEVEL", "%s:%s" % (name, e.node["f"]), where(f, e), "guarded by level != NONE",
                    "tracer->%s is touched at tracing level NONE (it is never initialised there)" % e.node["f"])
    from sa.num import Num, Poly, Limit, entails
    from sa.awslib import AwsHooks
    none = P.enums.get("AWS_MEMTRACE_NONE", 0) if P is not None else 0
    for name in ("aws_mem_tracer_bytes", "aws_mem_tracer_count"):
        f = fns[name]
        # decided on the return states (NUM): whatever the shape - early return, single exit with a zero-initialised
        # result - every state in which the level can be NONE returns 0
        num = Num(f, P, AwsHooks(), max_paths=2000)
        rets = [x for b in f.blocks.values() for x in b.elems if x["k"] == "ret"]
        try:
            sts = num.states_at({r["id"] for r in rets})
        except Limit as ex:
            R.broken(str(ex))
            continue
        nst, bad = 0, None
        for r in rets:
            for st in sts.get(r["id"], []):
                lv = [x for k, x in st.env.items() if k.endswith("->level")]
                subs = [st] if not lv else num.assume_cmp("==", lv[0], Poly.const(none), st.copy())
                for s2 in subs:
                    nst += 1
                    rv = num.val(r["a"][0], s2) if r.get("a") else None
                    if rv is None or not (entails(s2, rv) and entails(s2, -rv)):
                        bad = "line %d returns %r" % (r["loc"][0], rv)
        R.check(nst >= 1 and bad is None, "LEVEL", "%s:zero-when-off" % name, "%s()" % name, "returns 0 at level NONE (%d return states in which the level can be NONE)" % nst,
                "%s can return a non-zero value at level NONE (%s): the tables it reads are never initialised there" % (name, bad))
    R.require(n >= 12, "only %d guarded tracer field accesses found" % n)


def dump(R, fns):
    d = fns["aws_mem_tracer_dump"]
    reach = {d.name}
    work = [d]
    foreach_cbs = []
    while work:
        f = work.pop()
        for e in f.calls():
            c = e.node.get("callee")
            if c in fns and c not in reach:
                reach.add(c)
                work.append(fns[c])
            for i, a in enumerate(e.node["a"]):
                x = f.d(a)
                if x is not None and x["k"] == "fn" and x["n"] in fns:
                    if c == "aws_hash_table_foreach" and tracer_field(f, RU.arg(f, e.node, 0)) in ("allocs", "stacks"):
                        foreach_cbs.append(x["n"])
                    if x["n"] not in reach:
                        reach.add(x["n"])
                        work.append(fns[x["n"]])
    R.require(len(reach) >= 5, "dump: expected to reach its callbacks")
    for name in sorted(reach):
        f = fns[name]
        bad = []
        for e in f.calls():
            c = e.node.get("callee")
            if c in ("s_alloc_tracer_track", "s_alloc_tracer_untrack"):
                bad.append((e, c))
            if c and (c.startswith("aws_atomic_fetch_") or c.startswith("aws_atomic_store") or c.startswith("aws_atomic_exchange") or c.startswith("aws_atomic_compare")) and tracer_field(f, RU.arg(f, e.node, 0)) == "allocated":
                bad.append((e, c))
            if c in TABLE_MUT and tracer_field(f, RU.arg(f, e.node, 0)) in ("allocs", "stacks"):
                bad.append((e, c))
        R.check(not bad, "DUMP", "effect-free:%s" % name, "%s()" % name, "no tracking, counter change or mutation of the tracer's tables",
                "reachable from the dump: %s" % [(c, f.loc(e.node)) for e, c in bad])
    for cb in sorted(set(foreach_cbs)):
        f = fns[cb]
        for r in f.returns():
            v = RU.uncast(f, r.node["a"][0]) if r.node["a"] else None
            R.check(v is not None and f.is_const(v) == 1, "DUMP", "callback-continues:%s" % cb, where(f, r), "iteration callback over the tracer's table returns CONTINUE only",
                    "a dump callback over the tracer's table returns %s (DELETE/ERROR would change or cut the accounting)" % (f.show(v) if v else None))


MUTANTS = [
    {"name": "short-capture-copied-whole", "file": FILE, "expect": "TRACK", "old": "memcpy((void **)&stack->frames[0], &stack_frames[0], kept_depth * sizeof(void *));", "new": "memcpy((void **)&stack->frames[0], &stack_frames[0], stack_depth * sizeof(void *));"},
    {"name": "frames-per-stack-zero-kept", "file": FILE, "expect": "TRACK", "old": "tracer->frames_per_stack = frames_per_stack ? frames_per_stack : 8;", "new": "tracer->frames_per_stack = frames_per_stack;"},
    {"name": "level-stored-before-the-clamp", "file": FILE, "expect": "LEVEL", "old": "    void *stack[1];\n    if (!aws_backtrace(stack, 1)) {", "new": "    tracer->level = level;\n    void *stack[1];\n    if (!aws_backtrace(stack, 1)) {",
     "old2": "    tracer->traced_allocator = traced_allocator;\n    tracer->level = level;\n", "new2": "    tracer->traced_allocator = traced_allocator;\n"},
    {"name": "record-not-zeroed", "file": FILE, "expect": "TRACK", "old": "    struct alloc_info *alloc = aws_mem_calloc(aws_default_allocator(), 1, sizeof(struct alloc_info));", "new": "    struct alloc_info *alloc = aws_mem_acquire(aws_default_allocator(), sizeof(struct alloc_info));"},
    {"name": "realloc-shrink-shortcut-before-dispatch", "file": "source/allocator.c", "expect": "VTABLE", "old": "    if (allocator->mem_realloc) {\n        void *newptr = allocator->mem_realloc(allocator, *ptr, oldsize, newsize);", "new": "    if (*ptr && newsize <= oldsize) {\n        return AWS_OP_SUCCESS;\n    }\n    if (allocator->mem_realloc) {\n        void *newptr = allocator->mem_realloc(allocator, *ptr, oldsize, newsize);"},
    {"name": "frame-buffer-fixed-at-128", "file": FILE, "expect": "TRACK", "old": "        AWS_VARIABLE_LENGTH_ARRAY(void *, stack_frames, (FRAMES_TO_SKIP + tracer->frames_per_stack));", "new": "        void *stack_frames[128];"},
    {"name": "realloc-track-before-untrack", "file": FILE, "expect": "VTABLE",
     "old": "    s_alloc_tracer_untrack(tracer, old_ptr);\n    aws_mem_realloc(tracer->traced_allocator, &new_ptr, old_size, new_size);",
     "new": "    aws_mem_realloc(tracer->traced_allocator, &new_ptr, old_size, new_size);\n    s_alloc_tracer_untrack(tracer, old_ptr);"},
    {"name": "release-before-untrack", "file": FILE, "expect": "VTABLE",
     "old": "    s_alloc_tracer_untrack(tracer, ptr);\n    aws_mem_release(tracer->traced_allocator, ptr);",
     "new": "    aws_mem_release(tracer->traced_allocator, ptr);\n    s_alloc_tracer_untrack(tracer, ptr);"},
    {"name": "calloc-tracks-element-size", "file": FILE, "expect": "VTABLE", "old": "s_alloc_tracer_track(tracer, ptr, num * size);", "new": "s_alloc_tracer_track(tracer, ptr, size);"},
    {"name": "put-outside-lock", "file": FILE, "expect": "LOCK",
     "old": "    aws_mutex_lock(&tracer->mutex);\n    AWS_FATAL_ASSERT(AWS_OP_SUCCESS == aws_hash_table_put(&tracer->allocs, ptr, alloc, NULL));\n    aws_mutex_unlock(&tracer->mutex);",
     "new": "    AWS_FATAL_ASSERT(AWS_OP_SUCCESS == aws_hash_table_put(&tracer->allocs, ptr, alloc, NULL));"},
    {"name": "untrack-keeps-record", "file": FILE, "expect": "UNTRACK",
     "old": "        AWS_FATAL_ASSERT(AWS_OP_SUCCESS == aws_hash_table_remove_element(&tracer->allocs, item));\n", "new": ""},
    {"name": "bytes-at-level-none", "file": FILE, "expect": "LEVEL",
     "old": "    if (tracer->level == AWS_MEMTRACE_NONE) {\n        return 0;\n    }\n\n    return aws_atomic_load_int(&tracer->allocated);", "new": "    return aws_atomic_load_int(&tracer->allocated);"},
    {"name": "dump-callback-deletes", "file": FILE, "expect": "DUMP",
     "old": "    AWS_FATAL_ASSERT(AWS_OP_SUCCESS == aws_priority_queue_push(allocs, &alloc));\n    return AWS_COMMON_HASH_TABLE_ITER_CONTINUE;",
     "new": "    AWS_FATAL_ASSERT(AWS_OP_SUCCESS == aws_priority_queue_push(allocs, &alloc));\n    return AWS_COMMON_HASH_TABLE_ITER_DELETE;"},
    {"name": "track-size-mismatch", "file": FILE, "expect": "TRACK", "old": "    alloc->size = size;\n", "new": "    alloc->size = size + sizeof(struct alloc_info);\n"},
]
