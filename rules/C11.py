"""C11 - JSON wrapper guards, cJSON child-list shape, escape accounting and number printing structure (DESIGN.md section 4, C11)."""
from sa import rules as RU
from sa.cfg import dominators, ev_dominates, Typestate
from sa.num import Num, Poly, Limit, entails
from sa.extract import library_units
from sa.rules import argstr, where
from sa.shape import Interp, Heap, ShapeError
from rules import C04

FILE = "source/json.c"
CJ = "source/external/cJSON.c"

DECIDED = [
    "GUARD: every object / array accessor of json.c tests the value's kind first and fails otherwise; a member is added only when the value is valid and the key is not present yet (a second member with the same key is refused); remove / get require the key; array get / remove check index < size first; all key operations use the same (case-insensitive) cJSON lookup family, so has / get / add-refusal / remove agree on what 'the same key' means",
    "TMPKEY: the byte-cursor variants make a NUL-terminated copy of the key, pass exactly it to the C-string variant and destroy it on every path; JSON text is parsed from a NUL-terminated private copy (C04 WRAPPER)",
    "TREE-SHAPE: cJSON's append (add_item_to_array, used for array elements and object members) and detach (cJSON_DetachItemViaPointer, used by both removals) keep the child list well formed - forward order = insertion order minus removals, first->prev is the last child, last->next is NULL, every prev link matches, the detached item is fully unlinked - for every list length 0..4 and every position, by symbolic-heap interpretation of their bodies",
    "ESCAPE-AGREE: in cJSON's string printer the length pass and the writing pass agree byte for byte: the same characters get two-byte escapes in both, every other character below 32 is counted as and written as a six-byte \\\\uXXXX escape, everything else is copied",
    "HEX4: parse_hex4 maps every character of the three hex-digit classes to its value and lets nothing else contribute (the printer's lower-case \\u00xx escapes read back) - NUM, every character of each class",
    "FIELD-AGREE: the cJSON fields each typed getter (boolean, number, string) reads are fields which the constructor behind aws_json_value_new_* and the parser both store",
    "UNIQUE-KEYS: objects are compared by key lookup, so every producer of objects must rule out a repeated key: the API add does (GUARD); the parser does not (known finding D29)",
    "NUMBER: numbers print as integers exactly when equal to their integer view, else with 15 significant digits when that text re-reads within a purely relative epsilon of the value, else with 17; NaN / infinities print as null",
    "PRINT-WRAP: the serialisers check the printer's result, append it to the caller's buffer and free it on every path; all cJSON nodes come from the library allocator installed by aws_json_module_init",
]
NOT_DECIDED = ["cJSON's parser internals and number scanning (strtod), hence round-trip equality of numbers and strings as a run-time fact", "cJSON_Duplicate / cJSON_Compare recursion", "validity of the output for an independent parser beyond the escape table"]
ASSUMPTIONS = list(C04.ASSUMPTIONS)


def guards(R, P):
    kinds = {"aws_json_value_add_to_object_c_str": "cJSON_IsObject", "aws_json_value_get_from_object_c_str": "cJSON_IsObject", "aws_json_value_has_key_c_str": "cJSON_IsObject", "aws_json_value_remove_from_object_c_str": "cJSON_IsObject",
             "aws_json_const_iterate_object": "cJSON_IsObject", "aws_json_value_add_array_element": "cJSON_IsArray", "aws_json_get_array_element": "cJSON_IsArray", "aws_json_get_array_size": "cJSON_IsArray",
             "aws_json_value_remove_array_element": "cJSON_IsArray", "aws_json_const_iterate_array": "cJSON_IsArray", "aws_json_value_get_string": "cJSON_IsString", "aws_json_value_get_number": "cJSON_IsNumber",
             "aws_json_value_get_boolean": "cJSON_IsBool"}
    work = {"cJSON_AddItemToObject", "cJSON_GetObjectItem", "cJSON_DeleteItemFromObject", "cJSON_AddItemToArray", "cJSON_GetArrayItem", "cJSON_GetArraySize", "cJSON_DeleteItemFromArray", "cJSON_GetStringValue", "cJSON_HasObjectItem"}
    for name, test in sorted(kinds.items()):
        f = P.fn(name)
        if not R.require(f is not None, "%s not found" % name):
            continue
        R.fn(f)
        dom = dominators(f)
        t = f.calls(test)
        acc = [e for e in f.all_events() if e.kind == "call" and (e.node.get("callee") in work or e.node.get("callee") is None)]
        flds = [e for e in f.field_accesses(rec="cJSON")]
        ok = len(t) == 1 and all(ev_dominates(f, t[0], e, dom) for e in acc + flds)
        if ok:
            for e in acc + flds:
                ok = ok and any(RU.cond_call(f, c)[0] is t[0].node and (pol != RU.cond_call(f, c)[1]) for c, pol, b in RU.guards(f, e, dom))
        R.check(ok, "GUARD", "%s:kind-checked-first" % name, where(f, t[0]) if t else name, "%s() holds before the value is touched (%d uses)" % (test, len(acc) + len(flds)), "%s touches the value without / before the %s test" % (name, test))
    a = P.fn("aws_json_value_add_to_object_c_str")
    if a is not None:
        add, has, inv = a.calls("cJSON_AddItemToObject"), a.calls("cJSON_HasObjectItem"), a.calls("cJSON_IsInvalid")
        ok = len(add) == 1 and len(has) == 1 and len(inv) == 1
        if ok:
            gs = [(RU.cond_call(a, c), pol) for c, pol, b in RU.guards(a, add[0])]
            ok = any(cc[0] is has[0].node and pol == cc[1] for cc, pol in gs) and any(cc[0] is inv[0].node and pol == cc[1] for cc, pol in gs)
            ok = ok and argstr(a, has[0].node, 0) == argstr(a, add[0].node, 0) and argstr(a, has[0].node, 1) == argstr(a, add[0].node, 1) == "key"
        R.check(ok, "GUARD", "add_to_object:duplicate-key-refused", where(a, add[0]) if add else a.name, "the member is added only when the value is valid and the object has no member with that key",
                "a member can be added although the key exists (or the value is invalid)")
    for name, op in (("aws_json_value_remove_from_object_c_str", "cJSON_DeleteItemFromObject"), ("aws_json_value_get_from_object_c_str", "cJSON_GetObjectItem")):
        f = P.fn(name)
        if f is None:
            continue
        o, has = f.calls(op), f.calls("cJSON_HasObjectItem")
        ok = len(o) == 1 and len(has) == 1 and any(RU.cond_call(f, c)[0] is has[0].node and pol != RU.cond_call(f, c)[1] for c, pol, b in RU.guards(f, o[0])) and argstr(f, o[0].node, 1) == argstr(f, has[0].node, 1) == "key"
        if not ok and op == "cJSON_GetObjectItem" and len(o) == 1 and not has and argstr(f, o[0].node, 1) == "key":
            # equally good: the lookup's own answer (NULL when the key is absent) is what the wrapper returns
            ok = any(r_.node["a"] and RU.origin(f, r_.node["a"][0]) is o[0].node for r_ in f.returns())
        R.check(ok, "GUARD", "%s:requires-key" % name, where(f, o[0]) if o else name, "%s only after the key was found" % op)
    fam = set()
    for f in P.functions_in(FILE):
        for e in f.all_events():
            c = e.node.get("callee") if e.kind == "call" else None
            if c and ("ObjectItem" in c or "ItemFromObject" in c or "ItemToObject" in c):
                fam.add(c)
    R.check(fam == {"cJSON_HasObjectItem", "cJSON_GetObjectItem", "cJSON_DeleteItemFromObject", "cJSON_AddItemToObject"}, "GUARD", "one-key-lookup-family", FILE, "has / get / delete / add all use the case-insensitive cJSON family",
            "key operations mix lookup families: %s" % sorted(fam))
    for name, op in (("aws_json_get_array_element", "cJSON_GetArrayItem"), ("aws_json_value_remove_array_element", "cJSON_DeleteItemFromArray")):
        f = P.fn(name)
        if f is None:
            continue
        o, sz = f.calls(op), f.calls("cJSON_GetArraySize")
        ok = len(o) == 1 and len(sz) == 1
        if ok:
            g = [RU.cmp_norm(f, c, pol) for c, pol, b in RU.guards(f, o[0])]
            ip = f.params[1]["n"]
            ok = any(x is not None and x[2] is not None and f.show(RU.uncast(f, x[0])) == ip and x[1] == "<" and RU.origin(f, x[2], o[0]) is sz[0].node for x in g) or \
                any(x is not None and x[2] is not None and f.show(RU.uncast(f, x[2])) == ip and x[1] == ">" and RU.origin(f, x[0], o[0]) is sz[0].node for x in g)
        R.check(ok, "GUARD", "%s:index-below-size" % name, where(f, o[0]) if o else name, "%s only for index < size" % op)


def tmpkey(R, P):
    for name, inner in (("aws_json_value_add_to_object", "aws_json_value_add_to_object_c_str"), ("aws_json_value_get_from_object", "aws_json_value_get_from_object_c_str"),
                        ("aws_json_value_has_key", "aws_json_value_has_key_c_str"), ("aws_json_value_remove_from_object", "aws_json_value_remove_from_object_c_str")):
        f = P.fn(name)
        if not R.require(f is not None, "%s not found" % name):
            continue
        R.fn(f)
        mk, use, ds = f.calls("aws_string_new_from_cursor"), f.calls(inner), f.calls({"aws_string_destroy", "aws_string_destroy_secure"})
        ok = len(mk) == 1 and len(use) == 1 and len(ds) == 1
        if ok:
            # the copy = the variable initialised from the string constructor; the inner call gets aws_string_c_str(copy)
            # (directly or through a temporary); the copy is what is destroyed
            sv = [v["n"] for e in f.all_events() if e.kind == "decl" for v in e.node["vars"] if v.get("init") is not None and RU.uncast(f, v["init"]) is mk[0].node]
            cs = [RU.origin(f, a) for a in use[0].node["a"]]
            ok = len(sv) == 1 and any(x is not None and x["k"] == "call" and x.get("callee") == "aws_string_c_str" and argstr(f, x, 0) == sv[0] for x in cs) and argstr(f, mk[0].node, 1) == "key" and argstr(f, ds[0].node, 0) == sv[0]
        ok = ok and ev_dominates(f, mk[0], use[0]) and ev_dominates(f, use[0], ds[0]) and RU.must_follow(f, lambda e: e is mk[0], lambda e: e is ds[0])[0]
        R.check(bool(ok), "TMPKEY", "%s:nul-terminated-copy" % name, "%s()" % name, "copy of the key -> %s -> destroyed on every path" % inner)


def cell(i):
    return ("N", i)


def build(k, extra=()):
    h = Heap()
    P_ = ("P", 0)
    nodes = [cell(i) for i in range(1, k + 1)]
    h.f[(P_, "child")] = nodes[0] if nodes else None
    h.f[(P_, "next")] = None
    h.f[(P_, "prev")] = None
    for i, n in enumerate(nodes):
        h.f[(n, "next")] = nodes[i + 1] if i + 1 < k else None
        h.f[(n, "prev")] = nodes[i - 1] if i > 0 else nodes[-1]
        h.f[(n, "child")] = None
    for x in extra:
        h.f[(x, "next")] = None
        h.f[(x, "prev")] = None
        h.f[(x, "child")] = None
    return h, P_, nodes


def wellformed(h, P_, expect):
    seq = []
    c = h.f.get((P_, "child"))
    while c is not None and len(seq) < 20:
        seq.append(c)
        c = h.f.get((c, "next"))
    if seq != expect:
        return "children are %s, expected %s" % (seq, expect)
    if expect:
        if h.f.get((expect[0], "prev")) != expect[-1]:
            return "first->prev is %s, not the last child %s" % (h.f.get((expect[0], "prev")), expect[-1])
        for a, b in zip(expect, expect[1:]):
            if h.f.get((b, "prev")) != a:
                return "%s->prev is %s, not %s" % (b, h.f.get((b, "prev")), a)
    return None


def tree_shape(R, P):
    for fn in ("add_item_to_array", "cJSON_DetachItemViaPointer", "suffix_object"):
        if not R.require(P.fn(fn) is not None, "%s not found (cJSON.c)" % fn):
            return
        R.fn(P.fn(fn))
    n = 0
    X = cell(99)
    for k in range(0, 5):
        h, P_, nodes = build(k, extra=(X,))
        it = Interp(P)
        it.allowed = {"suffix_object"}
        inst = "append:len%d" % k
        try:
            r = it.call("add_item_to_array", [P_, X], h)
            why = wellformed(h, P_, nodes + [X])
            if not why and not r:
                why = "reports failure"
        except ShapeError as ex:
            why = str(ex)
        n += 1
        R.check(why is None, "TREE-SHAPE", inst, "%s: add_item_to_array()" % CJ, "appending to %d children keeps the list well formed, new child last" % k, "appending to a list of %d children: %s" % (k, why))
        for i in range(k):
            h, P_, nodes = build(k)
            it = Interp(P)
            inst = "detach:len%d:pos%d" % (k, i + 1)
            try:
                r = it.call("cJSON_DetachItemViaPointer", [P_, nodes[i]], h)
                why = wellformed(h, P_, nodes[:i] + nodes[i + 1:])
                if not why and r != nodes[i]:
                    why = "returns %s" % (r,)
                if not why and (h.f.get((nodes[i], "next")) is not None or h.f.get((nodes[i], "prev")) is not None):
                    why = "the detached item still points into the list"
            except ShapeError as ex:
                why = str(ex)
            n += 1
            R.check(why is None, "TREE-SHAPE", inst, "%s: cJSON_DetachItemViaPointer()" % CJ, "detaching child %d of %d keeps the list well formed" % (i + 1, k), "detaching child %d of %d: %s" % (i + 1, k, why))
    R.require(n >= 15, "only %d list configurations interpreted" % n)
    # the wrappers reach exactly these two primitives
    chain = {"cJSON_AddItemToArray": "add_item_to_array", "cJSON_AddItemToObject": "add_item_to_object", "add_item_to_object": "add_item_to_array", "cJSON_DeleteItemFromArray": "cJSON_DetachItemFromArray",
             "cJSON_DetachItemFromArray": "cJSON_DetachItemViaPointer", "cJSON_DeleteItemFromObject": "cJSON_DetachItemFromObject", "cJSON_DetachItemFromObject": "cJSON_DetachItemViaPointer"}
    bad = [a for a, b in chain.items() if P.fn(a) is None or not P.fn(a).calls(b)]
    R.check(not bad, "TREE-SHAPE", "wrappers-reach-the-primitives", CJ, "the add / delete entry points used by json.c end in add_item_to_array / cJSON_DetachItemViaPointer", "call chain broken at %s" % bad)


def escapes(R, P):
    f = P.fn("print_string_ptr")
    if not R.require(f is not None, "print_string_ptr not found"):
        return
    R.fn(f)
    sw = [b for b in f.blocks.values() if b.term == "switch"]
    if not R.require(len(sw) == 2, "print_string_ptr: expected two switches, found %d" % len(sw)):
        return
    sw.sort(key=lambda b: (b.term_loc or [0])[0])
    groups = []
    for s in sw:
        labs = set()
        for sid in s.succ:
            B = f.blocks.get(sid)
            if B is not None and B.case is not None:
                labs.add(B.case)
        groups.append(labs)
    want = {ord(c) for c in '"\\\b\f\n\r\t'}
    R.check(groups[0] == groups[1] == want, "ESCAPE-AGREE", "two-byte-escapes-same-in-both-passes", "%s: print_string_ptr()" % CJ, "both passes give \" \\\\ \\b \\f \\n \\r \\t a two-byte escape",
            "length pass escapes %s, writing pass %s" % (sorted(groups[0]), sorted(groups[1])))
    incs = []
    for b in f.blocks.values():
        for el in b.elems:
            for x in f.walk(el):
                if x["k"] == "bin" and x["op"] == "+=" and f.show(f.d(x["a"][0])) == "escape_characters":
                    incs.append(f.is_const(x["a"][1]))
                if x["k"] == "un" and x["op"] in ("post++", "pre++") and f.show(f.d(x["a"][0])) == "escape_characters":
                    incs.append(1)
    sn = [e for e in f.all_events() if e.kind == "call" and (e.node.get("callee") or "").endswith("snprintf")]
    fmt = None
    if sn:
        a2 = RU.uncast(f, sn[0].node["a"][2])
        while a2 is not None and a2["k"] in ("decay", "cast"):
            a2 = f.d(a2["a"][0])
        fmt = a2.get("v") if a2 is not None and a2["k"] == "str" else None
    adv = []
    for b in f.blocks.values():
        for el in b.elems:
            if el["k"] == "bin" and el["op"] == "+=" and f.show(f.d(el["a"][0])) == "output_pointer":
                adv.append(f.is_const(el["a"][1]))
    R.check(sorted(incs) == [1, 5] and fmt == "u%04x" and adv == [4], "ESCAPE-AGREE", "control-characters-six-bytes-in-both-passes", "%s: print_string_ptr()" % CJ,
            "other control characters are counted as +5 and written as \\\\uXXXX (backslash + 5, pointer advanced by 4 + the loop's 1)", "length pass adds %s, writer prints %r and advances %s" % (incs, fmt, adv))
    lt = [f.show(f.d(b.cond)).replace(" ", "") for b in f.blocks.values() if b.cond is not None and "input_pointer" in f.show(f.d(b.cond))]
    R.check(any("<32" in t for t in lt) and any(">31" in t for t in lt), "ESCAPE-AGREE", "same-control-threshold", "%s: print_string_ptr()" % CJ, "both passes draw the line at 32")


def numbers(R, P):
    c = P.fn("compare_double")
    p = P.fn("print_number")
    if not R.require(c is not None and p is not None, "number printing functions not found"):
        return
    R.fn(c)
    R.fn(p)
    stores = []
    for b in c.blocks.values():
        for el in b.elems:
            for x in c.walk(el):
                if x["k"] == "bin" and x["op"] in ("=", "+=", "*=") and c.show(c.d(x["a"][0])) == "maxVal":
                    stores.append(c.show(x))
    decl = [c.show(c.d(v["init"])).replace(" ", "") for e in c.all_events() if e.kind == "decl" for v in e.node["vars"] if v["n"] == "maxVal" and v.get("init") is not None]
    # the scale is assigned once (in the declaration or by one plain store) from |a| and |b| alone; the relative test is the
    # verdict for finite operands - a return that is not it must sit behind a test for a non-finite operand
    defs = list(decl) + [t_.replace(" ", "").split("=", 1)[1].rstrip(")") for t_ in stores if "+=" not in t_ and "*=" not in t_]
    ok = len(defs) == 1 and not [t_ for t_ in stores if "+=" in t_ or "*=" in t_] and "fabs(a)" in defs[0] and "fabs(b)" in defs[0] and not any(ch.isdigit() for ch in defs[0].replace("fabs", ""))
    rel, other_ok = 0, True
    domc = dominators(c)
    for r_ in c.returns():
        ret = c.show(r_.node).replace(" ", "")
        if "fabs((a-b))<=(maxVal*" in ret and ("2.22044604925031" in ret or "DBL_EPSILON" in ret):
            rel += 1
        else:
            gtxt = [c.show(c.d(c_)) for c_, p_, b_ in RU.guards(c, r_, domc)]
            prs = c.preds().get(r_.blk, [])
            via = bool(prs) and all(c.blocks[p_].cond is not None and any(k_ in c.show(c.d(c.blocks[p_].cond)) for k_ in ("isinf", "isnan", "isfinite")) for p_ in prs)
            other_ok = other_ok and (via or any(("isinf" in t_ or "isnan" in t_ or "isfinite" in t_) for t_ in gtxt))
    ok = ok and rel == 1 and other_ok
    ret = ""
    R.check(ok, "NUMBER", "compare_double:purely-relative", "%s: compare_double()" % CJ, "|a-b| <= max(|a|,|b|) * DBL_EPSILON with nothing else deciding the scale",
            "the 'close enough' test is not purely relative: scale %s, later stores %s, test %s" % (decl, stores, ret))
    fm = []
    for e in sorted(p.all_events(), key=lambda e_: e_.line):
        if e.kind == "call" and (e.node.get("callee") or "").endswith("snprintf"):
            a2 = RU.uncast(p, e.node["a"][2])
            while a2 is not None and a2["k"] in ("decay", "cast"):
                a2 = p.d(a2["a"][0])
            fm.append(a2.get("v") if a2 is not None and a2["k"] == "str" else None)
    R.check(fm == ["null", "%d", "%1.15g", "%1.17g"], "NUMBER", "print_number:formats", "%s: print_number()" % CJ, "null / integer / 15 digits / 17 digits in that order", "number formats are %s" % fm)
    cd = p.calls("compare_double")
    s17 = [e for e in p.all_events() if e.kind == "call" and (e.node.get("callee") or "").endswith("snprintf") and "%1.17g" in p.show(e.node)]
    s15 = [e for e in p.all_events() if e.kind == "call" and (e.node.get("callee") or "").endswith("snprintf") and "%1.15g" in p.show(e.node)]
    ok = len(cd) == 1 and len(s17) == 1 and len(s15) == 1 and s15[0].line < cd[0].line < s17[0].line
    if ok:
        # the only way to the 17-digit print is through the re-read test failing (sscanf != 1 or !compare_double)
        # (the decisions that separate the 17-digit print from the 15-digit one all derive from the re-read: the sscanf
        # result and compare_double - tested directly or through a boolean that holds them)
        ss = [e for e in p.all_events() if e.kind == "call" and (e.node.get("callee") or "").endswith("sscanf")]
        roots = {cd[0].node["id"]} | {e.node["id"] for e in ss}
        tainted, et = RU.derives(p, lambda n: n.get("id") in roots and n["k"] in ("call", "ref"))
        from sa.cfg import edges as _edges
        fwd = {e.blk for e in RU.reach_from(p, s15[0])} | {s15[0].blk}
        back, work = {s17[0].blk}, [s17[0].blk]
        preds = p.preds()
        while work:
            b_ = work.pop()
            for q in preds.get(b_, []):
                if q not in back:
                    back.add(q)
                    work.append(q)
        between = [b_ for b_ in fwd & back if p.blocks[b_].cond is not None and len(_edges(p, b_)) == 2 and b_ != s17[0].blk]
        # loops after the 17-digit print also "reach" it only through a back edge of an enclosing loop - there is none here
        ok = bool(between) and all(et(p.blocks[b_].cond) for b_ in between)
    R.check(ok, "NUMBER", "print_number:17-digits-iff-15-do-not-reread", "%s: print_number()" % CJ, "17 digits are used exactly when the 15-digit text does not re-read close enough")
    iv = [b for b in p.blocks.values() if b.cond is not None and "valueint" in p.show(p.d(b.cond)) and "==" in p.show(p.d(b.cond))]
    R.check(len(iv) == 1, "NUMBER", "print_number:integer-iff-equal", "%s: print_number()" % CJ, "the integer form is used exactly when d == (double)valueint")


def print_wrap(R, P):
    for name, pr in (("aws_byte_buf_append_json_string", "cJSON_PrintUnformatted"), ("aws_byte_buf_append_json_string_formatted", "cJSON_Print")):
        f = P.fn(name)
        if not R.require(f is not None, "%s not found" % name):
            continue
        R.fn(f)
        p_, ap, fr = f.calls(pr), f.calls({"aws_byte_buf_append_dynamic", "aws_byte_buf_append_dynamic_secure"}), f.calls({"s_aws_cJSON_free", "cJSON_free", "aws_mem_release"})
        ok = len(p_) == 1 and len(ap) == 1 and len(fr) == 1 and ev_dominates(f, p_[0], ap[0]) and RU.must_follow(f, lambda e: e is ap[0], lambda e: e is fr[0])[0]
        R.check(bool(ok), "PRINT-WRAP", "%s:print-append-free" % name, "%s()" % name, "%s -> NULL check -> append -> free on every path" % pr)
    f = P.fn("aws_json_module_init")
    if R.require(f is not None, "aws_json_module_init not found"):
        ih = f.calls("cJSON_InitHooks")
        txt = " ".join(f.show(e) for b in f.blocks.values() for e in b.elems)
        R.check(len(ih) == 1 and "s_aws_cJSON_alloc" in txt and "s_aws_cJSON_free" in txt, "PRINT-WRAP", "module-allocator-hooks", "%s()" % f.name, "cJSON allocates through the module allocator")


from rules.cjson_depth import depth_balance, print_room


def number_alphabet(R, P):
    """NUMBER/alphabet: the number reader accepts every character the number printer can produce: print_number formats with
    %g-style conversions, whose output is made of digits, '.', '-', '+' (in exponents such as 1e+22) and 'e' / 'E'"""
    f = P.fn("parse_number")
    if not R.require(f is not None, "parse_number not found"):
        return
    R.fn(f)
    cases = {b.case for b in f.blocks.values() if b.case is not None}
    want = set(range(48, 58)) | {ord(ch) for ch in "+-eE."}
    missing = sorted(chr(x) for x in want - cases)
    R.check(not missing, "NUMBER", "parse-accepts-the-printers-alphabet", "%s in parse_number()" % CJ, "digits, sign characters, exponent markers and the decimal point are all number characters",
            "parse_number does not treat %s as part of a number: the printer writes large and small magnitudes in exponent form (1e+22), which the library's own parser then cuts at that character or rejects" % missing)


def duplicate_links(R, P):
    """TREE-SHAPE/duplicate: in cJSON_Duplicate's child loop the tail of the new child list advances on every iteration (both
    the first-child and the later-child branch assign it the child just copied), so children are chained, not overwritten"""
    from sa.cfg import edges
    f = P.fn("cJSON_Duplicate")
    if not R.require(f is not None, "cJSON_Duplicate not found"):
        return
    R.fn(f)
    loops = Num(f, P, None).loops()
    cand = [(h, body) for h, body in loops.items() if f.blocks[h].cond is not None and "child" in f.show(f.blocks[h].cond)]
    if not R.require(len(cand) == 1, "cJSON_Duplicate: child loop not found"):
        return
    h, body = cand[0]
    # roles: the copy = the variable that receives the recursive call's result; the tail = the variable through which the
    # copy is linked (`tail->next = copy`); advancing = `tail = copy`
    copyv, tailv = set(), set()
    for e_ in f.all_events():
        if e_.kind == "decl":
            for v in e_.node["vars"]:
                i_ = RU.uncast(f, v["init"]) if v.get("init") is not None else None
                if i_ is not None and i_["k"] == "call" and i_.get("callee") == f.name:
                    copyv.add(v["n"])
    for b in f.blocks.values():
        for el in b.elems:
            if el["k"] == "bin" and el["op"] == "=":
                l_, r_ = f.d(el["a"][0]), RU.uncast(f, el["a"][1])
                if l_ is not None and l_["k"] == "var" and r_ is not None and r_["k"] == "call" and r_.get("callee") == f.name:
                    copyv.add(l_["n"])
    for b in body:
        for el in f.blocks[b].elems:
            if el["k"] == "bin" and el["op"] == "=":
                l_, r_ = f.d(el["a"][0]), RU.uncast(f, el["a"][1])
                if l_ is not None and l_["k"] == "member" and l_["f"] == "next" and r_ is not None and r_["k"] == "var" and r_["n"] in copyv:
                    bs = RU.uncast(f, l_["a"][0])
                    if bs is not None and bs["k"] == "var":
                        tailv.add(bs["n"])
    adv = set()
    for b in body:
        for el in f.blocks[b].elems:
            if el["k"] == "bin" and el["op"] == "=":
                l_, r_ = f.d(el["a"][0]), RU.uncast(f, el["a"][1])
                if l_ is not None and l_["k"] == "var" and l_["n"] in tailv and r_ is not None and r_["k"] == "var" and r_["n"] in copyv:
                    adv.add(b)
    # every path from the loop body back to the header passes a block that advances the tail
    start = [s for s, c_, p_ in edges(f, h) if s in body]
    seen, work, leak = set(), list(start), False
    while work:
        x = work.pop()
        if x in seen or x in adv:
            continue
        seen.add(x)
        for s, c_, p_ in edges(f, x):
            if s == h:
                leak = True
            elif s in body:
                work.append(s)
    R.check(bool(adv) and not leak, "TREE-SHAPE", "duplicate:tail-advances-every-iteration", "%s in cJSON_Duplicate()" % CJ, "every iteration of the child loop sets the tail to the child just copied",
            "a path through cJSON_Duplicate's child loop links the copied child without advancing the tail: the next child overwrites the link, a container with three or more children duplicates to its first and last child only")


def key_compare(R, P):
    """GUARD/key-compare: case_insensitive_strcmp returns 0 only for the same pointer or after it has seen the terminator of
    string1 at a position where both strings agree: a key is never equal to a longer key it is a prefix of"""
    f = P.fn("case_insensitive_strcmp")
    if not R.require(f is not None, "case_insensitive_strcmp not found"):
        return
    R.fn(f)
    n, bad = 0, []
    for r_ in f.returns():
        v = RU.uncast(f, r_.node["a"][0]) if r_.node["a"] else None
        if v is None or f.is_const(v) != 0:
            continue
        n += 1
        gs = [(f.show(f.d(c_)).replace(" ", ""), p_) for c_, p_, b_ in RU.guards(f, r_)]
        same_ptr = any("string1==string2" in t and p_ for t, p_ in gs)
        ended = any(("*string1==0" in t.replace("'\\0'", "0") or "*string1=='\\0'" in t) and p_ for t, p_ in gs) or any(t.startswith("(*string1==") and p_ for t, p_ in gs)
        other = [(t, p_) for t, p_ in gs if "string1==string2" not in t and "NULL" not in t and not t.startswith("(*string1==") and not t.startswith("(*string2==")]
        agree = any(("==" in t and p_) or ("!=" in t and not p_) for t, p_ in other)  # the loop condition: the (lower-cased) characters agree
        if not (same_ptr or (ended and agree)):
            bad.append((r_.node["loc"][0], gs))
    R.check(n >= 1 and not bad, "GUARD", "key-compare:equal-only-at-a-common-end", "%s in case_insensitive_strcmp()" % CJ, "`equal` is returned only for identical pointers or at a terminator both strings share",
            "case_insensitive_strcmp can return 0 without both strings having ended at the same position (%s): a key compares equal to any longer key it is a prefix of (`id` / `identity`), so lookups, removals and the duplicate-key refusal hit the wrong member" % bad[:1])


def surrogates(R, P):
    """ESCAPE-AGREE/surrogate: for every high surrogate in [D800, DBFF] followed by a low surrogate in [DC00, DFFF] the code
    point the parser computes is 0x10000 + (high - 0xD800) * 0x400 + (low - 0xDC00) (UTF-16), decided by NUM for all pairs
    whatever way the expression is written (masks, shifts, or-ing of disjoint bit ranges)."""
    from sa.awslib import AwsHooks
    from sa.num import Num, Poly, Limit, entails
    f = P.fn("utf16_literal_to_utf8")
    if not R.require(f is not None, "utf16_literal_to_utf8 not found in cJSON.c"):
        return
    R.fn(f)

    class H(AwsHooks):
        def call(self, num, st, e, args):
            if (e.get("callee") or "") == "parse_hex4":
                a = num.fresh(st, "hex4", None, (0, 0xFFFF))
                st.notes["hex"] = list(st.notes.get("hex", [])) + [a]
                return Poly.atom(a)
            return AwsHooks.call(self, num, st, e, args)
    num = Num(f, P, H(), max_paths=20000)
    asg = [el for b in f.blocks.values() for el in b.elems if el["k"] == "bin" and el["op"] == "=" and f.show(f.d(el["a"][0])) == "codepoint"]
    if not R.require(len(asg) >= 2, "utf16_literal_to_utf8: code point assignments not found"):
        return
    try:
        sts = num.states_at(set(), after_ids={a["id"] for a in asg})
    except Limit as ex:
        R.broken(str(ex))
        return
    n_pair, n_single, bad = 0, 0, ""
    for a in asg:
        for st in sts.get(("after", a["id"]), []):
            hx = st.notes.get("hex", [])
            cp = st.env.get("v:codepoint")
            if cp is None:
                bad = "code point not tracked"
                continue
            if len(hx) == 2:
                F, S = Poly.atom(hx[0]), Poly.atom(hx[1])
                inr = entails(st, Poly.const(0xD800) - F) and entails(st, F - 0xDBFF) and entails(st, Poly.const(0xDC00) - S) and entails(st, S - 0xDFFF)
                want = Poly.const(0x10000) + (F - 0xD800) * 1024 + (S - 0xDC00)
                n_pair += 1
                if not inr:
                    bad = "a pair is combined without both halves having been checked to be a high and a low surrogate"
                elif not (entails(st, cp - want) and entails(st, want - cp)):
                    bad = "the pair (high, low) decodes to %r, UTF-16 says 0x10000 + (high - 0xD800) * 0x400 + (low - 0xDC00)" % cp
            elif len(hx) == 1:
                n_single += 1
                if cp != Poly.atom(hx[0]):
                    bad = "a single \\uXXXX escape decodes to %r" % cp
    R.check(not bad and n_pair >= 1 and n_single >= 1, "ESCAPE-AGREE", "surrogate-pair-formula", "%s in utf16_literal_to_utf8()" % CJ, "every surrogate pair decodes to the UTF-16 code point, single escapes to themselves (NUM, all pairs)",
            "escaped characters beyond the BMP are decoded to another code point than the text denotes: %s" % bad)


def hex4(R, P):
    """HEX4: in parse_hex4 every character that contributes to the code unit contributes its hexadecimal value
    ('0'..'9' -> c - '0', 'A'..'F' -> c - 'A' + 10, 'a'..'f' -> c - 'a' + 10), and nothing else contributes: the printer writes
    control characters as \\u00xx with lower-case digits, the reader must map them back (NUM, all characters per class)."""
    from sa.awslib import AwsHooks
    from sa.bounds import EntryExtents
    from sa.num import Num, Poly, Limit, entails
    f = P.fn("parse_hex4")
    if not R.require(f is not None and f.params, "parse_hex4 not found in cJSON.c"):
        return
    R.fn(f)
    num = Num(f, P, EntryExtents(AwsHooks(), f, {f.params[0]["n"]: 4}))
    sites = []
    for b in f.blocks.values():
        for el in b.elems:
            if el["k"] == "bin" and el["op"] in ("+=", "=", "|="):
                rd = [n for n in f.walk(f.d(el["a"][1])) if n["k"] == "index" or (n["k"] == "un" and n["op"] == "deref")]
                if rd:
                    sites.append((el, rd[0]))
    if not R.require(len(sites) >= 1, "parse_hex4: no statement that adds a digit read from the input was found"):
        return
    try:
        sts = num.states_at({el["id"] for el, _ in sites})
    except Limit as ex:
        R.broken(str(ex))
        return
    classes = ((48, 57, 48, "'0'..'9'"), (65, 70, 55, "'A'..'F'"), (97, 102, 87, "'a'..'f'"))
    seen, n_dec = set(), 0
    for el, rd in sites:
        for st in sts.get(el["id"], []):
            c = num.val(rd, st)
            d = num.val(f.d(el["a"][1]), st)
            old = num.val(f.d(el["a"][0]), st)
            if c is None or d is None:
                continue
            if el["op"] == "=" and old is not None:
                d = d - old * 16 if (d - old * 16).atoms().isdisjoint(old.atoms()) else d - old
            if not (d.atoms() <= c.atoms()) or d.degree() > 1:
                R.notes.append("parse_hex4: the contribution %r of `%s` is not a linear function of the character read (not decided)" % (d, f.show(el)[:60]))
                continue
            loc = "%s:%d in parse_hex4()" % (CJ, el.get("loc", [0])[0])
            rest = [st]
            for lo, hi, off, nm in classes:
                ins = []
                for s1 in num.assume_cmp(">=", c, Poly.const(lo), st.copy()):
                    ins.extend(num.assume_cmp("<=", c, Poly.const(hi), s1))
                ins = [s2 for s2 in ins if not s2.infeasible()] if hasattr(st, "infeasible") else ins
                for s2 in ins:
                    lo2, hi2 = num.simple_bounds(s2, c)
                    if lo2 is None or hi2 is None or lo2 > hi2:
                        continue
                    n_dec += 1
                    seen.add(nm)
                    want = c - off
                    R.check(entails(s2, d - want) and entails(s2, want - d), "HEX4", "digit-value:%s" % nm, loc, "a character in %s contributes c - %d" % (nm, off),
                            "a character in %s contributes %r to the code unit, its hexadecimal value is c - %d (\\u001f, as the printer writes it, would not read back as 0x1f)" % (nm, d, off))
            lo0, hi0 = num.simple_bounds(st, c)
            inside = lo0 is not None and hi0 is not None and any(lo <= lo0 and hi0 <= hi for lo, hi, _, _ in classes)
            R.check(inside, "HEX4", "only-hex-digits-contribute", loc, "the contributing character is confined to one class of hex digits",
                    "a character in [%s, %s] contributes to the code unit: not confined to one of '0'..'9', 'A'..'F', 'a'..'f'" % (lo0, hi0))
    R.check(seen == {nm for _, _, _, nm in classes}, "HEX4", "all-three-classes-accepted", "%s in parse_hex4()" % CJ, "digits, upper-case and lower-case letters are all decoded",
            "only %s contribute: an escape written with the other digits is rejected (the printer writes lower-case)" % sorted(seen))


def field_agree(R, P):
    """FIELD-AGREE: the fields of a cJSON node a typed getter reads (itself and through the cJSON helpers it calls) are fields the
    constructor of that kind stores and the parser stores: what was built through the API reads back the same before and after a
    round trip through text.  (The node's other fields are zero from the allocation, not the value.)"""
    pairs = (("aws_json_value_get_boolean", ("aws_json_value_new_boolean",)), ("aws_json_value_get_number", ("aws_json_value_new_number",)),
             ("aws_json_value_get_string", ("aws_json_value_new_string", "aws_json_value_new_string_from_c_str")))

    def closure(f0, depth=3):
        seen, work = {}, [(f0, 0)]
        while work:
            g, d = work.pop()
            if g is None or g.name in seen or not getattr(g, "blocks", None):
                continue
            seen[g.name] = g
            if d < depth:
                for e in g.calls():
                    cn = e.node.get("callee") or ""
                    if cn.startswith("cJSON_"):
                        work.append((P.fn(cn), d + 1))
        return list(seen.values())

    def fields(fs, modes):
        out = {}
        for g in fs:
            for e in g.field_accesses(rec="cJSON", modes=modes):
                out.setdefault(e.node["f"], "%s:%d" % (g.name, e.node.get("loc", [0])[0]))
        return out
    parser = [P.fn(n) for n in ("parse_value", "parse_number", "parse_string")]
    if not R.require(all(g is not None for g in parser), "cJSON parser functions (parse_value / parse_number / parse_string) not found"):
        return
    pw = fields(parser, ("w", "rw"))
    R.require(len(pw) >= 3, "the parser stores only %s" % sorted(pw))
    for getter, ctors in pairs:
        g = P.fn(getter)
        if not R.require(g is not None, "%s not found" % getter):
            continue
        R.fn(g)
        rd = fields(closure(g), ("r", "rw"))
        if not R.require(len(rd) >= 1, "%s reads no cJSON field" % getter):
            continue
        for cn in ctors:
            c = P.fn(cn)
            if not R.require(c is not None, "%s not found" % cn):
                continue
            cw = fields([x for x in closure(c) if x.name != cn and x.name.startswith("cJSON_Create")] or closure(c), ("w", "rw"))
            if not R.require(len(cw) >= 1, "%s: no cJSON constructor storing fields found" % cn):
                continue
            miss = sorted(k for k in rd if k not in cw)
            R.check(not miss, "FIELD-AGREE", "%s:reads-what-%s-stores" % (getter, cn), "%s in %s()" % (FILE, getter), "reads %s, the constructor stores %s" % (sorted(rd), sorted(cw)),
                    "%s reads field(s) %s (at %s) which the constructor behind %s never stores (it stores %s): a value built through the API reads back as the allocation's zero, not as what was stored" % (getter, miss, [rd[k] for k in miss], cn, sorted(cw)))
        miss = sorted(k for k in rd if k not in pw)
        R.check(not miss, "FIELD-AGREE", "%s:reads-what-the-parser-stores" % getter, "%s in %s()" % (FILE, getter), "reads %s, the parser stores %s" % (sorted(rd), sorted(pw)),
                "%s reads field(s) %s which the parser never stores" % (getter, miss))


def unique_keys(R, P):
    """UNIQUE-KEYS: cJSON_Compare matches the members of two objects BY KEY (first match of get_object_item), so it is an
    equivalence only on objects whose keys are distinct.  The API's add refuses a key that is present (GUARD); the other producer
    of objects, the parser, must rule a repeated key out too - otherwise a parsed tree does not compare equal to its duplicate."""
    cmp_ = P.fn("cJSON_Compare")
    po = P.fn("parse_object")
    if not R.require(cmp_ is not None and po is not None, "cJSON_Compare / parse_object not found"):
        return
    R.fn(po)
    lookups = {"get_object_item", "cJSON_GetObjectItem", "cJSON_GetObjectItemCaseSensitive", "cJSON_HasObjectItem"}
    keyed = [e for e in cmp_.calls(lookups)]
    if not keyed:
        R.ok("UNIQUE-KEYS", "compare-is-positional", "%s in cJSON_Compare()" % CJ, "objects are not compared through key lookups: repeated keys are harmless")
        return
    tested = []
    for e in po.calls(lookups):
        dom = dominators(po)
        for b in po.blocks.values():
            if b.cond is None:
                continue
            t = RU.cmp_norm(po, b.cond, True)
            x = RU.uncast(po, t[0]) if t else None
            if x is not None and (x is e.node or RU.origin(po, x) is e.node):
                tested.append(e)
    R.check(bool(tested), "UNIQUE-KEYS", "parse_object:refuses-repeated-key", "%s:%d in parse_object()" % (CJ, po.line), "the parser looks each new key up among the members read so far and branches on it",
            "parse_object links every member it reads without looking its key up among the earlier ones, while cJSON_Compare (%s:%d) pairs members by key: {\"a\":1,\"a\":2} parses, and compares unequal to its own duplicate" % (CJ, keyed[0].node.get("loc", [0])[0]))


def parser_round6(R, P):
    """three facts about the reader that the writer relies on:
    ESCAPE-AGREE/scan: the first pass of parse_string steps over the character after EVERY backslash (the writer emits `\\\\`
    for a backslash: a value ending in one ends in `\\\\"`, and only an unconditional step keeps that quote the closing one);
    NUMBER/buffer: print_number's scratch array holds the longest "%1.17g" text (sign, 17 digits, '.', "e-308", NUL = 25);
    TREE-SHAPE/parser: parse_array and parse_object close the child list alike - `head->prev` is set to the last item read."""
    from sa.cfg import edges
    f = P.fn("parse_string")
    if R.require(f is not None, "parse_string not found"):
        dom = dominators(f)
        loops = {}
        preds = f.preds()
        for b in dom:
            for s_, _, _ in edges(f, b):
                if s_ in dom.get(b, ()):
                    body, st = {s_, b}, [b]
                    while st:
                        x = st.pop()
                        if x == s_:
                            continue
                        for p_ in preds.get(x, []):
                            if p_ not in body and p_ in dom:
                                body.add(p_)
                                st.append(p_)
                    loops.setdefault(s_, set()).update(body)
        # the scan loop: the first loop (lowest line) whose body tests a character against the backslash
        cand = []
        for h, body in loops.items():
            for b in body:
                B = f.blocks[b]
                t = RU.cmp_norm(f, B.cond, True) if B.cond is not None else None
                if t and t[1] == "==" and t[2] is not None and f.is_const(RU.uncast(f, t[2])) == 92:
                    cand.append((B.term_loc or [10 ** 9])[0] if hasattr(B, "term_loc") else 0)
                    incs = [e for e in f.all_events() if e.blk in body and e.kind == "access" and e.mode == "rw" and e.node["k"] == "var"]
                    # increments of the scan pointer inside the backslash arm
                    arm = [s_ for s_, c_, p_ in edges(f, b) if p_ is True]
                    stepped = []
                    for el_b in body:
                        for el in f.blocks[el_b].elems:
                            if el["k"] == "un" and el["op"] in ("post++", "pre++") and (f.d(el["a"][0]) or {}).get("k") == "var":
                                ev = type("E", (), {"blk": el_b, "idx": 0, "seq": 0})()
                                gs = RU.guards(f, ev, dom)
                                under_bs = [1 for c_, p_, b_ in gs if f.d(c_) is f.d(B.cond) or c_ is B.cond]
                                if under_bs:
                                    # other guards between the backslash test and the step (the end-of-input check leaves by goto)
                                    # (only a test of a CHARACTER makes the step depend on what is escaped; the end-of-input check reads none)
                                    at_test = {id(f.d(c2)) for c2, p2, b2 in RU.guards(f, type("E", (), {"blk": b, "idx": 0, "seq": 0})(), dom)}
                                    extra = [f.show(f.d(c_))[:50] for c_, p_, b_ in gs if b_ in body and b_ != b and b_ != h and not (f.d(c_) is f.d(B.cond)) and id(f.d(c_)) not in at_test
                                             and any(x["k"] == "index" or (x["k"] == "un" and x["op"] == "deref") for x in f.walk(f.d(c_), follow_refs=True))]
                                    stepped.append((f.d(el["a"][0])["n"], extra, el))
                    break
            else:
                continue
            break
        else:
            stepped = None
        if R.require(stepped is not None, "parse_string: the backslash test of the first pass not found"):
            ptr_steps = [s_ for s_ in stepped if "input_end" in s_[0] or True]
            names = {}
            for nme, extra, el in stepped:
                names.setdefault(nme, []).append(extra)
            # the scan pointer is the variable also stepped outside the arm; every stepped variable must have one unguarded step
            bad = sorted(nme for nme, ex in names.items() if all(ex_ for ex_ in ex))
            R.check(bool(names) and not bad, "ESCAPE-AGREE", "scan-steps-over-every-escaped-character", "%s in parse_string()" % CJ, "after a backslash the scan steps over the next character whatever it is",
                    "in the first pass of parse_string the step over the character after a backslash is conditional for %s: `\\\\\\\\` in front of the closing quote swallows the quote, a value ending in a backslash (which the writer emits as `\\\\\\\\`) cannot be read back" % bad)
    cd_ = P.fn("compare_double")
    g = P.fn("print_number")
    if cd_ is not None and g is not None:
        # the 15-digit text is accepted when it re-reads `equal` to the value: a text that overflows to infinity must not count
        fin = [e for fn_ in (cd_, g) for e in fn_.all_events() if e.kind == "call" and any(k_ in (e.node.get("callee") or "") for k_ in ("isinf", "isfinite", "isnan", "fpclassify"))]
        in_cmp = [e for e in cd_.all_events() if e.kind == "call" and any(k_ in (e.node.get("callee") or "") for k_ in ("isinf", "isfinite", "isnan", "fpclassify"))]
        # (print_number's own isnan/isinf test is about the VALUE; the re-read text needs one of its own)
        R.check(bool(in_cmp), "NUMBER", "compare_double:non-finite-never-equal", "%s in compare_double()" % CJ, "a non-finite operand is never `equal within epsilon` to a finite one",
                "compare_double(inf, d) is `inf <= inf * DBL_EPSILON`, which holds: print_number accepts the 15-digit text of DBL_MAX although it re-reads as infinity (the document then parses to inf and prints as null)")
    if R.require(g is not None, "print_number not found"):
        sizes = []
        for b in g.blocks.values():
            for el in b.elems:
                if el["k"] == "decl":
                    for v in el["vars"]:
                        t = g.unit.types[v["t"]] if "t" in v else {}
                        if t.get("arr") is not None and (t.get("esz") or 1) == 1:
                            sizes.append((v["n"], t["arr"]))
        R.check(len(sizes) >= 1 and all(sz >= 25 for _, sz in sizes), "NUMBER", "scratch-buffer-holds-17-digits", "%s in print_number()" % CJ, "the scratch array holds sign + 17 digits + '.' + e-308 + NUL (sizes %s)" % sizes,
                "print_number's scratch array %s is smaller than the 25 bytes the longest %%1.17g text needs (-1.2345678901234567e-300): such numbers cannot be serialised at all" % sizes)
    shapes = {}
    for nm in ("parse_array", "parse_object"):
        h_ = P.fn(nm)
        if not R.require(h_ is not None, "%s not found" % nm):
            continue
        st_ = set()
        for e in h_.field_accesses(rec="cJSON", field="prev", modes=("w",)):
            for b in h_.blocks.values():
                for el in b.elems:
                    if el["k"] == "bin" and el["op"] == "=" and h_.d(el["a"][0]) is e.node:
                        st_.add((h_.show(e.node["a"][0]), h_.show(RU.uncast(h_, el["a"][1]))))
        shapes[nm] = st_
    if len(shapes) == 2:
        R.check(shapes["parse_array"] == shapes["parse_object"] and ("head", "current_item") in shapes["parse_object"], "TREE-SHAPE", "parsers-close-the-list-alike", "%s in parse_object()" % CJ,
                "both parsers store head->prev = current_item (prev stores: %s)" % sorted(shapes["parse_object"]),
                "parse_array and parse_object maintain the child list's tail link differently (array: %s, object: %s): the list a parsed object hands to add_item_to_array has a stale tail, the next member added unlinks members 2..n" % (sorted(shapes["parse_array"]), sorted(shapes["parse_object"])))


def analyse(ctx, replace=None, only=None):
    R = ctx.R
    units = [u for u in library_units(ctx.ex.repo) if "external" not in u or u.endswith("cJSON.c")]
    P = ctx.program(units, "ship", replace=replace)
    if not R.require(P.fn("aws_json_value_add_to_object_c_str") is not None and P.fn("add_item_to_array") is not None, "%s / %s not analysed" % (FILE, CJ)):
        return
    guards(R, P)
    tmpkey(R, P)
    tree_shape(R, P)
    depth_balance(R, P)
    print_room(R, P)
    escapes(R, P)
    surrogates(R, P)
    hex4(R, P)
    field_agree(R, P)
    unique_keys(R, P)
    parser_round6(R, P)
    number_alphabet(R, P)
    duplicate_links(R, P)
    key_compare(R, P)
    numbers(R, P)
    print_wrap(R, P)
    C04.wrappers(R, P)


MUTANTS = [
    {"name": "get-boolean-reads-valueint", "file": FILE, "expect": "FIELD-AGREE", "old": "    *output = cjson->type == cJSON_True;", "new": "    *output = cjson->valueint != 0;"},
    {"name": "hex4-lower-case-letters-through-the-upper-case-formula", "file": CJ, "expect": "HEX4", "old": "            h += (unsigned int) 10 + input[i] - 'a';", "new": "            h += (unsigned int) 10 + input[i] - 'A';"},
    {"name": "duplicate-key-allowed", "file": FILE, "expect": "GUARD", "old": "    if (cJSON_HasObjectItem(cjson, key)) {\n        return AWS_OP_ERR;\n    }\n\n    cJSON_AddItemToObject(cjson, key, cjson_value);", "new": "    cJSON_AddItemToObject(cjson, key, cjson_value);"},
    {"name": "remove-case-sensitive", "file": FILE, "expect": "GUARD", "old": "    cJSON_DeleteItemFromObject(cjson, key);", "new": "    cJSON_DeleteItemFromObjectCaseSensitive(cjson, key);"},
    {"name": "array-index-off-by-one", "file": FILE, "expect": "GUARD", "old": "    if (index >= (size_t)cJSON_GetArraySize(cjson)) {\n        return aws_raise_error(AWS_ERROR_INVALID_INDEX);\n    }\n\n    cJSON_DeleteItemFromArray", "new": "    if (index > (size_t)cJSON_GetArraySize(cjson)) {\n        return aws_raise_error(AWS_ERROR_INVALID_INDEX);\n    }\n\n    cJSON_DeleteItemFromArray"},
    {"name": "tmp-key-leaked", "file": FILE, "expect": "TMPKEY", "old": "    bool result = aws_json_value_has_key_c_str(object, aws_string_c_str(tmp));\n\n    aws_string_destroy_secure(tmp);\n    return result;", "new": "    bool result = aws_json_value_has_key_c_str(object, aws_string_c_str(tmp));\n    if (!result) {\n        return result;\n    }\n    aws_string_destroy_secure(tmp);\n    return result;"},
    {"name": "object-closing-line-under-reserved", "file": CJ, "expect": "PRINT-WRAP", "old": "    output_pointer = ensure(output_buffer, output_buffer->format ? (output_buffer->depth + 1) : 2);", "new": "    output_pointer = ensure(output_buffer, 2);"},
    {"name": "number-reader-without-plus", "file": CJ, "expect": "NUMBER", "old": "            case '9':\n            case '+':\n            case '-':", "new": "            case '9':\n            case '-':"},
    {"name": "duplicate-tail-not-advanced", "file": CJ, "expect": "TREE-SHAPE", "old": "            next->next = newchild;\n            newchild->prev = next;\n            next = newchild;", "new": "            next->next = newchild;\n            newchild->prev = next;"},
    {"name": "key-compare-stops-at-the-shorter-key", "file": CJ, "expect": "GUARD", "old": "    for(; tolower(*string1) == tolower(*string2); (void)string1++, string2++)\n    {\n        if (*string1 == '\\0')\n        {\n            return 0;\n        }\n    }\n\n    return tolower(*string1) - tolower(*string2);", "new": "    for(; (*string1 != '\\0') && (*string2 != '\\0'); (void)string1++, string2++)\n    {\n        if (tolower(*string1) != tolower(*string2))\n        {\n            return tolower(*string1) - tolower(*string2);\n        }\n    }\n\n    return 0;"},
    {"name": "surrogate-high-mask-narrowed", "file": CJ, "expect": "ESCAPE-AGREE", "old": "(((first_code & 0x3FF) << 10) | (second_code & 0x3FF))", "new": "(((first_code & 0xFF) << 10) | (second_code & 0x3FF))"},
    {"name": "empty-array-keeps-depth", "file": CJ, "expect": "TREE-SHAPE", "old": "        goto fail; /* expected end of array */\n    }\n\nsuccess:\n    input_buffer->depth--;\n", "new": "        goto fail; /* expected end of array */\n    }\n    input_buffer->depth--;\n\nsuccess:\n"},
    {"name": "detach-last-keeps-tail", "file": CJ, "expect": "TREE-SHAPE", "old": "    else if (item->next == NULL)\n    {\n        /* last element */\n        parent->child->prev = item->prev;\n    }", "new": ""},
    {"name": "append-forgets-tail", "file": CJ, "expect": "TREE-SHAPE", "old": "            suffix_object(child->prev, item);\n            array->child->prev = item;", "new": "            suffix_object(child->prev, item);"},
    {"name": "escape-count-drops-b-f", "file": CJ, "expect": "ESCAPE-AGREE", "old": "            case '\\b':\n            case '\\f':\n            case '\\n':\n            case '\\r':\n            case '\\t':\n                /* one character escape sequence */", "new": "            case '\\n':\n            case '\\r':\n            case '\\t':\n                /* one character escape sequence */"},
    {"name": "compare-double-absolute-floor", "file": CJ, "expect": "NUMBER", "old": "    return (fabs(a - b) <= maxVal * DBL_EPSILON);", "new": "    if (maxVal < 1.0)\n    {\n        maxVal = 1.0;\n    }\n    return (fabs(a - b) <= maxVal * DBL_EPSILON);"},
    {"name": "print-result-leaked", "file": FILE, "expect": "PRINT-WRAP", "old": "    int return_val = aws_byte_buf_append_dynamic_secure(output, &tmp_cursor);\n    s_aws_cJSON_free(tmp); // free the char* now that we do not need it\n    return return_val;", "new": "    int return_val = aws_byte_buf_append_dynamic_secure(output, &tmp_cursor);\n    if (return_val) {\n        return return_val;\n    }\n    s_aws_cJSON_free(tmp);\n    return return_val;"},
]
for _m in MUTANTS:
    _m.setdefault("scope", None)
