"""C15 - ring buffer: vended ranges lie in the free region (DESIGN.md section 4, C15)."""
from sa import rules as RU
from sa.awslib import AwsHooks
from sa.cfg import dominators, ev_dominates
from sa.num import Num, Poly, Limit, entails
from sa.rules import argstr, where
from rules import atomics_map

FILE = "source/ring_buffer.c"
RB = "aws_ring_buffer"
def _order_name(f, P, n):
    """the memory order an argument denotes: the enumerator itself, or a file-scope `static const enum aws_memory_order`
    object initialised with one (never written: it is const)"""
    x = RU.uncast(f, n)
    if x is not None and x["k"] == "int" and x.get("name") not in ORDER_BY_VALUE:
        # (the front end folds a const object of enumeration type into its value and keeps the object's name)
        for k, val in ORDER_BY_VALUE.items():
            if val == x.get("v"):
                return k
    if x is not None and x["k"] == "var" and x.get("sc") in ("global", "slocal") and P is not None:
        g = P.globals.get(x["n"]) or {}
        if g.get("const") and isinstance(g.get("init"), dict):
            if g["init"].get("name"):
                return g["init"]["name"]
            v = g["init"].get("int")
            for k, val in ORDER_BY_VALUE.items():
                if v is not None and P.enums.get(k, val) == v:
                    return k
    return f.show(n)


ORDER_BY_VALUE = {"aws_memory_order_relaxed": 0, "aws_memory_order_acquire": 2, "aws_memory_order_release": 3, "aws_memory_order_acq_rel": 4, "aws_memory_order_seq_cst": 5}
ORDER = {"aws_memory_order_relaxed": 0, "aws_memory_order_acquire": 2, "aws_memory_order_release": 3, "aws_memory_order_acq_rel": 4, "aws_memory_order_seq_cst": 5}

DECIDED = [
    "FREE-REGION: on every success path of acquire / acquire_up_to the vended range [base, base+n) lies inside the storage and inside the free region of the observed (head, tail) case - empty: starts at the storage start; tail>head: ends strictly before tail; tail<head: after head up to the end, or from the start ending strictly before tail - for all pointer values and sizes (NUM)",
    "HEAD-ADVANCE: the head published equals base+n of the buffer handed out; n equals the requested size (acquire) or lies between minimum and requested (acquire_up_to)",
    "AVAILABLE: after head and tail have been read, a request is refused only when it does not fit the free region of the observed case; in particular an idle ring (head == tail) refuses only sizes larger than its whole capacity (NUM on every refusal path)",
    "SINGLE-WRITER: head is stored only by the acquire functions and init; tail only by release, init and the acquire functions' empty case (under head == tail)",
    "MEMORY-ORDER: tail is loaded with acquire (or stronger) by the acquirer and stored with release (or stronger); release publishes buffer+capacity of the buffer it then zeroes",
] + list(atomics_map.DECIDED)
NOT_DECIDED = ["interleavings of the two threads (the rules decide what each side does with the values it observed)"]
ASSUMPTIONS = ["acquire_up_to is called with minimum_size <= requested_size", "ring buffer valid at entry: allocation <= head, tail <= allocation_end (aws_ring_buffer_is_valid)", "one acquirer thread, one releaser thread, FIFO release (documented contract)"]


class RingHooks(AwsHooks):
    def entry(self, num, st):
        ps = {p["n"]: p["t"] for p in num.fn.params}
        if "minimum_size" in ps and "requested_size" in ps:
            mn = num.read({"k": "var", "n": "minimum_size", "sc": "param", "t": ps["minimum_size"], "id": -1}, st)
            rq = num.read({"k": "var", "n": "requested_size", "sc": "param", "t": ps["requested_size"], "id": -1}, st)
            st.add(mn - rq)  # caller contract: minimum_size <= requested_size

    def _field(self, num, node):
        x = RU.strip_addr(num.fn, node)
        if x is not None and x["k"] == "member" and x.get("rec") == RB:
            return x["f"], x
        return None, None

    def s_aws_atomic_load_ptr_explicit(self, num, st, e, args):
        f, x = self._field(num, e["a"][0])
        a = num.fresh(st, "atomic_" + (f or "ptr"), None, (0, 2 ** 64 - 1))
        v = Poly.atom(a)
        if f in ("head", "tail"):
            base = num.val(num.fn.d(x["a"][0]), st)
            A = num.field(st, "(%r)->allocation" % base, RB, "allocation")
            E = num.field(st, "(%r)->allocation_end" % base, RB, "allocation_end")
            st.add(A - v)
            st.add(v - E)
            st.add(A - E)
            st.notes.setdefault("atomic_loads", {})[f] = (a, num.fn.show(e["a"][1]), e.get("loc", [0])[0])
        return v

    s_aws_atomic_load_ptr = s_aws_atomic_load_ptr_explicit

    def s_aws_atomic_store_ptr_explicit(self, num, st, e, args):
        f, x = self._field(num, e["a"][0])
        st.notes.setdefault("atomic_stores", []).append((f, args[1], num.fn.show(e["a"][2]) if len(e["a"]) > 2 else "aws_memory_order_seq_cst", e.get("loc", [0])[0]))
        return None

    s_aws_atomic_store_ptr = s_aws_atomic_store_ptr_explicit
    s_aws_atomic_init_ptr = s_aws_atomic_store_ptr_explicit


def init_rule(R, P):
    """INIT (under FREE-REGION): after a successful aws_ring_buffer_init the ring described by [allocation, allocation_end)
    is exactly the block that was allocated - allocation_end - allocation equals the size acquired - and head and tail start
    at allocation (NUM, all sizes)."""
    f = P.fn("aws_ring_buffer_init")
    if not R.require(f is not None, "aws_ring_buffer_init not found"):
        return
    R.fn(f)
    num = Num(f, P, RingHooks(), max_paths=4000)
    rets = [x for b in f.blocks.values() for x in b.elems if x["k"] == "ret"]
    try:
        sts = num.states_at({r["id"] for r in rets})
    except Limit as ex:
        R.broken(str(ex))
        return
    ok, det, cnt = True, "", 0
    for r in rets:
        for st in sts.get(r["id"], []):
            rv = num.val(r["a"][0], st)
            if not (rv is not None and rv.is_const() and rv.cval() == 0):
                continue
            cnt += 1
            A = [v for k, v in st.env.items() if k.endswith(")->allocation")]
            E = [v for k, v in st.env.items() if k.endswith(")->allocation_end")]
            if len(A) != 1 or len(E) != 1 or len(A[0].t) != 1:
                ok, det = False, "allocation / allocation_end not tracked"
                continue
            ext = st.extent.get(list(A[0].t)[0][0])
            if ext is None or not (entails(st, E[0] - A[0] - ext) and entails(st, ext - (E[0] - A[0]))):
                ok, det = False, "allocation_end - allocation = %r, the block allocated has %r bytes" % (E[0] - A[0], ext)
            stores = st.notes.get("atomic_stores", [])
            for fld in ("head", "tail"):
                vs = [s[1] for s in stores if s[0] == fld]
                if not vs or not all(v is not None and v == A[0] for v in vs):
                    ok, det = False, "%s does not start at allocation" % fld
    R.check(ok and cnt >= 1, "FREE-REGION", "init:ring-is-the-allocated-block", "%s()" % f.name, "allocation_end - allocation == size of the block acquired; head = tail = allocation (%d states)" % cnt,
            "the ring's end does not match the block that was allocated (%s): buffers are handed out beyond the storage" % det)


def analyse(ctx, replace=None, only=None):
    R = ctx.R
    P = ctx.program([FILE], "ship", replace=replace)
    fns = {f.name: f for f in P.functions_in("source/ring_buffer.c")}
    for n in ("aws_ring_buffer_acquire", "aws_ring_buffer_acquire_up_to", "aws_ring_buffer_release", "aws_ring_buffer_init"):
        if not R.require(n in fns, "anchor function %s not found" % n):
            return
    for f in fns.values():
        R.fn(f)
    init_rule(R, P)
    atomics_map.atomics_map(R, P)
    if only and only.get("atomics"):
        return
    n_paths = 0
    n_refused = [0]
    for name in ("aws_ring_buffer_acquire", "aws_ring_buffer_acquire_up_to"):
        f = fns[name]
        num = Num(f, P, RingHooks())
        rets = [e for b in f.blocks.values() for e in b.elems if e["k"] == "ret"]
        try:
            states = num.states_at({r["id"] for r in rets})
        except Limit as ex:
            R.broken(str(ex))
            continue
        for r in rets:
            for st in states.get(r["id"], []):
                v = num.val(r["a"][0], st)
                if v is None or not v.is_const() or v.cval() != 0:
                    # failure return: nothing published
                    if v is not None and v.is_const():
                        R.check(not st.notes.get("atomic_stores"), "SINGLE-WRITER", "%s:failure-publishes-nothing" % name, "%s:%d" % (FILE, r["loc"][0]), "a failing acquire stores neither head nor tail",
                                "a failing acquire has already stored %s" % [(s[0], repr(s[1])) for s in st.notes.get("atomic_stores", [])])
                        # AVAILABLE: once head and tail have been read, a request is refused only when it does not fit
                        loads = st.notes.get("atomic_loads", {})
                        rb = st.env.get("v:ring_buf")
                        if "head" in loads and "tail" in loads and rb is not None:
                            H, T = Poly.atom(loads["head"][0]), Poly.atom(loads["tail"][0])
                            A = num.field(st, "(%r)->allocation" % rb, RB, "allocation")
                            E = num.field(st, "(%r)->allocation_end" % rb, RB, "allocation_end")
                            need = st.env.get("v:requested_size") if name.endswith("acquire") else st.env.get("v:minimum_size")
                            loc = "%s:%d in %s()" % (FILE, r["loc"][0], name)
                            n_refused[0] += 1
                            if need is None:
                                R.fail("AVAILABLE", "%s:refusal" % name, loc, "the refused size is not tracked")
                            elif not (entails(st, H - T) or entails(st, T - H)):
                                # refused before the three cases were told apart: the refusal has to be right in each of them
                                for op_, inst_, conds_ in (("==", "empty-ring-refuses-only-larger-than-capacity", lambda s_: entails(s_, E - A + 1 - need)),
                                                           ("<", "tail-ahead-refuses-only-when-no-room", lambda s_: entails(s_, T - H - need)),
                                                           (">", "head-ahead-refuses-only-when-no-room", lambda s_: entails(s_, E - H + 1 - need) and entails(s_, T - A - need))):
                                    for s_ in num.assume_cmp(op_, H, T, st.copy()):
                                        R.check(conds_(s_), "AVAILABLE", "%s:%s" % (name, inst_), loc, "an early refusal is justified in the `head %s tail` case" % op_,
                                                "a request (size %r) is refused before the ring's state was looked at, also when head %s tail and it would fit (ring %r): with nothing outstanding not every request up to the capacity succeeds" % (need, op_, E - A))
                            elif entails(st, H - T) and entails(st, T - H):
                                R.check(entails(st, E - A + 1 - need), "AVAILABLE", "%s:empty-ring-refuses-only-larger-than-capacity" % name, loc, "with nothing outstanding a request is refused only when it exceeds the whole ring",
                                        "an idle ring refuses a request that fits (size %r, ring %r): not every request up to the capacity succeeds" % (need, E - A))
                            elif entails(st, H - T + 1):
                                R.check(entails(st, T - H - need), "AVAILABLE", "%s:tail-ahead-refuses-only-when-no-room" % name, loc, "refused only when size >= tail - head (one byte of slack)",
                                        "refused although the gap before tail is large enough (size %r, gap %r)" % (need, T - H))
                            elif entails(st, T - H + 1):
                                R.check(entails(st, E - H + 1 - need) and entails(st, T - A - need), "AVAILABLE", "%s:head-ahead-refuses-only-when-no-room" % name, loc, "refused only when size > end - head and size >= tail - start",
                                        "refused although the space after head or before tail is large enough (size %r)" % need)
                    continue
                n_paths += 1
                loc = "%s:%d in %s()" % (FILE, r["loc"][0], name)
                loads = st.notes.get("atomic_loads", {})
                stores = st.notes.get("atomic_stores", [])
                rb = st.env.get("v:ring_buf")
                dst = st.env.get("v:dest")
                if not R.require("head" in loads and "tail" in loads and rb is not None and dst is not None, "%s: head/tail loads not found on a success path" % name):
                    continue
                H, T = Poly.atom(loads["head"][0]), Poly.atom(loads["tail"][0])
                A = num.field(st, "(%r)->allocation" % rb, RB, "allocation")
                E = num.field(st, "(%r)->allocation_end" % rb, RB, "allocation_end")
                base = st.env.get("(%r)->buffer" % dst)
                n = st.env.get("(%r)->capacity" % dst)
                ln = st.env.get("(%r)->len" % dst)
                if not R.check(base is not None and n is not None, "HEAD-ADVANCE", "%s:buffer-handed-out" % name, loc, "a buffer is written to *dest", "success without writing *dest"):
                    continue
                hs = [s for s in stores if s[0] == "head"]
                R.check(len(hs) == 1 and hs[0][1] is not None and hs[0][1] == base + n, "HEAD-ADVANCE", "%s:head=base+n" % name, loc, "head published = base + n",
                        "the head published is %r but the buffer handed out is [%r, +%r): head and vended range disagree" % (hs[0][1] if hs else None, base, n))
                R.check(ln is not None and ln.is_const() and ln.cval() == 0, "HEAD-ADVANCE", "%s:empty-buffer" % name, loc, "vended buffer has len 0")
                req = st.env.get("v:requested_size")
                if name.endswith("acquire"):
                    R.check(req is not None and n == req, "HEAD-ADVANCE", "%s:exact-size" % name, loc, "n = requested_size", "vended size %r differs from the requested size" % n)
                else:
                    mn = st.env.get("v:minimum_size")
                    R.check(req is not None and mn is not None and entails(st, mn - n) and entails(st, n - req), "HEAD-ADVANCE", "%s:size-in-range" % name, loc, "minimum <= n <= requested",
                            "vended size %r is not provably within [minimum, requested]" % n)
                # FREE-REGION by observed case
                inside = entails(st, A - base) and entails(st, base + n - E)
                R.check(inside, "FREE-REGION", "%s:inside-storage" % name, loc, "allocation <= base and base+n <= allocation_end",
                        "the vended range [%r, +%r) is not provably inside the ring's storage" % (base, n))
                if entails(st, H - T) and entails(st, T - H):
                    ok = base == A or (entails(st, base - A) and entails(st, A - base))
                    ts_ = [s for s in stores if s[0] == "tail"]
                    ok = ok and len(ts_) == 1 and ts_[0][1] is not None and ts_[0][1] == A
                    R.check(ok, "FREE-REGION", "%s:empty-case" % name, loc, "nothing outstanding: vend from the start and reset tail to the start",
                            "empty case does not vend from the storage start / does not reset tail to it")
                elif entails(st, H - T + 1):  # H < T
                    ok = base == H and entails(st, base + n - T + 1)
                    R.check(ok, "FREE-REGION", "%s:tail-ahead-case" % name, loc, "base = head and base+n < tail (one byte of slack keeps full distinguishable from empty)",
                            "with tail ahead of head the vended range [%r, +%r) can reach or pass tail = %r: it overlaps an unreleased buffer or makes a full ring look empty" % (base, n, T))
                    R.check(not [s for s in stores if s[0] == "tail"], "SINGLE-WRITER", "%s:tail-untouched" % name, loc, "acquirer does not store tail while buffers are outstanding")
                elif entails(st, T - H + 1):  # T < H
                    ok1 = base == H and entails(st, base + n - E)
                    ok2 = (base == A or (entails(st, base - A) and entails(st, A - base))) and entails(st, base + n - T + 1)
                    R.check(ok1 or ok2, "FREE-REGION", "%s:head-ahead-case" % name, loc, "after head up to the end, or from the start ending strictly before tail",
                            "with head ahead of tail the vended range [%r, +%r) is neither [head, <=end) nor [start, <tail): it overlaps an unreleased buffer" % (base, n))
                    R.check(not [s for s in stores if s[0] == "tail"], "SINGLE-WRITER", "%s:tail-untouched" % name, loc, "acquirer does not store tail while buffers are outstanding")
                else:
                    R.fail("FREE-REGION", "%s:case-known" % name, loc, "a success path is reached without knowing the relative position of head and tail")
    R.require(n_paths >= 10, "only %d success paths analysed (confirmed: 4 + 6)" % n_paths)
    R.require(n_refused[0] >= 4, "only %d refusal paths analysed" % n_refused[0])

    # SINGLE-WRITER / MEMORY-ORDER (syntactic, whole file)
    allowed = {"head": {"aws_ring_buffer_acquire", "aws_ring_buffer_acquire_up_to", "aws_ring_buffer_init"},
               "tail": {"aws_ring_buffer_acquire", "aws_ring_buffer_acquire_up_to", "aws_ring_buffer_init", "aws_ring_buffer_release"}}
    n = 0
    for name, f in sorted(fns.items()):
        for e in f.calls({"aws_atomic_store_ptr_explicit", "aws_atomic_store_ptr", "aws_atomic_init_ptr", "aws_atomic_exchange_ptr", "aws_atomic_exchange_ptr_explicit"}):
            x = RU.strip_addr(f, RU.arg(f, e.node, 0))
            if x is None or x["k"] != "member" or x.get("rec") != RB:
                continue
            n += 1
            R.check(name in allowed.get(x["f"], set()), "SINGLE-WRITER", "%s-stored-in:%s" % (x["f"], name), where(f, e), "%s stored by its owner" % x["f"],
                    "%s is stored by %s: the single-writer discipline of the ring is broken" % (x["f"], name))
            if x["f"] == "tail" and name != "aws_ring_buffer_init":
                o = _order_name(f, P, RU.arg(f, e.node, 2)) if len(e.node["a"]) > 2 else "aws_memory_order_seq_cst"
                R.check(ORDER.get(o, -1) >= 3, "MEMORY-ORDER", "tail-store:%s" % name, where(f, e), "tail stored with %s" % o,
                        "tail is stored with %s: the acquirer may see the new tail before the releaser's last use of the buffer" % o)
        for e in f.calls({"aws_atomic_load_ptr_explicit", "aws_atomic_load_ptr"}):
            x = RU.strip_addr(f, RU.arg(f, e.node, 0))
            if x is not None and x["k"] == "member" and x.get("rec") == RB and x["f"] == "tail" and name.startswith("aws_ring_buffer_acquire"):
                o = _order_name(f, P, RU.arg(f, e.node, 1)) if len(e.node["a"]) > 1 else "aws_memory_order_seq_cst"
                R.check(ORDER.get(o, -1) in (2, 4, 5), "MEMORY-ORDER", "tail-load:%s" % name, where(f, e), "tail loaded with %s" % o,
                        "tail is loaded with %s: the acquirer may hand out memory the releaser is still reading" % o)
    R.require(n >= 8, "only %d head/tail stores found" % n)
    f = fns["aws_ring_buffer_release"]
    st_ = [e for e in f.calls("aws_atomic_store_ptr_explicit")]
    zs = [e for e in f.calls({"memset", "__builtin_memset"})]
    R.check(len(st_) == 1 and f.show(RU.arg(f, st_[0].node, 1), alias=True) == "(buf->buffer + buf->capacity)", "MEMORY-ORDER", "release:publishes-end-of-buffer", where(f, st_[0]) if st_ else f.name,
            "tail := buffer + capacity of the released buffer", "release publishes %s" % (f.show(RU.arg(f, st_[0].node, 1)) if st_ else None))
    R.check(len(zs) == 1 and st_ and ev_dominates(f, st_[0], zs[0]), "MEMORY-ORDER", "release:publish-before-zeroing", where(f, zs[0]) if zs else f.name, "the end is read and published before the caller's buffer is zeroed",
            "the buffer is zeroed before its end is published (tail would be set to NULL+0)")


    # every release moves the tail: a return that skips the store leaves the released bytes unavailable for good
    from sa.cfg import Typestate as _TS
    ts_ = _TS(f, 0, lambda e, s: 1 if any(e is s_ for s_ in st_) else s)
    R.check(bool(st_) and ts_.exit_states == {1}, "AVAILABLE", "release:every-path-publishes", "%s()" % f.name, "every path through release stores the new tail",
            "aws_ring_buffer_release can return without storing the tail (exit states %s): a buffer released on that path stays accounted as outstanding, the capacity never comes back" % sorted(ts_.exit_states))


MUTANTS = [dict(_m, scope={"atomics": True}) for _m in atomics_map.MUTANTS] + [
    {"name": "release-drops-a-whole-ring-buffer", "file": FILE, "expect": "AVAILABLE", "old": "    AWS_ATOMIC_STORE_TAIL_PTR(ring_buffer, buf->buffer + buf->capacity);\n    AWS_ZERO_STRUCT(*buf);", "new": "    if (buf->capacity >= (size_t)(ring_buffer->allocation_end - ring_buffer->allocation)) {\n        return;\n    }\n    AWS_ATOMIC_STORE_TAIL_PTR(ring_buffer, buf->buffer + buf->capacity);\n    AWS_ZERO_STRUCT(*buf);"},
    {"name": "ring-end-rounded-up-past-the-block", "file": FILE, "expect": "FREE-REGION", "old": "    ring_buf->allocation_end = ring_buf->allocation + size;", "new": "    ring_buf->allocation_end = ring_buf->allocation + ((size + sizeof(void *) - 1) & ~(sizeof(void *) - 1));"},
    {"name": "idle-ring-refuses-full-capacity", "file": FILE, "expect": "AVAILABLE", "old": "        if (requested_size > ring_space) {", "new": "        if (requested_size >= ring_space) {"},
    {"name": "tail-ahead-no-slack", "file": FILE, "expect": "FREE-REGION", "old": "        size_t space = tail_cpy - head_cpy - 1;\n", "new": "        size_t space = tail_cpy - head_cpy;\n"},
    {"name": "wrap-reaches-tail", "file": FILE, "expect": "FREE-REGION",
     "old": "        if ((size_t)(tail_cpy - ring_buf->allocation) > requested_size) {", "new": "        if ((size_t)(tail_cpy - ring_buf->allocation) >= requested_size) {"},
    {"name": "head-advanced-by-wrong-size", "file": FILE, "expect": "HEAD-ADVANCE",
     "old": "            AWS_ATOMIC_STORE_HEAD_PTR(ring_buf, head_cpy + returnable_size);", "new": "            AWS_ATOMIC_STORE_HEAD_PTR(ring_buf, head_cpy + requested_size);"},
    {"name": "up-to-below-minimum", "file": FILE, "expect": "HEAD-ADVANCE", "old": "        if (tail_space > minimum_size) {", "new": "        if (tail_space >= minimum_size) {"},
    {"name": "tail-store-relaxed", "file": FILE, "expect": "MEMORY-ORDER",
     "old": "    AWS_ATOMIC_STORE_PTR(ring_buf, &(ring_buf)->tail, src_ptr, aws_memory_order_release);", "new": "    AWS_ATOMIC_STORE_PTR(ring_buf, &(ring_buf)->tail, src_ptr, aws_memory_order_relaxed);"},
    {"name": "tail-load-relaxed", "file": FILE, "expect": "MEMORY-ORDER",
     "old": "    AWS_ATOMIC_LOAD_PTR(ring_buf, dest_ptr, &(ring_buf)->tail, aws_memory_order_acquire);", "new": "    AWS_ATOMIC_LOAD_PTR(ring_buf, dest_ptr, &(ring_buf)->tail, aws_memory_order_relaxed);"},
    {"name": "release-zeroes-first", "file": FILE, "expect": "MEMORY-ORDER",
     "old": "    AWS_ATOMIC_STORE_TAIL_PTR(ring_buffer, buf->buffer + buf->capacity);\n    AWS_ZERO_STRUCT(*buf);", "new": "    uint8_t *end = buf->buffer + buf->capacity;\n    AWS_ZERO_STRUCT(*buf);\n    AWS_ATOMIC_STORE_TAIL_PTR(ring_buffer, end - end + buf->buffer + buf->capacity);"},
    {"name": "empty-case-from-head", "file": FILE, "expect": "FREE-REGION",
     "old": "        AWS_ATOMIC_STORE_HEAD_PTR(ring_buf, ring_buf->allocation + requested_size);\n        AWS_ATOMIC_STORE_TAIL_PTR(ring_buf, ring_buf->allocation);\n        *dest = aws_byte_buf_from_empty_array(ring_buf->allocation, requested_size);",
     "new": "        AWS_ATOMIC_STORE_HEAD_PTR(ring_buf, head_cpy + requested_size);\n        *dest = aws_byte_buf_from_empty_array(head_cpy, requested_size);"},
]
