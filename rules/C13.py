"""C13 - URI parsing, building and percent-coding are mutually consistent (DESIGN.md section 4, C13)."""
from sa import rules as RU
from sa.awslib import in_bounds
from sa.bounds import access_sites, addr_size
from sa.cfg import dominators, ev_dominates
from sa.extract import library_units
from sa.num import Num, Poly, Limit, State, entails
from sa.rules import argstr, where
from rules import C04

FILE = "source/uri.c"
COMPONENTS = ("scheme", "authority", "userinfo", "user", "password", "host_name", "path", "query_string", "path_and_query")

DECIDED = [
    "OWN-COPY: both constructors parse the URI object's own copy of the text (copy / build into uri->uri_str first, then parse a cursor made from that buffer); a failed parse releases the copy and zeroes the object",
    "VIEW: every component view a state function stores (scheme, authority, userinfo, user, password, host_name, path, query_string, path_and_query) is {NULL,0} or lies inside the text being parsed, for all inputs (NUM); same for the key/value views of the query iterator",
    "STATE: the driver loop runs while state < FINISHED, every state function assigns a later state on every feasible path and raises when it sets ERROR (shared with C04)",
    "HOST-CURSOR: after the user-info has been split off, host / port parsing reads only bytes after the '@'",
    "DELIM: the authority ends at the first of the delimiters the parser searches for ('/' and '?'): the end handed to the split lies at or before every delimiter found (NUM) - a '/' inside the query does not move the split",
    "BUILDER: the builder's size estimate covers every piece appended before the parameter list (NUM: each such append has room); the per-parameter estimate term covers the per-parameter appends (accounting agreement of the two loops over the list); the built text is re-parsed by the same parser",
    "ENCODER: the worst-case reservation makes the raw-pointer appenders safe (C04 REQUIRES/SUMMARY on uri.c); an input byte is stored unescaped only under isalnum or an unreserved-character case label ('/' only in the path encoder); every other byte stored is '%' or an upper-case hex digit (NUM range of s_to_uppercase_hex for arguments < 16); the decoder's hex table maps exactly those digits back",
    "QUERY: the list form is a loop over the iterator pushing each pair it yields; the iterator skips empty pairs and splits at the first '='; inductively over calls (NUM) every yielded pair spans exactly the substring that was split and the substring handed back to the splitter on the next call is exactly that pair",
    "DECODER (reported under ENCODER): no result of the hex-digit read is dropped and no rejection depends on the decoded byte's value (every byte value decodes)",
    "PORT (reported under VIEW): a port whose digits parsed is refused only above UINT32_MAX and the narrowing store sees a value that fits (NUM)",
]
NOT_DECIDED = ["that the component contents equal the generating components (needs the byte values: only the delimiter-structure rules above are decided)", "round-trip equality of encode/decode on contents beyond the table agreement",
               "wrap-around of the builder's size sum for views longer than 2^56 bytes"]
ASSUMPTIONS = list(C04.ASSUMPTIONS) + ["views handed to the builder are shorter than 2^56 bytes (their sum does not wrap)"]


NEST = {"s_parse_authority": (("userinfo", "authority"), ("user", "userinfo"), ("password", "userinfo"), ("host_name", "authority")), "s_parse_path": (("path", "path_and_query"),)}


class BuilderHooks(C04.ParserHooks):
    """C04 hooks + the record of every aws_byte_buf_append into the URI text with the room available at that point"""

    # the size sum only grows: unsigned additions of lengths, assumed not to wrap (ASSUMPTIONS)
    monotone_keys = {("aws_uri_init_from_builder_options", "v:buffer_size")}

    def fresh_field(self, num, st, key, rec, f, atom):
        C04.ParserHooks.fresh_field(self, num, st, key, rec, f, atom)
        if rec == "aws_byte_cursor" and f == "len":
            st.add(Poly.atom(atom) - 2 ** 56)

    def call(self, num, st, e, args):
        if e.get("callee") == "aws_byte_buf_append" and args[0] is not None and args[1] is not None:
            bb, cb = self._cbase(num, st, e, 0, args), self._cbase(num, st, e, 1, args)
            ln = num.field(st, bb + "len", "aws_byte_buf", "len")
            cap = num.field(st, bb + "capacity", "aws_byte_buf", "capacity")
            fl = num.field(st, cb + "len", "aws_byte_cursor", "len")
            ok = entails(st, ln + fl - cap)
            num.__dict__.setdefault("appends", []).append((e, ok, repr(ln + fl), repr(cap)))
            # effect (C01): with room, len grows by the piece; without, nothing changes
            if ok:
                st.env[bb + "len"] = ln + fl
            else:
                a = Poly.atom(num.fresh(st, "len_after_append", None, (0, 2 ** 64 - 1)))
                st.add(ln - a)
                st.add(a - ln - fl)
                st.add(a - cap)
                st.env[bb + "len"] = a
            num.cell_store(st, st.env.get(bb + "buffer"))
            t = num.ty(e)
            return Poly.const(0) if ok else Poly.atom(num.fresh(st, "append", t, (-1, 0)))
        if e.get("callee") in ("snprintf", "__builtin___snprintf_chk") and len(e.get("a", [])) >= 3:
            # the text printed into a local array that holds its longest rendering (BUILDER number-text-fits decides that)
            # is shorter than the array: the result is the number of characters written, below the size handed in
            sz = num.fn.is_const(RU.uncast(num.fn, e["a"][1]))
            r = C04.ParserHooks.call(self, num, st, e, args)
            if sz is not None and sz >= 1:
                a = Poly.atom(num.fresh(st, "printed", None, (0, sz - 1)))
                return a
            return r
        return C04.ParserHooks.call(self, num, st, e, args)


def own_copy(R, P):
    p = P.fn("aws_uri_init_parse")
    b = P.fn("aws_uri_init_from_builder_options")
    s = P.fn("s_init_from_uri_str")
    if not R.require(p and b and s, "URI constructors not found"):
        return
    for f in (p, b, s):
        R.fn(f)
    cp = p.calls("aws_byte_buf_init_copy_from_cursor")
    ps = p.calls("s_init_from_uri_str")
    R.check(len(cp) == 1 and len(ps) == 1 and argstr(p, cp[0].node, 0) == "uri->uri_str" and not RU.must_precede(p, cp, ps), "OWN-COPY", "aws_uri_init_parse:copy-then-parse",
            where(p, ps[0]) if ps else p.name, "the input is copied into uri->uri_str before it is parsed", "aws_uri_init_parse does not parse a private copy of the text")
    t = RU.call_test
    # the copy's failure is returned before parsing
    g = [c for c, pol, blk in RU.guards(p, ps[0])] if ps else []
    R.check(any(RU.cond_call(p, c)[0] is cp[0].node for c in g) if cp and ps else False, "OWN-COPY", "aws_uri_init_parse:copy-failure-checked", where(p, cp[0]) if cp else p.name,
            "parsing happens only when the copy succeeded")
    mk = s.calls("aws_byte_cursor_from_buf")
    R.check(len(mk) == 1 and argstr(s, mk[0].node, 0) == "uri->uri_str", "OWN-COPY", "s_init_from_uri_str:cursor-over-own-buffer", where(s, mk[0]) if mk else s.name,
            "the parser's cursor is made from uri->uri_str", "the parser does not walk the URI object's own buffer")
    ind = s.indirect_calls()
    if not ind:
        ind = [c for nm in ("s_parse_scheme", "s_parse_authority", "s_parse_path", "s_parse_query_string") for c in s.calls(nm)]  # switch dispatch
    R.check(len(ind) >= 1 and all("&uri_cur" in s.show(c.node) for c in ind) and len(ind) in (1, 4), "OWN-COPY", "s_init_from_uri_str:states-get-that-cursor", where(s, ind[0]) if ind else s.name, "every state function is handed that cursor")
    cl = s.calls("aws_byte_buf_clean_up")
    zero = [e for e in s.calls({"memset", "__builtin_memset"}) if "uri" in s.show(e.node)]
    rets = [r for r in s.returns() if r.node["a"] and s.is_const(RU.uncast(s, r.node["a"][0])) == -1]
    R.check(len(cl) == 1 and zero and rets and all(ev_dominates(s, cl[0], r) and ev_dominates(s, zero[0], r) for r in rets), "OWN-COPY", "s_init_from_uri_str:failure-cleans-up",
            where(s, cl[0]) if cl else s.name, "a failed parse releases the copy and zeroes the object before returning the error")
    bs = b.calls("s_init_from_uri_str")
    bi = b.calls("aws_byte_buf_init")
    R.check(len(bs) == 1 and len(bi) == 1 and argstr(b, bi[0].node, 0) == "uri->uri_str" and all(r.node["a"] and ((RU.uncast(b, r.node["a"][0]) or {}).get("callee") in ("s_init_from_uri_str", "aws_raise_error") or b.is_const(RU.uncast(b, r.node["a"][0])) == -1) for r in b.returns()),
            "BUILDER", "builder:reparsed", where(b, bs[0]) if bs else b.name, "every successful return of the builder is the result of parsing the text it built")


def views(R, P):
    hooks = C04.ParserHooks()
    for name in ("s_parse_scheme", "s_parse_authority", "s_parse_path", "s_parse_query_string"):
        f = P.fn(name)
        if not R.require(f is not None, "%s not found" % name):
            continue
        R.fn(f)
        num = Num(f, P, hooks, max_paths=20000)
        st0 = State()
        sp = C04._param(num, st0, 1)
        sbase = num.base_of(st0, sp)
        ptr0 = num.field(st0, sbase + "ptr", "aws_byte_cursor", "ptr")
        (obj,) = [m[0] for m in ptr0.t]
        try:
            exits = num.states_at({-1}, entry_state=st0).get(-1, [])
        except Limit as ex:
            R.broken("NUM trace limit in %s: %s" % (name, ex))
            continue
        R.require(bool(exits), "%s: no exit state" % name)
        seen = {}
        for st in exits:
            for k, v in st.env.items():
                m = st.meta.get(k)
                if not (k.endswith(".ptr") and m and m[0] == "aws_byte_cursor") or k.startswith("v:") or k.startswith(sbase):
                    continue
                comp = k[k.index(")->") + 3:-4] if ")->" in k else None
                if comp not in COMPONENTS:
                    continue
                o = st.notes.get("orig", {}).get(k)
                o2 = st.notes.get("orig", {}).get(k[:-3] + "len")
                if o is not None and v == Poly.atom(o) and (o2 is None or st.env.get(k[:-3] + "len") == Poly.atom(o2)):
                    continue  # read but not stored by this function on this path
                ln = st.env.get(k[:-3] + "len")
                if ln is None:
                    verdict = "length not tracked"
                elif entails(st, v) and entails(st, -v) and entails(st, ln) and entails(st, -ln):
                    verdict = None
                else:
                    r = in_bounds(st, v, ln)
                    verdict = None if (r[0] == "ok" and r[2] == obj) else (r[1] if r[0] != "ok" else "inside a different object than the text")
                cur = seen.setdefault(comp, [0, None])
                cur[0] += 1
                if verdict and cur[1] is None:
                    cur[1] = verdict + " | branch trail " + str(st.trail[-6:])
        # nesting: a sub-component stored here lies inside the component it is part of
        for child, parent in NEST.get(name, ()):
            nn, badn = 0, None
            for st in exits:
                def get(c_):
                    ks = [k for k in st.env if k.endswith(")->%s.ptr" % c_) and not k.startswith("v:")]
                    if len(ks) != 1:
                        return None
                    return st.env[ks[0]], st.env.get(ks[0][:-3] + "len"), ks[0]
                cc, pp = get(child), get(parent)
                if cc is None or pp is None or cc[1] is None or pp[1] is None:
                    continue
                o = st.notes.get("orig", {}).get(cc[2])
                if (o is not None and cc[0] == Poly.atom(o)) or (entails(st, cc[0]) and entails(st, -cc[0])):
                    continue  # not stored on this path, or NULL
                nn += 1
                if not (entails(st, pp[0] - cc[0]) and entails(st, cc[0] + cc[1] - pp[0] - pp[1])):
                    badn = "[%r, +%r) is not inside [%r, +%r) | branch trail %s" % (cc[0], cc[1], pp[0], pp[1], st.trail[-6:])
            R.check(nn > 0 and badn is None, "VIEW", "%s:%s-inside-%s" % (name, child, parent), "%s()" % name, "uri->%s lies inside uri->%s in all %d exit states that store it" % (child, parent, nn),
                    "uri->%s can extend beyond uri->%s: %s" % (child, parent, badn))
        for comp, (n, bad) in sorted(seen.items()):
            R.check(bad is None, "VIEW", "%s:%s" % (name, comp), "%s()" % name, "uri->%s is {NULL,0} or inside the parsed text in all %d exit states" % (comp, n),
                    "uri->%s can point outside the text being parsed: %s" % (comp, bad))
        R.require(bool(seen) or name == "zz", "%s stores no component view" % name)
    # query iterator
    f = P.fn("aws_query_string_next_param")
    if R.require(f is not None, "aws_query_string_next_param not found"):
        R.fn(f)
        num = Num(f, P, hooks, max_paths=20000)
        num.track_progress = True
        rets = [x for b in f.blocks.values() for x in b.elems if x["k"] == "ret"]
        try:
            sts = num.states_at({r["id"] for r in rets})
        except Limit as ex:
            R.broken(str(ex))
            sts = {}
        n = 0
        bad = None
        for r in rets:
            for st in sts.get(r["id"], []):
                rv = num.val(r["a"][0], st)
                if rv is None or not rv.is_const() or rv.cval() == 0:
                    continue
                qp = st.env.get("v:query_string.ptr")
                for part in ("key", "value"):
                    ks = [k for k in st.env if k.endswith(")->%s.ptr" % part)]
                    for k in ks:
                        n += 1
                        v, ln = st.env[k], st.env.get(k[:-3] + "len")
                        rr = in_bounds(st, v, ln) if ln is not None else ("fail", "length not tracked")
                        if rr[0] != "ok" or (qp is not None and rr[2] not in qp.atoms()):
                            bad = "%s: %s | %s" % (part, rr[1], st.trail[-5:])
        R.check(n >= 2 and bad is None, "VIEW", "aws_query_string_next_param:key-value", "%s()" % f.name, "key and value views lie inside the query string in all %d yielded states" % n,
                "a yielded key/value view can leave the query string: %s" % bad)


def host_cursor(R, P):
    f = P.fn("s_parse_authority")
    if not R.require(f is not None, "s_parse_authority not found"):
        return
    num = Num(f, P, C04.ParserHooks(), max_paths=20000)
    sites = access_sites(f)
    # everything evaluated from the declaration of port_search_start on is host / port parsing
    decl = [e for e in f.all_events() if e.kind == "decl" and any(v["n"].split("$")[-1] == "port_search_start" for v in e.node["vars"])]  # (also in an expanded helper)
    if not R.require(len(decl) == 1, "s_parse_authority: host parsing anchor (port_search_start) not found"):
        return
    after = RU.reach_from(f, decl[0])
    after_ids = set()
    for ev in after:
        for n in f.walk(ev.node):
            if "id" in n:
                after_ids.add(n["id"])
    sel = [s for s in sites if s[2].get("id") in after_ids or s[0] in after_ids]
    R.require(len(sel) >= 3, "only %d host-parsing accesses found in s_parse_authority" % len(sel))
    try:
        states = num.states_at({s[0] for s in sel})
    except Limit as ex:
        R.broken(str(ex))
        return
    targets = set()
    for b_ in f.blocks.values():
        for el in b_.elems:
            for x in f.walk(el):
                if x["k"] == "bin" and x["op"] == "=":
                    targets.add(id(f.d(x["a"][0])))
    for eid, kind, n in sel:
        nst, bad = 0, None
        if id(n) in targets:
            continue  # a plain store (a result written through an out-parameter): the rule is about what is read
        for st in states.get(eid, []):
            d = next((v_ for k_, v_ in st.env.items() if k_.startswith("v:") and k_.split("$")[-1].split(":")[-1] == "userinfo_delim"), None)
            if d is None or not entails(st, Poly.const(1) - d):
                continue  # no user-info on this path
            s2 = st.copy()
            for (D, sz, mode) in addr_size(num, s2, kind, n):
                if D is None or mode == "w":
                    continue  # the rule is about what is read
                nst += 1
                if not entails(s2, d + 1 - D):
                    bad = "address %r is not after the '@' at %r" % (D, d)
        if nst:
            R.check(bad is None, "HOST-CURSOR", "s_parse_authority:%s" % f.show(n)[:50], where(f, n), "reads only after the '@' in all %d states with user-info" % nst,
                    "host / port parsing looks at user-info bytes: %s" % bad)


def builder(R, P):
    f = P.fn("aws_uri_init_from_builder_options")
    if not R.require(f is not None, "builder not found"):
        return
    R.fn(f)
    hooks = BuilderHooks()
    # the size estimate: the variable whose value becomes the capacity of the URI text, followed back through temporaries
    # (and through the result of an expanded helper) to the variable the `+=` accumulations are made on
    est_var = None
    ini = [e for e in f.calls("aws_byte_buf_init") if argstr(f, e.node, 0).endswith("uri_str")]
    if ini:
        x = RU.uncast(f, RU.arg(f, ini[0].node, 2))
        for _ in range(6):
            if x is None or x["k"] != "var":
                break
            acc = [e for e in f.all_events() if e.kind == "access" and e.mode == "rw" and e.node["k"] == "var" and e.node["n"] == x["n"]]
            if acc:
                est_var = x["n"]
                break
            nxt = f.aliases().get(x["n"])
            if nxt is None:
                di = [v.get("init") for e in f.all_events() if e.kind == "decl" for v in e.node["vars"] if v["n"] == x["n"] and v.get("init") is not None]
                nxt = di[0] if di else None
            if nxt is None:
                # a single assignment (an expanded helper's `result = <var>`)
                asg = [el["a"][1] for b in f.blocks.values() for el in b.elems if el["k"] == "bin" and el["op"] == "=" and (f.d(el["a"][0]) or {}).get("k") == "var" and f.d(el["a"][0])["n"] == x["n"]]
                nxt = asg[0] if len(asg) == 1 else None
            x = RU.uncast(f, nxt) if nxt is not None else None
    if not R.require(est_var is not None, "builder: the size estimate variable (capacity of uri_str) not found"):
        return
    hooks.monotone_keys = {(f.name, "v:" + est_var)}
    num = Num(f, P, hooks, max_paths=20000)
    try:
        num.states_at({-1})
    except Limit as ex:
        R.broken("NUM trace limit in the builder: %s" % ex)
        return
    loops = num.loops()
    inloop = set()
    for h, body in loops.items():
        inloop |= body
    by = {}
    for (e, ok, need, cap) in getattr(num, "appends", []):
        by.setdefault(e["id"], [e, [], None])
        by[e["id"]][1].append(ok)
        if not ok:
            by[e["id"]][2] = "needs %s, capacity %s" % (need, cap)
    n = 0
    for eid, (e, oks, why) in sorted(by.items()):
        blk = num.elem_of.get(eid, (None,))[0]
        piece = argstr(f, e, 1)
        if blk in inloop:
            continue  # per-parameter pieces: accounting rule below
        def _piece_text(pn):
            """the literal a cursor stands for: a local made by aws_byte_cursor_from_c_str("..") or a file-scope constant cursor"""
            pn = pn.lstrip("&")
            g_ = P.globals.get(pn)
            if g_ and isinstance(g_.get("init"), dict):
                return ((g_["init"].get("struct") or {}).get("ptr") or {}).get("str")
            for d_ in f.all_events():
                if d_.kind == "decl":
                    for v_ in d_.node["vars"]:
                        if v_["n"] == pn and v_.get("init") is not None:
                            c_ = RU.uncast(f, v_["init"])
                            if c_ is not None and c_["k"] == "call" and c_.get("callee") == "aws_byte_cursor_from_c_str":
                                a_ = RU.uncast(f, c_["a"][0])
                                while a_ is not None and a_["k"] == "decay":
                                    a_ = f.d(a_["a"][0])
                                if a_ is not None and a_["k"] == "str":
                                    return a_["v"]
            return None
        if _piece_text(piece) == "?" and any("query_params" in f.show(f.d(c)) for c, p, b in RU.guards(f, [x for x in f.calls("aws_byte_buf_append") if x.node is e][0])):
            R.assumed_sites.append({"site": "BUILDER:'?' before a parameter list", "reason": "room for '?' is reserved only when the list is non-empty; with an empty list the append may fail and the URI has no query part, which is what an empty list means"})
            continue
        n += 1
        R.check(all(oks), "BUILDER", "builder:room:%s" % piece, "%s:%d in %s()" % (FILE, e.get("loc", [0])[0], f.name), "the size estimate leaves room for %s in all %d states" % (piece, len(oks)),
                "the size estimate does not cover this piece (%s): the append fails silently and the built URI is truncated" % why)
    R.require(n >= 6, "only %d builder appends outside the parameter loop were analysed" % n)
    # accounting agreement of the two loops over query_params
    est, app = None, None
    for h, body in loops.items():
        calls = [e for e in f.calls("aws_byte_buf_append") if e.blk in body]
        adds = [e for e in f.all_events() if e.kind == "access" and e.mode == "rw" and e.node["k"] == "var" and e.node["n"] == est_var and e.blk in body]
        if calls:
            app = (h, calls)
        elif adds:
            est = (h, adds)
    if not R.require(est is not None and app is not None, "builder: estimate loop / append loop over the parameter list not found"):
        return
    # estimate term: buffer_size += E
    inc = None
    for b in loops[est[0]]:
        for el in f.blocks[b].elems:
            for x in f.walk(el):
                if x["k"] == "bin" and x["op"] == "+=" and (f.d(x["a"][0]) or {}).get("k") == "var" and f.d(x["a"][0])["n"] == est_var:
                    inc = f.d(x["a"][1])

    def terms(n, out, const):
        n = RU.uncast(f, n)
        if n["k"] == "bin" and n["op"] == "+":
            terms(n["a"][0], out, const)
            terms(n["a"][1], out, const)
        elif n["k"] == "int":
            const[0] += n["v"]
        elif n["k"] == "member":
            path = []
            x = n
            while x is not None and x["k"] == "member":
                path.append(x["f"])
                x = f.d(x["a"][0])
            out.append(".".join(reversed(path)))
        else:
            out.append("?" + f.show(n))
    et, ec = [], [0]
    if inc is not None:
        terms(inc, et, ec)
    at, ac = [], 0
    lit = {}
    for gn_, g_ in P.globals.items():
        # file-scope constant cursors (AWS_BYTE_CUR_INIT_FROM_STRING_LITERAL)
        li_ = ((g_.get("init") or {}).get("struct", {}) if isinstance(g_.get("init"), dict) else {}).get("len")
        if g_.get("const") and isinstance(li_, dict) and isinstance(li_.get("int"), int):
            lit[gn_] = li_["int"]
    for e in f.calls("aws_byte_cursor_from_c_str"):
        a0 = RU.uncast(f, e.node["a"][0])
        while a0 is not None and a0["k"] == "decay":
            a0 = f.d(a0["a"][0])
        # the local the literal cursor is stored in
        for d in f.all_events():
            if d.kind == "decl":
                for v in d.node["vars"]:
                    if v.get("init") is not None and f.d(v["init"]) is e.node and a0 is not None and a0["k"] == "str":
                        lit[v["n"]] = len(a0["v"])
    for e in app[1]:
        a = RU.strip_addr(f, RU.arg(f, e.node, 1))
        if a is not None and a["k"] == "member":
            path = []
            x = a
            while x is not None and x["k"] == "member":
                path.append(x["f"])
                x = f.d(x["a"][0])
            at.append(".".join(reversed(path)) + ".len")
        elif a is not None and a["k"] == "var" and a["n"] in lit:
            ac += lit[a["n"]]
        else:
            at.append("?" + f.show(a))
    R.check(inc is not None and sorted(et) == sorted(at) and ec[0] >= ac, "BUILDER", "builder:per-parameter-accounting", "%s()" % f.name,
            "estimate term %s + %d covers the appended pieces %s + %d literal bytes" % (sorted(et), ec[0], sorted(at), ac),
            "per parameter the estimate adds %s + %d bytes but the append loop writes %s + %d literal bytes: the built query is silently truncated" % (sorted(et), ec[0], sorted(at), ac))
    # both loops run over the same list with the same bound
    def bound_of(h_):
        g_ = RU.cmp_norm(f, f.blocks[h_].cond, True) if f.blocks[h_].cond is not None else None
        if not g_ or g_[2] is None or g_[1] != "<":
            return None
        hev = [e for e in f.all_events() if e.blk == h_]
        o_ = RU.origin(f, g_[2], hev[0] if hev else None)
        return f.show(o_) if o_ is not None and o_["k"] == "call" and o_.get("callee") == "aws_array_list_length" else None
    hb = [bound_of(h) for h in (est[0], app[0])]
    R.check(hb[0] is not None and hb[0] == hb[1] and "query_params" in hb[0], "BUILDER", "builder:loops-same-range", "%s()" % f.name, "both loops run i < query_len over options->query_params")


def alphabet(R, P):
    unreserved = {ord(c) for c in "-_.~"}
    for name, extra in (("s_unchecked_append_canonicalized_path_character", {ord("/")}), ("s_raw_append_canonicalized_param_character", set())):
        f = P.fn(name)
        if not R.require(f is not None, "%s not found" % name):
            continue
        R.fn(f)
        dom = dominators(f)
        stores = []
        for b in f.blocks.values():
            for el in b.elems:
                for x in f.walk(el):
                    if x["k"] == "bin" and x["op"] == "=":
                        l = f.d(x["a"][0])
                        if l["k"] == "un" and l["op"] == "deref":
                            stores.append((b, el, x))
        R.require(len(stores) >= 4, "%s: only %d byte stores found" % (name, len(stores)))
        labels = {}
        for b in f.blocks.values():
            if b.case is not None or b.default:
                labels[b.id] = b
        for b, el, x in stores:
            rhs = RU.uncast(f, x["a"][1])
            txt = f.show(rhs)
            if rhs["k"] == "var" and rhs["n"] == "value":
                # raw input byte: under isalnum(value), or in a case group whose labels are all unreserved
                ok = False
                ev = [e for e in f.all_events() if e.blk == b.id][0]
                for c, pol, blk in RU.guards(f, ev, dom):
                    cc, neg = RU.cond_call(f, c)
                    if cc is not None and cc.get("callee") == "aws_isalnum" and pol != neg:
                        ok = True
                if not ok:
                    # fallthrough chain of case labels ending in this block
                    chain = set()
                    work = [b.id]
                    seen = set()
                    preds = f.preds()
                    while work:
                        y = work.pop()
                        if y in seen:
                            continue
                        seen.add(y)
                        Y = f.blocks[y]
                        if Y.case is not None:
                            chain.add(Y.case)
                        if Y.default:
                            chain.add("default")
                        for p_ in preds.get(y, []):
                            if f.blocks[p_].term != "switch" and not f.blocks[p_].elems:
                                work.append(p_)
                            elif f.blocks[p_].term != "switch" and (f.blocks[p_].case is not None or f.blocks[p_].default) and not [e_ for e_ in f.blocks[p_].elems if e_["k"] not in ("int",)]:
                                work.append(p_)
                    ok = bool(chain) and "default" not in chain and chain <= (unreserved | extra)
                    det = "case labels %s" % sorted(chr(c) for c in chain if isinstance(c, int))
                    if not ok:
                        # ... or decided by NUM on every path to the store: aws_isalnum(value) answered true, or the byte
                        # equals one of the unreserved characters (a chain of == tests, also through a boolean local)
                        class _H(C04.ParserHooks):
                            def call(self, num_, st, e, args):
                                if e.get("callee") == "aws_isalnum":
                                    a_ = num_.fresh(st, "alnum", None, (0, 1))
                                    st.notes["alnum"] = a_
                                    return Poly.atom(a_)
                                return C04.ParserHooks.call(self, num_, st, e, args)
                        num_ = Num(f, P, _H(), max_paths=5000)
                        try:
                            sts_ = num_.states_at({el["id"]}).get(el["id"], [])
                        except Limit:
                            sts_ = []
                        ok = bool(sts_)
                        for st in sts_:
                            vv = st.env.get("v:value")
                            al = st.notes.get("alnum")
                            is_al = al is not None and entails(st, Poly.const(1) - Poly.atom(al))
                            is_un = vv is not None and any(entails(st, vv - c_) and entails(st, Poly.const(c_) - vv) for c_ in (unreserved | extra))
                            ok = ok and (is_al or is_un)
                        det = "on paths where aws_isalnum(value) holds or value is one of %s (NUM, %d states)" % (sorted(chr(c_) for c_ in unreserved | extra), len(sts_))
                else:
                    det = "under aws_isalnum(value)"
                R.check(ok, "ENCODER", "%s:raw-byte-line%d" % (name, x.get("loc", [0])[0]), "%s:%d in %s()" % (FILE, x.get("loc", [0])[0], name), "input byte stored unescaped only %s" % det,
                        "an input byte is stored unescaped outside the unreserved set of this encoder")
            else:
                ok = (rhs["k"] == "int" and rhs["v"] == ord("%")) or (rhs["k"] == "call" and rhs.get("callee") == "s_to_uppercase_hex")
                R.check(ok, "ENCODER", "%s:escape-byte-line%d" % (name, x.get("loc", [0])[0]), "%s:%d in %s()" % (FILE, x.get("loc", [0])[0], name), "escape byte is '%%' or an upper-case hex digit (%s)" % txt,
                        "the encoder stores %s, which is neither the input byte, '%%' nor s_to_uppercase_hex(...)" % txt)
        # arguments of s_to_uppercase_hex are below 16
        num = Num(f, P, C04.ParserHooks(), max_paths=5000)
        calls = f.calls("s_to_uppercase_hex")
        try:
            sts = num.states_at({c.node["id"] for c in calls})
        except Limit as ex:
            R.broken(str(ex))
            sts = {}
        for c in calls:
            okc, n = True, 0
            for st in sts.get(c.node["id"], []):
                s2 = st.copy()
                v = num.val(c.node["a"][0], s2)
                n += 1
                okc = okc and v is not None and entails(s2, v - 15) and entails(s2, -v)
            R.check(okc and n > 0, "ENCODER", "%s:nibble<16:line%d" % (name, c.line), where(f, c), "argument of s_to_uppercase_hex is within 0..15 in all %d states" % n)
    h = P.fn("s_to_uppercase_hex")
    if R.require(h is not None, "s_to_uppercase_hex not found"):
        R.fn(h)

        class H(C04.ParserHooks):
            def entry(self, num, st):
                v = C04._param(num, st, 0)
                st.add(v - 15)
        num = Num(h, P, H())
        rets = [x for b in h.blocks.values() for x in b.elems if x["k"] == "ret"]
        sts = num.states_at({r["id"] for r in rets})
        ok, n = True, 0
        for r in rets:
            for st in sts.get(r["id"], []):
                v = num.val(r["a"][0], st)
                arg = st.env.get("v:value")
                n += 1
                dec = v is not None and arg is not None and ((entails(st, arg - 9) and (v - arg - 48).is_const() and (v - arg - 48).cval() == 0) or (entails(st, Poly.const(10) - arg) and (v - arg - 55).is_const() and (v - arg - 55).cval() == 0))
                ok = ok and dec
        if not (ok and n >= 2):
            # the same mapping as a table: "0123456789ABCDEF"[value] (value & 15), contents checked from the initialiser
            tab = {v["n"] for e in h.all_events() if e.kind == "decl" for v in e.node["vars"] if v.get("init") is not None and (RU.uncast(h, v["init"]) or {}).get("k") in ("str", "decay")
                   and "0123456789ABCDEF" == ((lambda s_: s_.get("v") if s_ and s_["k"] == "str" else (h.d(s_["a"][0]) or {}).get("v") if s_ else None)(RU.uncast(h, v["init"])))}
            tab |= {k for k, g_ in P.globals.items() if ((g_.get("init") or {}).get("str") == "0123456789ABCDEF")}
            okt = bool(rets)
            for r in rets:
                x = RU.uncast(h, r["a"][0])
                if x is None or x["k"] != "index":
                    okt = False
                    continue
                b_, i_ = RU.uncast(h, x["a"][0]), RU.uncast(h, x["a"][1])
                while b_ is not None and b_["k"] in ("decay", "cast"):
                    b_ = h.d(b_["a"][0])
                pn = h.params[0]["n"]
                idx_ok = i_ is not None and ((i_["k"] == "var" and i_["n"] == pn) or (i_["k"] == "bin" and i_["op"] == "&" and h.show(RU.uncast(h, i_["a"][0])) == pn and h.is_const(i_["a"][1]) == 15))
                okt = okt and b_ is not None and b_["k"] == "var" and b_["n"] in tab and idx_ok
            ok, n = okt, 2
        R.check(ok and n >= 2, "ENCODER", "s_to_uppercase_hex:digits", "%s()" % h.name, "returns '0'+v for v < 10 and 'A'+v-10 for 10 <= v < 16")
    # the decoder's table maps exactly these digits back
    g = None
    for nm, gg in P.globals.items():
        if nm in ("s_hex_to_num_table", "aws_lookup_table_hex_to_num", "s_lookup_table_hex_to_num"):
            g = gg
    get = P.fn("aws_lookup_table_hex_to_num_get")
    if g is None and get is not None:
        for e in get.returns():
            for x in get.walk(e.node, follow_refs=True):
                if x["k"] == "var" and x.get("sc") in ("global", "slocal") and x["n"] in P.globals:
                    g = P.globals[x["n"]]
    if R.require(g is not None and isinstance(g.get("init"), dict) and "array" in g["init"], "hex-to-number table not found"):
        tab = [e.get("int") for e in g["init"]["array"]]
        ok = len(tab) == 256 and all(tab[ord("0") + v] == v for v in range(10)) and all(tab[ord("A") + v - 10] == v for v in range(10, 16)) and all(tab[ord("a") + v - 10] == v for v in range(10, 16))
        others = [i for i, v in enumerate(tab) if v is not None and v != 255 and chr(i) not in "0123456789abcdefABCDEF"]
        R.check(ok and not others, "ENCODER", "hex-table-agrees", "%s:%s" % (g.get("file", "").replace("/repo/", ""), g.get("line")), "the decoder's hex table maps '0'-'9','A'-'F','a'-'f' to 0..15 and nothing else to a digit",
                "the hex table used by the percent decoder does not invert s_to_uppercase_hex (or accepts other characters: %s)" % others[:5])
    d = P.fn("aws_byte_buf_append_decoding_uri")
    if R.require(d is not None, "decoder not found"):
        rd = d.calls("aws_byte_cursor_read_hex_u8")
        R.check(len(rd) == 1 and any("c == 37" in d.show(d.d(c)) or "== 37" in d.show(d.d(c)) for c, pol, b in RU.guards(d, rd[0]) if pol), "ENCODER", "decoder:escape-only-after-percent", where(d, rd[0]) if rd else d.name,
                "two hex digits are consumed exactly when the byte read is '%'")


def query(R, P):
    f = P.fn("aws_query_string_params")
    g = P.fn("aws_query_string_next_param")
    if not R.require(f is not None and g is not None, "query functions not found"):
        return
    R.fn(f)
    nxt = f.calls("aws_query_string_next_param")
    push = f.calls("aws_array_list_push_back")
    loops = [b for b in f.blocks.values() if b.term == "while"]
    ok = len(nxt) == 1 and len(push) == 1 and len(loops) == 1 and RU.cond_call(f, loops[0].cond)[0] is nxt[0].node and argstr(f, nxt[0].node, 1) == argstr(f, push[0].node, 1) == "param"
    # every yielded pair is pushed: nothing but the loop condition guards the push
    ok = ok and all(RU.cond_call(f, c)[0] is nxt[0].node for c, pol, b in RU.guards(f, push[0]))
    R.check(ok, "QUERY", "params:is-the-iterator", "%s()" % f.name, "the list form pushes exactly the pairs the iterator yields, in order")
    ns = g.calls("aws_byte_cursor_next_split")
    R.check(len(ns) == 1 and g.is_const(RU.arg(g, ns[0].node, 1)) == ord("&"), "QUERY", "next_param:splits-on-ampersand", where(g, ns[0]) if ns else g.name, "pairs are separated at '&'")
    dw = [b for b in g.blocks.values() if b.term == "do" and b.cond is not None and g.show(b.cond) != "0"]
    R.check(len(dw) == 1 and g.show(dw[0].cond).replace(" ", "") in ("(substr.len==0)",), "QUERY", "next_param:skips-empty", "%s()" % g.name, "empty pairs are skipped")
    mc = [e for e in g.calls("memchr") if g.is_const(RU.arg(g, e.node, 1)) == ord("=")]
    R.check(len(mc) == 1 and "substr.ptr" in argstr(g, mc[0].node, 0), "QUERY", "next_param:first-equals", where(g, mc[0]) if mc else g.name, "key and value are split at the first '=' of the pair")


def number_buffers(R, P):
    """BUILDER/port text: a number printed with snprintf into a local array is never truncated: the array holds the longest
    decimal rendering of the argument's type (10 digits for a 32-bit unsigned, 20 for 64-bit) plus the format's literal
    characters plus the terminator."""
    import re
    f = P.fn("aws_uri_init_from_builder_options")
    if not R.require(f is not None, "aws_uri_init_from_builder_options not found"):
        return
    n = 0
    for e in f.calls({"snprintf"}):
        a = e.node["a"]
        dst = RU.uncast(f, a[0])
        while dst is not None and dst["k"] in ("decay", "cast"):
            dst = f.d(dst["a"][0])
        fm = RU.uncast(f, a[2]) if len(a) > 2 else None
        while fm is not None and fm["k"] in ("decay", "cast"):
            fm = f.d(fm["a"][0])
        if dst is None or dst["k"] != "var" or fm is None or fm["k"] != "str":
            continue
        size = f.unit.types[dst["t"]].get("arr")
        convs = re.findall(r"%[-0-9.]*(l{0,2}|z|j|h{0,2})([duxX])", fm["v"])
        lit = len(re.sub(r"%[-0-9.]*(?:l{0,2}|z|j|h{0,2})[duxXs]", "", fm["v"]))
        need, okt = lit + 1, len(convs) == len(a) - 3
        for (mod, cv), arg in zip(convs, a[3:]):
            t = f.unit.types[f.d(arg)["t"]] if f.d(arg) is not None and "t" in f.d(arg) else {}
            w = t.get("w") or 32
            need += len(str(2 ** w - 1)) if cv in ("u", "d") else (w // 4)
            if cv == "d":
                need += 1
        n += 1
        R.check(okt and size is not None and size >= need, "BUILDER", "number-text-fits:%s" % dst["n"], where(f, e), "%s[%s] holds the longest rendering (%d bytes with terminator)" % (dst["n"], size, need),
                "the %d-byte array `%s` is too small for the longest value printed into it with \"%s\" (%d bytes with the terminator): snprintf truncates it - a 10-digit port is written without its last digit and the URI re-parses to another port" % (size or 0, dst["n"], fm["v"], need))
    R.require(n >= 1, "builder: no number formatted into a local array (confirmed: the port)")
    # what the builder is given is what the parser hands back: the options' port is as wide as the parsed URI's port
    def _w(rec_, fld_):
        r_ = P.records.get(rec_) or {}
        for fd_ in r_.get("fields", []):
            if fd_["n"] == fld_:
                return (r_["_unit"].types[fd_["t"]] or {}).get("w")
        return None
    wb, wu = _w("aws_uri_builder_options", "port"), _w("aws_uri", "port")
    R.check(wb is not None and wu is not None and wb >= wu, "BUILDER", "port-option-as-wide-as-the-parsed-port", "include/aws/common/uri.h", "aws_uri_builder_options.port (%s bits) holds every aws_uri.port (%s bits)" % (wb, wu),
            "aws_uri_builder_options.port has %s bits, aws_uri.port %s: a port above the option's range is truncated before it is written (70000 is built as :4464) and the URI does not parse back to what it was built from" % (wb, wu))


def iterator_state(R, P):
    """QUERY/reassembly: the iterator keeps its position in the pair it yielded last.  Inductive argument over calls (NUM):
    (yield)   every `true` return leaves  key.ptr = start of the pair just split,  value.ptr + value.len = its end,
              value.ptr >= key.ptr;
    (resume)  given such a pair, the substring handed back to aws_byte_cursor_next_split starts at key.ptr and has
              length (value.ptr + value.len) - key.ptr - i.e. it is exactly the pair yielded last, so the next split is
              the next pair and none is skipped, repeated or started one byte late."""
    f = P.fn("aws_query_string_next_param")
    if not R.require(f is not None, "aws_query_string_next_param not found"):
        return
    R.fn(f)

    class H(C04.ParserHooks):
        def entry(self, num, st):
            C04.ParserHooks.entry(self, num, st)
            p = C04._param(num, st, 1)
            b = num.base_of(st, p)
            kp = num.field(st, b + "key.ptr", "aws_byte_cursor", "ptr")
            vp = num.field(st, b + "value.ptr", "aws_byte_cursor", "ptr")
            vl = num.field(st, b + "value.len", "aws_byte_cursor", "len")
            st.notes["iter0"] = (kp, vp, vl)
            st.notes["resume"] = st.copy()

    asg = []
    for b in f.blocks.values():
        for el in b.elems:
            if el["k"] == "bin" and el["op"] == "=" and f.show(f.d(el["a"][0])) in ("substr.len", "substr.ptr"):
                asg.append(el)
    if not R.require(len(asg) == 2, "next_param: re-assembly of the last pair not found (%d stores to substr)" % len(asg)):
        return
    rets = [x for b in f.blocks.values() for x in b.elems if x["k"] == "ret"]
    # (yield)
    num = Num(f, P, H(), max_paths=20000)
    try:
        sts = num.states_at({r["id"] for r in rets}, after_ids={a["id"] for a in asg})
    except Limit as ex:
        R.broken(str(ex))
        return
    ok, det, cnt = True, "", 0
    for r in rets:
        for st in sts.get(r["id"], []):
            rv = num.val(r["a"][0], st)
            if rv is None or not rv.is_const() or rv.cval() == 0:
                continue
            g = lambda sfx: [v for k, v in st.env.items() if k.endswith(sfx) and not k.startswith("v:")]
            kp, vp, vl = g(")->key.ptr"), g(")->value.ptr"), g(")->value.len")
            sp, sl = st.env.get("v:substr.ptr"), st.env.get("v:substr.len")
            cnt += 1
            if not (len(kp) == len(vp) == len(vl) == 1 and sp is not None and sl is not None):
                ok, det = False, "pair fields not tracked at a yield"
                continue
            e1 = entails(st, kp[0] - sp) and entails(st, sp - kp[0])
            e2 = entails(st, vp[0] + vl[0] - sp - sl) and entails(st, sp + sl - vp[0] - vl[0])
            e3 = entails(st, kp[0] - vp[0])
            if not (e1 and e2 and e3):
                ok, det = False, "yield: key.ptr == start %s, value end == pair end %s, key.ptr <= value.ptr %s (trail %s)" % (e1, e2, e3, st.trail[-4:])
    R.check(ok and cnt >= 2, "QUERY", "next_param:yield-spans-the-pair", "%s()" % f.name, "every yielded (key, value) starts where the pair starts and ends where it ends (%d states)" % cnt,
            "a yielded pair does not span the substring that was split: %s" % det)
    # (resume)
    class H2(H):
        def entry(self, num, st):
            H.entry(self, num, st)
            kp, vp, vl = st.notes["iter0"]
            st.add(kp - vp)  # established by (yield)
            st.add(vp + vl - 2 ** 62)  # the pair lies inside the query string (VIEW): its end is an address
            st.add(-kp)
    num = Num(f, P, H2(), max_paths=20000)
    try:
        sts = num.states_at(set(), after_ids={a["id"] for a in asg})
    except Limit as ex:
        R.broken(str(ex))
        return
    ok, det, cnt = True, "", 0
    last = max(asg, key=lambda a: (a["loc"][0], a["loc"][1]))
    for st in sts.get(("after", last["id"]), []):
        kp, vp, vl = st.notes["iter0"]
        sp, sl = st.env.get("v:substr.ptr"), st.env.get("v:substr.len")
        cnt += 1
        if sp is None or sl is None:
            ok, det = False, "substr not tracked"
            continue
        e1 = entails(st, sp - kp) and entails(st, kp - sp)
        e2 = entails(st, sl - (vp + vl - kp)) and entails(st, (vp + vl - kp) - sl)
        if not (e1 and e2):
            ok, det = False, "the substring handed back is {%r, %r}; the pair yielded last was {%r, %r}" % (sp, sl, kp, vp + vl - kp)
    R.check(ok and cnt >= 1, "QUERY", "next_param:resumes-at-the-last-pair", "%s:%d in %s()" % (FILE, last["loc"][0], f.name), "the substring handed back to the splitter is exactly the pair yielded last (%d states)" % cnt,
            "the iterator resumes from a substring that is not the pair it yielded last (%s): after a key without '=' the next pair starts one byte late, is cut, or runs past the query" % det)


def decoder_total(R, P):
    """DECODER: percent-decoding accepts every byte value: the only reason to reject is a failed read of the two hex digits.
    No branch of the decoder depends on the decoded byte, and no result of aws_byte_cursor_read_hex_u8 is dropped."""
    f = P.fn("aws_byte_buf_append_decoding_uri")
    if not R.require(f is not None, "aws_byte_buf_append_decoding_uri not found"):
        return
    R.fn(f)
    rd = f.calls("aws_byte_cursor_read_hex_u8")
    R.require(len(rd) >= 1, "decoder: aws_byte_cursor_read_hex_u8 call not found")
    refd = set()
    for b in f.blocks.values():
        for el in list(b.elems) + ([b.cond] if b.cond is not None else []):
            for x in f.walk(el):
                if x["k"] == "ref":
                    refd.add(x["id"])
    dropped = [e for e in rd if e.node["id"] not in refd]
    R.check(not dropped, "ENCODER", "decode:hex-read-result-tested", where(f, rd[0]) if rd else f.name, "the outcome of reading the two hex digits is tested",
            "the result of aws_byte_cursor_read_hex_u8 is dropped: malformed escapes are not told apart from decoded bytes")
    outs = set()
    for e in rd:
        a = RU.strip_addr(f, RU.arg(f, e.node, 1))
        if a is not None and a["k"] == "var":
            outs.add(a["n"])
    bad = []
    for r_ in f.returns():
        v = RU.uncast(f, r_.node["a"][0]) if r_.node["a"] else None
        if v is None or not (v.get("k") == "call" and v.get("callee") == "aws_raise_error"):
            continue
        for c_, pol, b_ in RU.guards(f, r_):
            if RU.cond_call(f, c_)[0] is not None or any(x["k"] == "call" for x in f.walk(f.d(c_), follow_refs=True)):
                continue  # a test of a call's outcome
            t = RU.cmp_norm(f, c_, pol)
            if t and any(x["k"] == "var" and x["n"] in outs for x in f.walk(t[0], follow_refs=True)) and not (t[2] is not None and f.is_const(t[2]) == ord("%")):
                bad.append(f.show(f.d(c_)))
    R.check(not bad, "ENCODER", "decode:no-rejection-by-decoded-value", "%s()" % f.name, "no rejection depends on the value of the decoded byte (every byte value, 0x00 included, decodes)",
            "the decoder rejects depending on the decoded byte (%s): a correctly escaped byte with that value (%%00) is refused, so encode-then-decode fails for it" % bad)


def _stored_field(f, el):
    """the lvalue an assignment stores to, seen through `*out` where out is bound to the address of a field (the
    out-parameter of an expanded helper)"""
    l = f.d(el["a"][0])
    if l is not None and l["k"] == "un" and l["op"] == "deref":
        m = RU.strip_addr(f, l["a"][0])
        if m is not None and m["k"] == "member":
            return m
    return l


def authority_end(R, P):
    """DELIM/authority-ends-at-first-delimiter: s_parse_authority looks for the '/' and the '?' that can end the authority
    (memchr over the rest of the text) and cuts the authority off with aws_byte_cursor_advance(str, end - start).  NUM, every
    state at that cut: for each delimiter search whose result may be non-NULL, end <= that result.  (RFC 3986 3.2: the
    authority is terminated by the next '/', '?' or '#'; "http://h?a=/b" has an empty path and the query "a=/b".)"""
    f = P.fn("s_parse_authority")
    if not R.require(f is not None, "s_parse_authority not found"):
        return
    mcs = [e for e in f.calls("memchr") if f.is_const(RU.uncast(f, RU.arg(f, e.node, 1))) in (47, 63, 35) and argstr(f, e.node, 0, addr=False).endswith("->ptr")]
    cut = None
    for b_ in f.blocks.values():
        for el in b_.elems:
            if el["k"] == "bin" and el["op"] == "=":
                l_, r_ = RU.uncast(f, el["a"][0]), RU.uncast(f, el["a"][1])
                if l_ is not None and l_["k"] == "member" and l_["f"] == "authority" and r_ is not None and r_["k"] == "call" and r_.get("callee") == "aws_byte_cursor_advance":
                    cut = r_
    if not R.require(len(mcs) >= 2 and cut is not None, "s_parse_authority: delimiter searches / the authority cut not found (%d searches)" % len(mcs)):
        return
    holders = {}
    for e in f.all_events():
        if e.kind == "decl":
            for v in e.node["vars"]:
                i_ = RU.uncast(f, v["init"]) if v.get("init") is not None else None
                for m in mcs:
                    if i_ is m.node:
                        holders[v["n"]] = chr(f.is_const(RU.uncast(f, RU.arg(f, m.node, 1))))
    num = Num(f, P, C04.ParserHooks(), max_paths=20000)
    try:
        sts = num.states_at({cut["id"]})
    except Limit as ex:
        R.broken(str(ex))
        return
    ok, det, n = True, "", 0
    for st in sts.get(cut["id"], []):
        n += 1
        start = num.val(RU.arg(f, mcs[0].node, 0), st)
        ln = num.val(RU.arg(f, cut, 1), st)
        if start is None or ln is None:
            ok, det = False, "the length of the cut is not numeric"
            continue
        end = start + ln
        for name, ch in holders.items():
            mv = st.env.get("v:" + name)
            if mv is None or (entails(st, mv) and entails(st, -mv)):
                continue  # no such delimiter on this path
            if not entails(st, end - mv):
                ok, det = False, "the cut can lie behind the %r found (trail %s)" % (ch, st.trail[-4:])
    R.check(ok and n >= 1 and len(holders) >= 2, "DELIM", "authority-ends-at-first-delimiter", "%s()" % f.name, "the authority is cut at or before every '/' / '?' found (%d states)" % n,
            "the authority does not end at the first delimiter: %s - a URI with an empty path whose query contains '/' (\"http://host?a=/b\") is split inside the query" % det)


def scheme_colon(R, P):
    """DELIM/scheme: text without a scheme (user:password@host, host:port, [v6]:port) goes on to the authority state; the
    scheme state refuses a text (state = ERROR) only when the first colon is followed by '/' but not by "//" - NUM, every
    state at the ERROR store: the byte behind the colon that memchr found is '/'."""
    f = P.fn("s_parse_scheme")
    errv = P.enums.get("ERROR")
    if not R.require(f is not None and errv is not None, "s_parse_scheme / ERROR not found"):
        return
    mcs = [e for e in f.calls("memchr") if f.is_const(RU.uncast(f, RU.arg(f, e.node, 1))) == 58]
    holder = None
    for e in f.all_events():
        if e.kind == "decl":
            for v in e.node["vars"]:
                i_ = RU.uncast(f, v["init"]) if v.get("init") is not None else None
                if mcs and i_ is mcs[0].node:
                    holder = v["n"]
    stores = []
    for b in f.blocks.values():
        for el in b.elems:
            if el["k"] == "bin" and el["op"] == "=":
                l = f.d(el["a"][0])
                if l is not None and l["k"] == "member" and l["f"] == "state" and f.is_const(el["a"][1]) == errv:
                    stores.append(el)
    if not R.require(len(mcs) == 1 and holder is not None and stores, "s_parse_scheme: colon search / ERROR store not found"):
        return
    num = Num(f, P, C04.ParserHooks(), max_paths=20000)
    try:
        sts = num.states_at({s_["id"] for s_ in stores})
    except Limit as ex:
        R.broken(str(ex))
        return
    ok, n = True, 0
    for s_ in stores:
        for st in sts.get(s_["id"], []):
            n += 1
            colon = st.env.get("v:" + holder)
            hit = False
            for (a2, sz, v2) in st.notes.get("cells", []):
                if sz == 1 and colon is not None and entails(st, a2 - colon - 1) and entails(st, colon + 1 - a2) and entails(st, v2 - 47) and entails(st, Poly.const(47) - v2):
                    hit = True
            ok = ok and hit
    R.check(ok and n >= 1, "DELIM", "scheme:refused-only-after-colon-slash", "%s()" % f.name, "the scheme state sets ERROR only with '/' behind the first colon (%d states)" % n,
            "s_parse_scheme can refuse a text whose first colon is not followed by '/': URIs without a scheme (\"user:secret@host\", \"[::1]:8080/a\") fail to parse instead of going on to the authority")


def port_range(R, P):
    """PORT: the authority parser accepts exactly the port numbers that fit the 32-bit field: once the digits parsed, ERROR is
    set only if the value exceeds UINT32_MAX, and the narrowing store sees a value <= UINT32_MAX (NUM, all values)."""
    f = P.fn("s_parse_authority")
    if not R.require(f is not None, "s_parse_authority not found"):
        return

    class H(C04.ParserHooks):
        def call(self, num, st, e, args):
            if (e.get("callee") or "") == "aws_byte_cursor_utf8_parse_u64":
                outs = []
                s1 = st.copy()
                pv = Poly.atom(num.fresh(s1, "port_value", None, (0, 2 ** 64 - 1)))
                k = num.key(num.fn.d(RU.strip_addr(num.fn, e["a"][1])), s1) if RU.strip_addr(num.fn, e["a"][1]) is not None else None
                if k:
                    s1.env[k] = pv
                s1.notes["port_ok"] = pv
                s1.vals[e["id"]] = Poly.const(0)
                s2 = st.copy()
                s2.vals[e["id"]] = Poly.const(-1)
                return [s1, s2]
            return C04.ParserHooks.call(self, num, st, e, args)
    num = Num(f, P, H(), max_paths=20000)
    errv = P.enums.get("ERROR")
    stores = []
    for b in f.blocks.values():
        for el in b.elems:
            if el["k"] == "bin" and el["op"] == "=":
                l = _stored_field(f, el)
                if l["k"] == "member" and l["f"] == "state" and f.is_const(el["a"][1]) == errv:
                    stores.append(el)
                if l["k"] == "member" and l["f"] == "port" and f.is_const(el["a"][1]) is None:
                    stores.append(el)
    if not R.require(errv is not None and len(stores) >= 3, "s_parse_authority: ERROR / port stores not found"):
        return
    try:
        sts = num.states_at({s["id"] for s in stores})
    except Limit as ex:
        R.broken(str(ex))
        return
    ok, det, n_err, n_port = True, "", 0, 0
    for s in stores:
        is_port = _stored_field(f, s)["f"] == "port"
        for st in sts.get(s["id"], []):
            pv = st.notes.get("port_ok")
            if pv is None:
                continue
            if is_port:
                n_port += 1
                if not entails(st, pv - (2 ** 32 - 1)):
                    ok, det = False, "the 64-bit value stored into the 32-bit port can exceed UINT32_MAX (it is truncated)"
            else:
                n_err += 1
                if not entails(st, Poly.const(2 ** 32) - pv):
                    ok, det = False, "line %d sets ERROR for a port that parsed and may be <= UINT32_MAX (trail %s)" % (s["loc"][0], st.trail[-4:])
    R.check(ok and n_err >= 1 and n_port >= 1, "VIEW", "s_parse_authority:port-range", "%s()" % f.name, "a parsed port is refused only above UINT32_MAX and stored only when it fits (%d/%d states)" % (n_err, n_port),
            "the port range accepted is not 0..UINT32_MAX: %s" % det)


def scheme_scope(R, P):
    """STATE/scheme-scope: a scheme, when there is one, stands in front of everything else: the colon that ends it is looked for
    in front of the first '/' and '?' only.  A search over the whole text takes a "://" inside the path or the query of a
    scheme-less URI (a redirect target) for the scheme delimiter."""
    f = P.fn("s_parse_scheme")
    if not R.require(f is not None, "s_parse_scheme not found"):
        return
    cols = [e for e in f.calls({"memchr", "__builtin_memchr"}) if f.is_const(RU.uncast(f, RU.arg(f, e.node, 1))) == ord(":")]
    others = [e for e in f.calls({"memchr", "__builtin_memchr", "strcspn", "aws_byte_cursor_find_exact"}) if e not in cols]
    if not cols:
        R.ok("STATE", "scheme-colon-searched-before-the-first-delimiter", "%s()" % f.name, "no whole-text colon search")
        return
    whole = [e for e in cols if argstr(f, e.node, 2, addr=False).replace(" ", "") in ("str->len",)]
    slash_q = any(f.is_const(RU.uncast(f, RU.arg(f, e.node, 1))) in (ord("/"), ord("?")) for e in others if e.node["callee"].endswith("memchr"))
    R.check(not whole or slash_q, "STATE", "scheme-colon-searched-before-the-first-delimiter", where(f, cols[0]), "the scheme's colon is searched in front of the first '/' / '?' only",
            "s_parse_scheme looks for ':' in the whole text (memchr(.., ':', str->len)) and takes the first one followed by '/': in a URI without a scheme, a \"://\" inside the path or query becomes the scheme delimiter (www.test.com/a?next=http://x/y -> scheme `www.test.com/a?next=http`, host `x`)")


def analyse(ctx, replace=None, only=None):
    R = ctx.R
    units = [u for u in library_units(ctx.ex.repo) if "external" not in u]
    P = ctx.program(units, "ship", replace=replace)
    if not R.require(P.fn("s_parse_authority") is not None, "source/uri.c not analysed"):
        return
    # memory safety, progress, helper preconditions and summaries of uri.c (C04's rules, restricted to this file)
    C04.analyse(ctx, replace=replace, only={"files": [FILE], "rules": ["PROGRESS", "SUMMARY"]})
    own_copy(R, P)
    views(R, P)
    host_cursor(R, P)
    authority_end(R, P)
    scheme_colon(R, P)
    scheme_scope(R, P)
    builder(R, P)
    alphabet(R, P)
    query(R, P)
    number_buffers(R, P)
    iterator_state(R, P)
    decoder_total(R, P)
    port_range(R, P)


MUTANTS = [
    {"name": "builder-port-option-16-bit", "file": "include/aws/common/uri.h", "expect": "BUILDER", "old": "    uint32_t port;\n    struct aws_array_list *query_params;", "new": "    uint16_t port;\n    struct aws_array_list *query_params;"},
    {"name": "port-buffer-without-terminator-slot", "file": FILE, "expect": "BUILDER", "old": "#define PORT_BUFFER_SIZE 11", "new": "#define PORT_BUFFER_SIZE 10"},
    {"name": "iterator-resumes-by-lengths", "file": FILE, "expect": "QUERY", "old": "        substr.len = (param->value.ptr - param->key.ptr) + param->value.len;", "new": "        substr.len = param->key.len + 1 + param->value.len;"},
    {"name": "decoder-rejects-zero-byte", "file": FILE, "expect": "ENCODER", "old": "            if (AWS_UNLIKELY(aws_byte_cursor_read_hex_u8(&advancing, &c) == false)) {", "new": "            aws_byte_cursor_read_hex_u8(&advancing, &c);\n            if (AWS_UNLIKELY(!c)) {"},
    {"name": "port-max-refused", "file": FILE, "expect": "VIEW", "old": "            if (port_u64 > UINT32_MAX) {", "new": "            if (port_u64 >= UINT32_MAX) {"},
    {"name": "parse-callers-text", "file": FILE, "expect": "OWN-COPY", "old": "    struct aws_byte_cursor uri_cur = aws_byte_cursor_from_buf(&uri->uri_str);", "new": "    struct aws_byte_cursor uri_cur = aws_byte_cursor_from_array(uri->uri_str.buffer, uri->uri_str.capacity);"},
    {"name": "password-len-off", "file": FILE, "expect": "VIEW", "old": "parser->uri->userinfo.len - parser->uri->user.len - 1;", "new": "parser->uri->userinfo.len - parser->uri->user.len;"},
    {"name": "query-view-one-too-long", "file": FILE, "expect": "VIEW", "old": "        parser->uri->query_string.len = str->len - 1;", "new": "        parser->uri->query_string.len = str->len;"},
    {"name": "ipv6-test-on-whole-authority", "file": FILE, "expect": "HOST-CURSOR", "old": "        if (authority_parse_csr.len > 0 && authority_parse_csr.ptr[0] == '[') {", "new": "        if (parser->uri->authority.ptr[0] == '[') {"},
    {"name": "estimate-forgets-scheme-separator", "file": FILE, "expect": "BUILDER", "old": "        buffer_size += options->scheme.len + 3;", "new": "        buffer_size += options->scheme.len + 1;"},
    {"name": "estimate-forgets-ampersand", "file": FILE, "expect": "BUILDER", "old": "uri_param_ptr->key.len + uri_param_ptr->value.len + 2;", "new": "uri_param_ptr->key.len + uri_param_ptr->value.len + 1;"},
    {"name": "reserve-absolute", "file": FILE, "expect": "REQUIRES", "old": "    if (aws_byte_buf_reserve_relative(buffer, capacity_needed)) {", "new": "    if (aws_byte_buf_reserve(buffer, capacity_needed)) {"},
    {"name": "param-encoder-keeps-slash", "file": FILE, "expect": "ENCODER", "old": "        case '~': {\n            ++buffer->len;", "new": "        case '~':\n        case '/': {\n            ++buffer->len;"},
    {"name": "lowercase-hex", "file": FILE, "expect": "ENCODER", "old": "    return (uint8_t)('A' + value - 10);", "new": "    return (uint8_t)('a' + value - 10);"},
    {"name": "state-not-advanced", "file": FILE, "expect": "PROGRESS", "old": "    parser->uri->path.len = location_of_q_mark - str->ptr;\n    aws_byte_cursor_advance(str, parser->uri->path.len);\n    parser->state = ON_QUERY_STRING;", "new": "    parser->uri->path.len = location_of_q_mark - str->ptr;\n    aws_byte_cursor_advance(str, parser->uri->path.len);\n    parser->state = ON_PATH;"},
    {"name": "list-form-skips-push", "file": FILE, "expect": "QUERY", "old": "        if (aws_array_list_push_back(out_params, &param)) {", "new": "        if (param.value.len && aws_array_list_push_back(out_params, &param)) {"},
]
for _m in MUTANTS:
    _m.setdefault("scope", None)
