"""C13 - URI parsing, building and percent-coding are mutually consistent (DESIGN.md section 4, C13)."""
from sa import rules as RU
from sa.awslib import in_bounds
from sa.bounds import access_sites, addr_size
from sa.cfg import dominators, ev_dominates
from sa.extract import library_units
from sa.num import Num, Poly, Limit, State, entails
from sa.rules import argstr, where
from rules import C04

FILE = "source/uri.c"
COMPONENTS = ("scheme", "authority", "userinfo", "user", "password", "host_name", "path", "query_string", "path_and_query")

DECIDED = [
    "OWN-COPY: both constructors parse the URI object's own copy of the text (copy / build into uri->uri_str first, then parse a cursor made from that buffer); a failed parse releases the copy and zeroes the object",
    "VIEW: every component view a state function stores (scheme, authority, userinfo, user, password, host_name, path, query_string, path_and_query) is {NULL,0} or lies inside the text being parsed, for all inputs (NUM); same for the key/value views of the query iterator",
    "STATE: the driver loop runs while state < FINISHED, every state function assigns a later state on every feasible path and raises when it sets ERROR (shared with C04)",
    "HOST-CURSOR: after the user-info has been split off, host / port parsing reads only bytes after the '@'",
    "BUILDER: the builder's size estimate covers every piece appended before the parameter list (NUM: each such append has room); the per-parameter estimate term covers the per-parameter appends (accounting agreement of the two loops over the list); the built text is re-parsed by the same parser",
    "ENCODER: the worst-case reservation makes the raw-pointer appenders safe (C04 REQUIRES/SUMMARY on uri.c); an input byte is stored unescaped only under isalnum or an unreserved-character case label ('/' only in the path encoder); every other byte stored is '%' or an upper-case hex digit (NUM range of s_to_uppercase_hex for arguments < 16); the decoder's hex table maps exactly those digits back",
    "QUERY: the list form is a loop over the iterator pushing each pair it yields; the iterator skips empty pairs and splits at the first '='",
]
NOT_DECIDED = ["that the component contents equal the generating components (needs the byte values: only the delimiter-structure rules above are decided)", "round-trip equality of encode/decode on contents beyond the table agreement",
               "wrap-around of the builder's size sum for views longer than 2^56 bytes"]
ASSUMPTIONS = list(C04.ASSUMPTIONS) + ["views handed to the builder are shorter than 2^56 bytes (their sum does not wrap)"]


NEST = {"s_parse_authority": (("userinfo", "authority"), ("user", "userinfo"), ("password", "userinfo"), ("host_name", "authority")), "s_parse_path": (("path", "path_and_query"),)}


class BuilderHooks(C04.ParserHooks):
    """C04 hooks + the record of every aws_byte_buf_append into the URI text with the room available at that point"""

    # the size sum only grows: unsigned additions of lengths, assumed not to wrap (ASSUMPTIONS)
    monotone_keys = {("aws_uri_init_from_builder_options", "v:buffer_size")}

    def fresh_field(self, num, st, key, rec, f, atom):
        C04.ParserHooks.fresh_field(self, num, st, key, rec, f, atom)
        if rec == "aws_byte_cursor" and f == "len":
            st.add(Poly.atom(atom) - 2 ** 56)

    def call(self, num, st, e, args):
        if e.get("callee") == "aws_byte_buf_append" and args[0] is not None and args[1] is not None:
            bb, cb = self._cbase(num, st, e, 0, args), self._cbase(num, st, e, 1, args)
            ln = num.field(st, bb + "len", "aws_byte_buf", "len")
            cap = num.field(st, bb + "capacity", "aws_byte_buf", "capacity")
            fl = num.field(st, cb + "len", "aws_byte_cursor", "len")
            ok = entails(st, ln + fl - cap)
            num.__dict__.setdefault("appends", []).append((e, ok, repr(ln + fl), repr(cap)))
            # effect (C01): with room, len grows by the piece; without, nothing changes
            if ok:
                st.env[bb + "len"] = ln + fl
            else:
                a = Poly.atom(num.fresh(st, "len_after_append", None, (0, 2 ** 64 - 1)))
                st.add(ln - a)
                st.add(a - ln - fl)
                st.add(a - cap)
                st.env[bb + "len"] = a
            num.cell_store(st, st.env.get(bb + "buffer"))
            t = num.ty(e)
            return Poly.const(0) if ok else Poly.atom(num.fresh(st, "append", t, (-1, 0)))
        return C04.ParserHooks.call(self, num, st, e, args)


def own_copy(R, P):
    p = P.fn("aws_uri_init_parse")
    b = P.fn("aws_uri_init_from_builder_options")
    s = P.fn("s_init_from_uri_str")
    if not R.require(p and b and s, "URI constructors not found"):
        return
    for f in (p, b, s):
        R.fn(f)
    cp = p.calls("aws_byte_buf_init_copy_from_cursor")
    ps = p.calls("s_init_from_uri_str")
    R.check(len(cp) == 1 and len(ps) == 1 and argstr(p, cp[0].node, 0) == "uri->uri_str" and not RU.must_precede(p, cp, ps), "OWN-COPY", "aws_uri_init_parse:copy-then-parse",
            where(p, ps[0]) if ps else p.name, "the input is copied into uri->uri_str before it is parsed", "aws_uri_init_parse does not parse a private copy of the text")
    t = RU.call_test
    # the copy's failure is returned before parsing
    g = [c for c, pol, blk in RU.guards(p, ps[0])] if ps else []
    R.check(any(RU.cond_call(p, c)[0] is cp[0].node for c in g) if cp and ps else False, "OWN-COPY", "aws_uri_init_parse:copy-failure-checked", where(p, cp[0]) if cp else p.name,
            "parsing happens only when the copy succeeded")
    mk = s.calls("aws_byte_cursor_from_buf")
    R.check(len(mk) == 1 and argstr(s, mk[0].node, 0) == "uri->uri_str", "OWN-COPY", "s_init_from_uri_str:cursor-over-own-buffer", where(s, mk[0]) if mk else s.name,
            "the parser's cursor is made from uri->uri_str", "the parser does not walk the URI object's own buffer")
    ind = s.indirect_calls()
    R.check(len(ind) == 1 and "&uri_cur" in s.show(ind[0].node), "OWN-COPY", "s_init_from_uri_str:states-get-that-cursor", where(s, ind[0]) if ind else s.name, "every state function is handed that cursor")
    cl = s.calls("aws_byte_buf_clean_up")
    zero = [e for e in s.calls({"memset", "__builtin_memset"}) if "uri" in s.show(e.node)]
    rets = [r for r in s.returns() if r.node["a"] and s.is_const(RU.uncast(s, r.node["a"][0])) == -1]
    R.check(len(cl) == 1 and zero and rets and all(ev_dominates(s, cl[0], r) and ev_dominates(s, zero[0], r) for r in rets), "OWN-COPY", "s_init_from_uri_str:failure-cleans-up",
            where(s, cl[0]) if cl else s.name, "a failed parse releases the copy and zeroes the object before returning the error")
    bs = b.calls("s_init_from_uri_str")
    bi = b.calls("aws_byte_buf_init")
    R.check(len(bs) == 1 and len(bi) == 1 and argstr(b, bi[0].node, 0) == "uri->uri_str" and all(r.node["a"] and ((RU.uncast(b, r.node["a"][0]) or {}).get("callee") in ("s_init_from_uri_str", "aws_raise_error") or b.is_const(RU.uncast(b, r.node["a"][0])) == -1) for r in b.returns()),
            "BUILDER", "builder:reparsed", where(b, bs[0]) if bs else b.name, "every successful return of the builder is the result of parsing the text it built")


def views(R, P):
    hooks = C04.ParserHooks()
    for name in ("s_parse_scheme", "s_parse_authority", "s_parse_path", "s_parse_query_string"):
        f = P.fn(name)
        if not R.require(f is not None, "%s not found" % name):
            continue
        R.fn(f)
        num = Num(f, P, hooks, max_paths=20000)
        st0 = State()
        sp = C04._param(num, st0, 1)
        sbase = num.base_of(st0, sp)
        ptr0 = num.field(st0, sbase + "ptr", "aws_byte_cursor", "ptr")
        (obj,) = [m[0] for m in ptr0.t]
        try:
            exits = num.states_at({-1}, entry_state=st0).get(-1, [])
        except Limit as ex:
            R.broken("NUM trace limit in %s: %s" % (name, ex))
            continue
        R.require(bool(exits), "%s: no exit state" % name)
        seen = {}
        for st in exits:
            for k, v in st.env.items():
                m = st.meta.get(k)
                if not (k.endswith(".ptr") and m and m[0] == "aws_byte_cursor") or k.startswith("v:") or k.startswith(sbase):
                    continue
                comp = k[k.index(")->") + 3:-4] if ")->" in k else None
                if comp not in COMPONENTS:
                    continue
                o = st.notes.get("orig", {}).get(k)
                o2 = st.notes.get("orig", {}).get(k[:-3] + "len")
                if o is not None and v == Poly.atom(o) and (o2 is None or st.env.get(k[:-3] + "len") == Poly.atom(o2)):
                    continue  # read but not stored by this function on this path
                ln = st.env.get(k[:-3] + "len")
                if ln is None:
                    verdict = "length not tracked"
                elif entails(st, v) and entails(st, -v) and entails(st, ln) and entails(st, -ln):
                    verdict = None
                else:
                    r = in_bounds(st, v, ln)
                    verdict = None if (r[0] == "ok" and r[2] == obj) else (r[1] if r[0] != "ok" else "inside a different object than the text")
                cur = seen.setdefault(comp, [0, None])
                cur[0] += 1
                if verdict and cur[1] is None:
                    cur[1] = verdict + " | branch trail " + str(st.trail[-6:])
        # nesting: a sub-component stored here lies inside the component it is part of
        for child, parent in NEST.get(name, ()):
            nn, badn = 0, None
            for st in exits:
                def get(c_):
                    ks = [k for k in st.env if k.endswith(")->%s.ptr" % c_) and not k.startswith("v:")]
                    if len(ks) != 1:
                        return None
                    return st.env[ks[0]], st.env.get(ks[0][:-3] + "len"), ks[0]
                cc, pp = get(child), get(parent)
                if cc is None or pp is None or cc[1] is None or pp[1] is None:
                    continue
                o = st.notes.get("orig", {}).get(cc[2])
                if (o is not None and cc[0] == Poly.atom(o)) or (entails(st, cc[0]) and entails(st, -cc[0])):
                    continue  # not stored on this path, or NULL
                nn += 1
                if not (entails(st, pp[0] - cc[0]) and entails(st, cc[0] + cc[1] - pp[0] - pp[1])):
                    badn = "[%r, +%r) is not inside [%r, +%r) | branch trail %s" % (cc[0], cc[1], pp[0], pp[1], st.trail[-6:])
            R.check(nn > 0 and badn is None, "VIEW", "%s:%s-inside-%s" % (name, child, parent), "%s()" % name, "uri->%s lies inside uri->%s in all %d exit states that store it" % (child, parent, nn),
                    "uri->%s can extend beyond uri->%s: %s" % (child, parent, badn))
        for comp, (n, bad) in sorted(seen.items()):
            R.check(bad is None, "VIEW", "%s:%s" % (name, comp), "%s()" % name, "uri->%s is {NULL,0} or inside the parsed text in all %d exit states" % (comp, n),
                    "uri->%s can point outside the text being parsed: %s" % (comp, bad))
        R.require(bool(seen) or name == "zz", "%s stores no component view" % name)
    # query iterator
    f = P.fn("aws_query_string_next_param")
    if R.require(f is not None, "aws_query_string_next_param not found"):
        R.fn(f)
        num = Num(f, P, hooks, max_paths=20000)
        num.track_progress = True
        rets = [x for b in f.blocks.values() for x in b.elems if x["k"] == "ret"]
        try:
            sts = num.states_at({r["id"] for r in rets})
        except Limit as ex:
            R.broken(str(ex))
            sts = {}
        n = 0
        bad = None
        for r in rets:
            for st in sts.get(r["id"], []):
                rv = num.val(r["a"][0], st)
                if rv is None or not rv.is_const() or rv.cval() == 0:
                    continue
                qp = st.env.get("v:query_string.ptr")
                for part in ("key", "value"):
                    ks = [k for k in st.env if k.endswith(")->%s.ptr" % part)]
                    for k in ks:
                        n += 1
                        v, ln = st.env[k], st.env.get(k[:-3] + "len")
                        rr = in_bounds(st, v, ln) if ln is not None else ("fail", "length not tracked")
                        if rr[0] != "ok" or (qp is not None and rr[2] not in qp.atoms()):
                            bad = "%s: %s | %s" % (part, rr[1], st.trail[-5:])
        R.check(n >= 2 and bad is None, "VIEW", "aws_query_string_next_param:key-value", "%s()" % f.name, "key and value views lie inside the query string in all %d yielded states" % n,
                "a yielded key/value view can leave the query string: %s" % bad)


def host_cursor(R, P):
    f = P.fn("s_parse_authority")
    if not R.require(f is not None, "s_parse_authority not found"):
        return
    num = Num(f, P, C04.ParserHooks(), max_paths=20000)
    sites = access_sites(f)
    # everything evaluated from the declaration of port_search_start on is host / port parsing
    decl = [e for e in f.all_events() if e.kind == "decl" and any(v["n"] == "port_search_start" for v in e.node["vars"])]
    if not R.require(len(decl) == 1, "s_parse_authority: host parsing anchor (port_search_start) not found"):
        return
    after = RU.reach_from(f, decl[0])
    after_ids = set()
    for ev in after:
        for n in f.walk(ev.node):
            if "id" in n:
                after_ids.add(n["id"])
    sel = [s for s in sites if s[2].get("id") in after_ids or s[0] in after_ids]
    R.require(len(sel) >= 3, "only %d host-parsing accesses found in s_parse_authority" % len(sel))
    try:
        states = num.states_at({s[0] for s in sel})
    except Limit as ex:
        R.broken(str(ex))
        return
    for eid, kind, n in sel:
        nst, bad = 0, None
        for st in states.get(eid, []):
            d = st.env.get("v:userinfo_delim")
            if d is None or not entails(st, Poly.const(1) - d):
                continue  # no user-info on this path
            s2 = st.copy()
            for (D, sz, mode) in addr_size(num, s2, kind, n):
                if D is None:
                    continue
                nst += 1
                if not entails(s2, d + 1 - D):
                    bad = "address %r is not after the '@' at %r" % (D, d)
        if nst:
            R.check(bad is None, "HOST-CURSOR", "s_parse_authority:%s" % f.show(n)[:50], where(f, n), "reads only after the '@' in all %d states with user-info" % nst,
                    "host / port parsing looks at user-info bytes: %s" % bad)


def builder(R, P):
    f = P.fn("aws_uri_init_from_builder_options")
    if not R.require(f is not None, "builder not found"):
        return
    R.fn(f)
    hooks = BuilderHooks()
    num = Num(f, P, hooks, max_paths=20000)
    try:
        num.states_at({-1})
    except Limit as ex:
        R.broken("NUM trace limit in the builder: %s" % ex)
        return
    loops = num.loops()
    inloop = set()
    for h, body in loops.items():
        inloop |= body
    by = {}
    for (e, ok, need, cap) in getattr(num, "appends", []):
        by.setdefault(e["id"], [e, [], None])
        by[e["id"]][1].append(ok)
        if not ok:
            by[e["id"]][2] = "needs %s, capacity %s" % (need, cap)
    n = 0
    for eid, (e, oks, why) in sorted(by.items()):
        blk = num.elem_of.get(eid, (None,))[0]
        piece = argstr(f, e, 1)
        if blk in inloop:
            continue  # per-parameter pieces: accounting rule below
        if piece == "query_app" and any("query_params" in f.show(f.d(c)) for c, p, b in RU.guards(f, [x for x in f.calls("aws_byte_buf_append") if x.node is e][0])):
            R.assumed_sites.append({"site": "BUILDER:'?' before a parameter list", "reason": "room for '?' is reserved only when the list is non-empty; with an empty list the append may fail and the URI has no query part, which is what an empty list means"})
            continue
        n += 1
        R.check(all(oks), "BUILDER", "builder:room:%s" % piece, "%s:%d in %s()" % (FILE, e.get("loc", [0])[0], f.name), "the size estimate leaves room for %s in all %d states" % (piece, len(oks)),
                "the size estimate does not cover this piece (%s): the append fails silently and the built URI is truncated" % why)
    R.require(n >= 6, "only %d builder appends outside the parameter loop were analysed" % n)
    # accounting agreement of the two loops over query_params
    est, app = None, None
    for h, body in loops.items():
        calls = [e for e in f.calls("aws_byte_buf_append") if e.blk in body]
        adds = [e for e in f.all_events() if e.kind == "access" and e.mode == "rw" and e.node["k"] == "var" and e.node["n"] == "buffer_size" and e.blk in body]
        if calls:
            app = (h, calls)
        elif adds:
            est = (h, adds)
    if not R.require(est is not None and app is not None, "builder: estimate loop / append loop over the parameter list not found"):
        return
    # estimate term: buffer_size += E
    inc = None
    for b in loops[est[0]]:
        for el in f.blocks[b].elems:
            for x in f.walk(el):
                if x["k"] == "bin" and x["op"] == "+=" and f.show(f.d(x["a"][0])) == "buffer_size":
                    inc = f.d(x["a"][1])

    def terms(n, out, const):
        n = RU.uncast(f, n)
        if n["k"] == "bin" and n["op"] == "+":
            terms(n["a"][0], out, const)
            terms(n["a"][1], out, const)
        elif n["k"] == "int":
            const[0] += n["v"]
        elif n["k"] == "member":
            path = []
            x = n
            while x is not None and x["k"] == "member":
                path.append(x["f"])
                x = f.d(x["a"][0])
            out.append(".".join(reversed(path)))
        else:
            out.append("?" + f.show(n))
    et, ec = [], [0]
    if inc is not None:
        terms(inc, et, ec)
    at, ac = [], 0
    lit = {}
    for e in f.calls("aws_byte_cursor_from_c_str"):
        a0 = RU.uncast(f, e.node["a"][0])
        while a0 is not None and a0["k"] == "decay":
            a0 = f.d(a0["a"][0])
        # the local the literal cursor is stored in
        for d in f.all_events():
            if d.kind == "decl":
                for v in d.node["vars"]:
                    if v.get("init") is not None and f.d(v["init"]) is e.node and a0 is not None and a0["k"] == "str":
                        lit[v["n"]] = len(a0["v"])
    for e in app[1]:
        a = RU.strip_addr(f, RU.arg(f, e.node, 1))
        if a is not None and a["k"] == "member":
            path = []
            x = a
            while x is not None and x["k"] == "member":
                path.append(x["f"])
                x = f.d(x["a"][0])
            at.append(".".join(reversed(path)) + ".len")
        elif a is not None and a["k"] == "var" and a["n"] in lit:
            ac += lit[a["n"]]
        else:
            at.append("?" + f.show(a))
    R.check(inc is not None and sorted(et) == sorted(at) and ec[0] >= ac, "BUILDER", "builder:per-parameter-accounting", "%s()" % f.name,
            "estimate term %s + %d covers the appended pieces %s + %d literal bytes" % (sorted(et), ec[0], sorted(at), ac),
            "per parameter the estimate adds %s + %d bytes but the append loop writes %s + %d literal bytes: the built query is silently truncated" % (sorted(et), ec[0], sorted(at), ac))
    # both loops run over the same list with the same bound
    hb = [f.show(f.blocks[h].cond) for h in (est[0], app[0])]
    R.check(hb[0] == hb[1] == "(i < query_len)", "BUILDER", "builder:loops-same-range", "%s()" % f.name, "both loops run i < query_len over options->query_params")


def alphabet(R, P):
    unreserved = {ord(c) for c in "-_.~"}
    for name, extra in (("s_unchecked_append_canonicalized_path_character", {ord("/")}), ("s_raw_append_canonicalized_param_character", set())):
        f = P.fn(name)
        if not R.require(f is not None, "%s not found" % name):
            continue
        R.fn(f)
        dom = dominators(f)
        stores = []
        for b in f.blocks.values():
            for el in b.elems:
                for x in f.walk(el):
                    if x["k"] == "bin" and x["op"] == "=":
                        l = f.d(x["a"][0])
                        if l["k"] == "un" and l["op"] == "deref":
                            stores.append((b, el, x))
        R.require(len(stores) >= 5, "%s: only %d byte stores found" % (name, len(stores)))
        labels = {}
        for b in f.blocks.values():
            if b.case is not None or b.default:
                labels[b.id] = b
        for b, el, x in stores:
            rhs = RU.uncast(f, x["a"][1])
            txt = f.show(rhs)
            if rhs["k"] == "var" and rhs["n"] == "value":
                # raw input byte: under isalnum(value), or in a case group whose labels are all unreserved
                ok = False
                ev = [e for e in f.all_events() if e.blk == b.id][0]
                for c, pol, blk in RU.guards(f, ev, dom):
                    cc, neg = RU.cond_call(f, c)
                    if cc is not None and cc.get("callee") == "aws_isalnum" and pol != neg:
                        ok = True
                if not ok:
                    # fallthrough chain of case labels ending in this block
                    chain = set()
                    work = [b.id]
                    seen = set()
                    preds = f.preds()
                    while work:
                        y = work.pop()
                        if y in seen:
                            continue
                        seen.add(y)
                        Y = f.blocks[y]
                        if Y.case is not None:
                            chain.add(Y.case)
                        if Y.default:
                            chain.add("default")
                        for p_ in preds.get(y, []):
                            if f.blocks[p_].term != "switch" and not f.blocks[p_].elems:
                                work.append(p_)
                            elif f.blocks[p_].term != "switch" and (f.blocks[p_].case is not None or f.blocks[p_].default) and not [e_ for e_ in f.blocks[p_].elems if e_["k"] not in ("int",)]:
                                work.append(p_)
                    ok = bool(chain) and "default" not in chain and chain <= (unreserved | extra)
                    det = "case labels %s" % sorted(chr(c) for c in chain if isinstance(c, int))
                else:
                    det = "under aws_isalnum(value)"
                R.check(ok, "ENCODER", "%s:raw-byte-line%d" % (name, x.get("loc", [0])[0]), "%s:%d in %s()" % (FILE, x.get("loc", [0])[0], name), "input byte stored unescaped only %s" % det,
                        "an input byte is stored unescaped outside the unreserved set of this encoder")
            else:
                ok = (rhs["k"] == "int" and rhs["v"] == ord("%")) or (rhs["k"] == "call" and rhs.get("callee") == "s_to_uppercase_hex")
                R.check(ok, "ENCODER", "%s:escape-byte-line%d" % (name, x.get("loc", [0])[0]), "%s:%d in %s()" % (FILE, x.get("loc", [0])[0], name), "escape byte is '%%' or an upper-case hex digit (%s)" % txt,
                        "the encoder stores %s, which is neither the input byte, '%%' nor s_to_uppercase_hex(...)" % txt)
        # arguments of s_to_uppercase_hex are below 16
        num = Num(f, P, C04.ParserHooks(), max_paths=5000)
        calls = f.calls("s_to_uppercase_hex")
        try:
            sts = num.states_at({c.node["id"] for c in calls})
        except Limit as ex:
            R.broken(str(ex))
            sts = {}
        for c in calls:
            okc, n = True, 0
            for st in sts.get(c.node["id"], []):
                s2 = st.copy()
                v = num.val(c.node["a"][0], s2)
                n += 1
                okc = okc and v is not None and entails(s2, v - 15) and entails(s2, -v)
            R.check(okc and n > 0, "ENCODER", "%s:nibble<16:line%d" % (name, c.line), where(f, c), "argument of s_to_uppercase_hex is within 0..15 in all %d states" % n)
    h = P.fn("s_to_uppercase_hex")
    if R.require(h is not None, "s_to_uppercase_hex not found"):
        R.fn(h)

        class H(C04.ParserHooks):
            def entry(self, num, st):
                v = C04._param(num, st, 0)
                st.add(v - 15)
        num = Num(h, P, H())
        rets = [x for b in h.blocks.values() for x in b.elems if x["k"] == "ret"]
        sts = num.states_at({r["id"] for r in rets})
        ok, n = True, 0
        for r in rets:
            for st in sts.get(r["id"], []):
                v = num.val(r["a"][0], st)
                arg = st.env.get("v:value")
                n += 1
                dec = v is not None and arg is not None and ((entails(st, arg - 9) and (v - arg - 48).is_const() and (v - arg - 48).cval() == 0) or (entails(st, Poly.const(10) - arg) and (v - arg - 55).is_const() and (v - arg - 55).cval() == 0))
                ok = ok and dec
        R.check(ok and n >= 2, "ENCODER", "s_to_uppercase_hex:digits", "%s()" % h.name, "returns '0'+v for v < 10 and 'A'+v-10 for 10 <= v < 16")
    # the decoder's table maps exactly these digits back
    g = None
    for nm, gg in P.globals.items():
        if nm in ("s_hex_to_num_table", "aws_lookup_table_hex_to_num", "s_lookup_table_hex_to_num"):
            g = gg
    get = P.fn("aws_lookup_table_hex_to_num_get")
    if g is None and get is not None:
        for e in get.returns():
            for x in get.walk(e.node, follow_refs=True):
                if x["k"] == "var" and x.get("sc") in ("global", "slocal") and x["n"] in P.globals:
                    g = P.globals[x["n"]]
    if R.require(g is not None and isinstance(g.get("init"), dict) and "array" in g["init"], "hex-to-number table not found"):
        tab = [e.get("int") for e in g["init"]["array"]]
        ok = len(tab) == 256 and all(tab[ord("0") + v] == v for v in range(10)) and all(tab[ord("A") + v - 10] == v for v in range(10, 16)) and all(tab[ord("a") + v - 10] == v for v in range(10, 16))
        others = [i for i, v in enumerate(tab) if v is not None and v != 255 and chr(i) not in "0123456789abcdefABCDEF"]
        R.check(ok and not others, "ENCODER", "hex-table-agrees", "%s:%s" % (g.get("file", "").replace("/repo/", ""), g.get("line")), "the decoder's hex table maps '0'-'9','A'-'F','a'-'f' to 0..15 and nothing else to a digit",
                "the hex table used by the percent decoder does not invert s_to_uppercase_hex (or accepts other characters: %s)" % others[:5])
    d = P.fn("aws_byte_buf_append_decoding_uri")
    if R.require(d is not None, "decoder not found"):
        rd = d.calls("aws_byte_cursor_read_hex_u8")
        R.check(len(rd) == 1 and any("c == 37" in d.show(d.d(c)) or "== 37" in d.show(d.d(c)) for c, pol, b in RU.guards(d, rd[0]) if pol), "ENCODER", "decoder:escape-only-after-percent", where(d, rd[0]) if rd else d.name,
                "two hex digits are consumed exactly when the byte read is '%'")


def query(R, P):
    f = P.fn("aws_query_string_params")
    g = P.fn("aws_query_string_next_param")
    if not R.require(f is not None and g is not None, "query functions not found"):
        return
    R.fn(f)
    nxt = f.calls("aws_query_string_next_param")
    push = f.calls("aws_array_list_push_back")
    loops = [b for b in f.blocks.values() if b.term == "while"]
    ok = len(nxt) == 1 and len(push) == 1 and len(loops) == 1 and RU.cond_call(f, loops[0].cond)[0] is nxt[0].node and argstr(f, nxt[0].node, 1) == argstr(f, push[0].node, 1) == "param"
    # every yielded pair is pushed: nothing but the loop condition guards the push
    ok = ok and all(RU.cond_call(f, c)[0] is nxt[0].node for c, pol, b in RU.guards(f, push[0]))
    R.check(ok, "QUERY", "params:is-the-iterator", "%s()" % f.name, "the list form pushes exactly the pairs the iterator yields, in order")
    ns = g.calls("aws_byte_cursor_next_split")
    R.check(len(ns) == 1 and g.is_const(RU.arg(g, ns[0].node, 1)) == ord("&"), "QUERY", "next_param:splits-on-ampersand", where(g, ns[0]) if ns else g.name, "pairs are separated at '&'")
    dw = [b for b in g.blocks.values() if b.term == "do" and b.cond is not None and g.show(b.cond) != "0"]
    R.check(len(dw) == 1 and g.show(dw[0].cond).replace(" ", "") in ("(substr.len==0)",), "QUERY", "next_param:skips-empty", "%s()" % g.name, "empty pairs are skipped")
    mc = [e for e in g.calls("memchr") if g.is_const(RU.arg(g, e.node, 1)) == ord("=")]
    R.check(len(mc) == 1 and "substr.ptr" in argstr(g, mc[0].node, 0), "QUERY", "next_param:first-equals", where(g, mc[0]) if mc else g.name, "key and value are split at the first '=' of the pair")


def analyse(ctx, replace=None, only=None):
    R = ctx.R
    units = [u for u in library_units(ctx.ex.repo) if "external" not in u]
    P = ctx.program(units, "ship", replace=replace)
    if not R.require(P.fn("s_parse_authority") is not None, "source/uri.c not analysed"):
        return
    # memory safety, progress, helper preconditions and summaries of uri.c (C04's rules, restricted to this file)
    C04.analyse(ctx, replace=replace, only={"files": [FILE], "rules": ["PROGRESS", "SUMMARY"]})
    own_copy(R, P)
    views(R, P)
    host_cursor(R, P)
    builder(R, P)
    alphabet(R, P)
    query(R, P)


MUTANTS = [
    {"name": "parse-callers-text", "file": FILE, "expect": "OWN-COPY", "old": "    struct aws_byte_cursor uri_cur = aws_byte_cursor_from_buf(&uri->uri_str);", "new": "    struct aws_byte_cursor uri_cur = aws_byte_cursor_from_array(uri->uri_str.buffer, uri->uri_str.capacity);"},
    {"name": "password-len-off", "file": FILE, "expect": "VIEW", "old": "parser->uri->userinfo.len - parser->uri->user.len - 1;", "new": "parser->uri->userinfo.len - parser->uri->user.len;"},
    {"name": "query-view-one-too-long", "file": FILE, "expect": "VIEW", "old": "        parser->uri->query_string.len = str->len - 1;", "new": "        parser->uri->query_string.len = str->len;"},
    {"name": "ipv6-test-on-whole-authority", "file": FILE, "expect": "HOST-CURSOR", "old": "        if (authority_parse_csr.len > 0 && authority_parse_csr.ptr[0] == '[') {", "new": "        if (parser->uri->authority.ptr[0] == '[') {"},
    {"name": "estimate-forgets-scheme-separator", "file": FILE, "expect": "BUILDER", "old": "        buffer_size += options->scheme.len + 3;", "new": "        buffer_size += options->scheme.len + 1;"},
    {"name": "estimate-forgets-ampersand", "file": FILE, "expect": "BUILDER", "old": "uri_param_ptr->key.len + uri_param_ptr->value.len + 2;", "new": "uri_param_ptr->key.len + uri_param_ptr->value.len + 1;"},
    {"name": "reserve-absolute", "file": FILE, "expect": "REQUIRES", "old": "    if (aws_byte_buf_reserve_relative(buffer, capacity_needed)) {", "new": "    if (aws_byte_buf_reserve(buffer, capacity_needed)) {"},
    {"name": "param-encoder-keeps-slash", "file": FILE, "expect": "ENCODER", "old": "        case '~': {\n            ++buffer->len;", "new": "        case '~':\n        case '/': {\n            ++buffer->len;"},
    {"name": "lowercase-hex", "file": FILE, "expect": "ENCODER", "old": "    return (uint8_t)('A' + value - 10);", "new": "    return (uint8_t)('a' + value - 10);"},
    {"name": "state-not-advanced", "file": FILE, "expect": "PROGRESS", "old": "    parser->uri->path.len = location_of_q_mark - str->ptr;\n    aws_byte_cursor_advance(str, parser->uri->path.len);\n    parser->state = ON_QUERY_STRING;", "new": "    parser->uri->path.len = location_of_q_mark - str->ptr;\n    aws_byte_cursor_advance(str, parser->uri->path.len);\n    parser->state = ON_PATH;"},
    {"name": "list-form-skips-push", "file": FILE, "expect": "QUERY", "old": "        if (aws_array_list_push_back(out_params, &param)) {", "new": "        if (param.value.len && aws_array_list_push_back(out_params, &param)) {"},
]
for _m in MUTANTS:
    _m.setdefault("scope", None)
