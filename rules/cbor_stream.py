"""STREAM: the vendored CBOR item decoder (libcbor cbor_stream_decode) never reads outside the `source_size` bytes it is given.

Shared by C04 (parsers stay inside their input) and C10 (every decoded item is the item that was encoded: a head read past the
claimed bytes is a value taken from memory behind the input).

  STREAM/loader     every big-endian loader (_cbor_load_uint8/16/32/64, _half/_float/_double) touches only the first W bytes
                    behind its argument, W from LOADER_W (NUM on the loader bodies with extent(source) = W; nested loader
                    calls are checked against the callee's W);
  STREAM/claimed    in cbor_stream_decode, with extent(source) = source_size and for all source_size and all header values:
                    every dereference of source, every loader call (W bytes at its argument) and every (pointer, length)
                    pair handed to a byte_string / string callback lies inside the source_size bytes (NUM; claim_bytes is
                    analysed from its body, including the wrap-around of its comparison);
  STREAM/claim-fn   claim_bytes refuses exactly when the request does not fit in what is left, for all size_t values, and
                    accounts for the claimed bytes (read grows by `required` on success)."""
from sa import rules as RU
from sa.awslib import AwsHooks, in_bounds
from sa.bounds import access_sites, addr_size, EntryExtents
from sa.num import Num, Poly, Limit, entails
from sa.rules import where

STREAM = "source/external/libcbor/cbor/streaming.c"
LOADERS = "source/external/libcbor/cbor/internal/loaders.c"
UNITS = [STREAM, LOADERS]
LOADER_W = {"_cbor_load_uint8": 1, "_cbor_load_uint16": 2, "_cbor_load_uint32": 4, "_cbor_load_uint64": 8,
            "_cbor_load_half": 2, "_cbor_decode_half": 2, "_cbor_load_float": 4, "_cbor_load_double": 8}
LOADER_RANGE = {"_cbor_load_uint8": (0, 2 ** 8 - 1), "_cbor_load_uint16": (0, 2 ** 16 - 1), "_cbor_load_uint32": (0, 2 ** 32 - 1), "_cbor_load_uint64": (0, 2 ** 64 - 1)}
DATA_CALLBACKS = {"byte_string", "string"}  # cbor_callbacks members taking (context, data, length)

DECIDED = [
    "STREAM/dispatch: for every initial byte (all case labels, via the states NUM reaches) cbor_stream_decode reports the item through the callback of that byte's major type and width and loads its argument with the loader of the announced width (RFC 8949 section 3); the multi-byte loaders assemble their bytes big-endian, each byte once",
    "STREAM: cbor_stream_decode reads only inside the source_size bytes it is given - every dereference, every big-endian loader call (widths verified from the loader bodies) and every (pointer, length) pair handed to the string callbacks - for all source_size and all header/length values, including lengths near SIZE_MAX (claim_bytes' comparison is analysed with wrap-around)",
]


class StreamHooks(AwsHooks):
    def call(self, num, st, e, args):
        c = e.get("callee") or ""
        if c in LOADER_W:
            num.__dict__.setdefault("loader_calls", []).append((e, st.copy(), args[0] if args else None))
            rng = LOADER_RANGE.get(c)
            t = num.ty(e)
            if c == "_cbor_load_uint8" and args and args[0] is not None:
                # one byte: the byte itself (the same cell the switch on the initial byte read)
                return num.cell_read(st, args[0], 1, t)
            if rng:
                return Poly.atom(num.fresh(st, c.replace("_cbor_", ""), t, rng))
            return None
        if not c and e.get("fn") is not None:
            via = RU.indirect_via(num.fn, e)
            if via and via[0] == "cbor_callbacks":
                num.__dict__.setdefault("cb_calls", []).append((e, st.copy(), via[1]))
                num.__dict__.setdefault("cb_args", {})[id(num.__dict__["cb_calls"][-1])] = args[1] if len(args) > 1 else None
                if via[1] in DATA_CALLBACKS:
                    num.__dict__.setdefault("data_calls", []).append((e, st.copy(), args[1] if len(args) > 1 else None, args[2] if len(args) > 2 else None))
                return None  # callbacks receive values, never a pointer to the decoder's locals
        return AwsHooks.call(self, num, st, e, args)


def loaders(R, P):
    n = 0
    for name, w in sorted(LOADER_W.items()):
        f = P.fn(name)
        if not R.require(f is not None, "loader %s not found" % name):
            continue
        R.fn(f)
        pn = f.params[0]["n"]
        hooks = EntryExtents(StreamHooks(), f, {pn: w})
        num = Num(f, P, hooks, max_paths=2000)
        sites = access_sites(f)
        try:
            sts = num.states_at({s[0] for s in sites} | {-1})
        except Limit as ex:
            R.broken("NUM trace limit in %s: %s" % (name, ex))
            continue
        ok, det, cnt = True, "", 0
        for eid, kind, nd in sites:
            for st in sts.get(eid, []):
                s2 = st.copy()
                for (D, sz, mode) in addr_size(num, s2, kind, nd):
                    r = in_bounds(s2, D, sz)
                    cnt += 1
                    if r[0] != "ok":
                        ok, det = False, "%s: %s" % (f.show(nd)[:60], r[1])
        for (e, st, a0) in getattr(num, "loader_calls", []):
            cw = LOADER_W[e["callee"]]
            r = in_bounds(st, a0, Poly.const(cw))
            cnt += 1
            if r[0] != "ok":
                ok, det = False, "%s needs %d bytes: %s" % (f.show(e)[:60], cw, r[1])
        n += 1
        R.check(ok and cnt > 0, "STREAM", "loader:%s" % name, "%s()" % name, "touches only the first %d byte(s) behind its argument (%d accesses)" % (w, cnt),
                "%s reads outside the %d byte(s) its callers claim for it: %s" % (name, w, det))
    return n


def claim_fn(R, P):
    f = P.fn("claim_bytes")
    if not R.require(f is not None, "claim_bytes not found"):
        return
    R.fn(f)
    num = Num(f, P, StreamHooks(), max_paths=2000)
    rets = [x for b in f.blocks.values() for x in b.elems if x["k"] == "ret"]

    class H(StreamHooks):
        def entry(self, num_, st):
            # callers keep result->read <= provided (established in cbor_stream_decode by STREAM/claimed)
            req = num_.read({"k": "var", "n": f.params[0]["n"], "sc": "param", "t": f.params[0]["t"], "id": -1}, st)
            prov = num_.read({"k": "var", "n": f.params[1]["n"], "sc": "param", "t": f.params[1]["t"], "id": -1}, st)
            res = num_.read({"k": "var", "n": f.params[2]["n"], "sc": "param", "t": f.params[2]["t"], "id": -1}, st)
            rd = num_.field(st, "(%r)->read" % res, "cbor_decoder_result", "read")
            st.add(rd - prov)
            st.notes["claim"] = (req, prov, rd)
    num = Num(f, P, H(), max_paths=2000)
    try:
        sts = num.states_at({r["id"] for r in rets})
    except Limit as ex:
        R.broken("NUM trace limit in claim_bytes: %s" % ex)
        return
    ok, det, cnt = True, "", 0
    for r in rets:
        for st in sts.get(r["id"], []):
            v = num.val(r["a"][0], st)
            req, prov, rd0 = st.notes["claim"]
            cnt += 1
            if v is None or not v.is_const():
                ok, det = False, "return value not decided on a path"
                continue
            if v.cval() == 0:
                # refused: the request really does not fit:  rd0 + req > prov
                if not entails(st, prov + 1 - rd0 - req):
                    ok, det = False, "a request that fits is refused (trail %s)" % st.trail[-4:]
            else:
                now = [x for k, x in st.env.items() if k.endswith(")->read")]
                if not entails(st, rd0 + req - prov):
                    ok, det = False, "a request of `required` bytes is granted although read + required can exceed provided (the comparison wraps for large `required`; trail %s)" % st.trail[-4:]
                elif len(now) != 1 or not (entails(st, now[0] - rd0 - req) and entails(st, rd0 + req - now[0])):
                    ok, det = False, "granted bytes are not added to result->read: %s" % now
    R.check(ok and cnt >= 2, "STREAM", "claim-fn", "%s:%d in claim_bytes()" % (STREAM, f.line), "grants exactly the requests that fit in provided - read, for all size_t values (%d states)" % cnt,
            "claim_bytes: %s" % det)


def claimed(R, P):
    f = P.fn("cbor_stream_decode")
    if not R.require(f is not None, "cbor_stream_decode not found"):
        return
    R.fn(f)
    hooks = EntryExtents(StreamHooks(), f, {"source": "source_size"})
    num = Num(f, P, hooks, max_paths=60000)
    sites = [s for s in access_sites(f) if "source" in f.show(s[2])]
    try:
        sts = num.states_at({s[0] for s in sites} | {-1})
    except Limit as ex:
        R.broken("NUM trace limit in cbor_stream_decode: %s" % ex)
        return
    n = 0
    for eid, kind, nd in sites:
        ok, det, cnt = True, "", 0
        for st in sts.get(eid, []):
            s2 = st.copy()
            for (D, sz, mode) in addr_size(num, s2, kind, nd):
                r = in_bounds(s2, D, sz)
                cnt += 1
                if r[0] != "ok":
                    ok, det = False, r[1]
        if cnt:
            n += 1
            R.check(ok, "STREAM", "claimed:%s:line%d" % (kind, nd.get("loc", [0])[0]), where(f, nd), "inside the source_size bytes (%d states)" % cnt, "the decoder reads input it has not been given: " + det)
    by = {}
    for (e, st, a0) in getattr(num, "loader_calls", []):
        w = LOADER_W[e["callee"]]
        r = in_bounds(st, a0, Poly.const(w)) if a0 is not None else ("fail", "argument not numeric")
        o = by.setdefault(e["id"], [e, True, "", 0])
        o[3] += 1
        if r[0] != "ok":
            o[1], o[2] = False, "%s | branch trail %s" % (r[1], st.trail[-4:])
    for (e, st, p, ln) in getattr(num, "data_calls", []):
        r = in_bounds(st, p, ln) if (p is not None and ln is not None) else ("fail", "argument not numeric")
        o = by.setdefault(e["id"], [e, True, "", 0])
        o[3] += 1
        if r[0] != "ok":
            o[1], o[2] = False, "%s | branch trail %s" % (r[1], st.trail[-4:])
    for eid, (e, ok, det, cnt) in sorted(by.items()):
        n += 1
        what = e.get("callee") or ("callbacks->%s" % (RU.indirect_via(f, e) or ("", "?"))[1])
        R.check(ok, "STREAM", "claimed:%s:line%d" % (what, e.get("loc", [0])[0]), where(f, e), "the bytes it reads were claimed first (%d states)" % cnt,
                "%s reads bytes of the input that were not claimed (past source_size): %s" % (what, det))
    R.require(n >= STREAM_MIN, "only %d read sites of cbor_stream_decode analysed (confirmed: >= %d)" % (n, STREAM_MIN))


STREAM_MIN = 36  # the 28 multi-byte heads, 3 floats and the string bodies; the embedded-value cases may share one read of the initial byte


def _case_of(st):
    import re
    for t in st.trail:
        m = re.match(r"\('case', (\d+)\)", str(t[2]))
        if m:
            return int(m.group(1))
    return None


def expected_callbacks(K):
    """RFC 8949 initial byte -> the libcbor callbacks that may report it (major type in the top 3 bits, width in the low 5)"""
    major, ai = K >> 5, K & 31
    w = {24: "8", 25: "16", 26: "32", 27: "64"}.get(ai, "8" if ai < 24 else None)
    if major == 0:
        return {"uint" + w} if w else set()
    if major == 1:
        return {"negint" + w} if w else set()
    if major in (2, 3):
        base = "byte_string" if major == 2 else "string"
        return {base} if ai <= 27 else ({base + "_start"} if ai == 31 else set())
    if major in (4, 5):
        base = "array_start" if major == 4 else "map_start"
        return {base} if ai <= 27 else ({"indef_" + base} if ai == 31 else set())
    if major == 6:
        return {"tag"} if ai <= 27 else set()
    return {20: {"boolean"}, 21: {"boolean"}, 22: {"null"}, 23: {"undefined"}, 25: {"float2"}, 26: {"float4"}, 27: {"float8"}, 31: {"indef_break"}}.get(ai, set())


def expected_loader(K):
    major, ai = K >> 5, K & 31
    if ai < 24:
        return {"_cbor_load_uint8"}
    if major == 7:
        return {25: {"_cbor_load_half"}, 26: {"_cbor_load_float"}, 27: {"_cbor_load_double"}}.get(ai, set())
    return {24: {"_cbor_load_uint8"}, 25: {"_cbor_load_uint16"}, 26: {"_cbor_load_uint32"}, 27: {"_cbor_load_uint64"}}.get(ai, set())


def dispatch(R, P):
    """STREAM/dispatch: for every initial byte the decoder invokes the callback of that byte's major type and width and
    loads the argument with the loader of that width (RFC 8949 section 3), decided per case label from the states NUM
    reaches; the loaders assemble their bytes big-endian."""
    f = P.fn("cbor_stream_decode")
    if f is None:
        return
    num = Num(f, P, EntryExtents(StreamHooks(), f, {"source": "source_size"}), max_paths=60000)
    try:
        num.states_at({-1})
    except Limit as ex:
        R.broken(str(ex))
        return
    seen, bad = set(), []
    for e, st, name in getattr(num, "cb_calls", []):
        K = _case_of(st)
        if K is None:
            bad.append("callback %s at line %d is reached outside the switch on the initial byte" % (name, e.get("loc", [0])[0]))
            continue
        seen.add(K)
        if name not in expected_callbacks(K):
            bad.append("initial byte 0x%02X (major type %d, additional information %d) is reported through callbacks->%s at line %d, expected %s" % (K, K >> 5, K & 31, name, e.get("loc", [0])[0], sorted(expected_callbacks(K)) or "no callback"))
    # embedded values: for additional information 0..23 of the major types 0..6 the value reported (integer, length, count,
    # tag number) is the additional information itself: initial byte minus the first byte of its group
    bade, ne = [], 0
    for rec_ in getattr(num, "cb_calls", []):
        e, st, name = rec_
        K = _case_of(st)
        if K is None or (K & 31) >= 24 or (K >> 5) == 7 or name in DATA_CALLBACKS:
            continue
        a1 = getattr(num, "cb_args", {}).get(id(rec_))
        ne += 1
        want = Poly.const(K & 31)
        if a1 is None or not (entails(st, a1 - want) and entails(st, want - a1)):
            bade.append("initial byte 0x%02X reports %r through callbacks->%s (line %d), its embedded value is %d" % (K, a1, name, e.get("loc", [0])[0], K & 31))
    R.check(not bade and ne >= 100, "STREAM", "dispatch:embedded-value-is-the-additional-information", "%s in cbor_stream_decode()" % STREAM, "%d embedded-value initial bytes report byte - group base" % ne,
            "an embedded value (integer / count / tag below 24) is reported wrong: %s" % "; ".join(bade[:3]))
    R.check(not bad and len(seen) >= 200, "STREAM", "dispatch:callback-matches-initial-byte", "%s in cbor_stream_decode()" % STREAM, "%d initial bytes each report through the callback of their major type and width" % len(seen),
            "the decoder reports an item as another kind than its initial byte says: %s" % "; ".join(bad[:3]))
    # ... and every item that is complete is reported: between the case label and the callback stands only the test that
    # the bytes are there (an empty string, length 0, is an item like any other)
    extra, ncb = [], 0
    for e in f.indirect_calls():
        via = RU.indirect_via(f, e.node)
        if not via or via[0] != "cbor_callbacks":
            continue
        ncb += 1
        for c_, p_, b_ in RU.guards(f, e):
            if f.blocks[b_].term == "switch" if hasattr(f.blocks.get(b_), "term") else False:
                continue
            cc, neg = RU.cond_call(f, c_)
            if cc is not None and cc.get("callee") == "claim_bytes" and (p_ != neg):
                continue
            extra.append("callbacks->%s at line %d also depends on `%s` being %s" % (via[1], e.line, f.show(c_)[:60], "true" if p_ else "false"))
    R.check(not extra and ncb >= 40, "STREAM", "dispatch:every-complete-item-reported", "%s in cbor_stream_decode()" % STREAM, "%d callback sites depend on nothing but the claim of their bytes" % ncb,
            "a complete item is consumed without being reported: %s (the decoder advances past it, the consumer never sees it - e.g. an empty byte/text string)" % "; ".join(extra[:3]))
    badl, nl = [], 0
    for e, st, a0 in getattr(num, "loader_calls", []):
        K = _case_of(st)
        if K is None:
            continue
        nl += 1
        if e["callee"] not in expected_loader(K):
            badl.append("initial byte 0x%02X loads its argument with %s at line %d, expected %s" % (K, e["callee"], e.get("loc", [0])[0], sorted(expected_loader(K))))
    R.check(not badl and nl >= 31, "STREAM", "dispatch:loader-matches-width", "%s in cbor_stream_decode()" % STREAM, "%d loader calls use the loader of the width the initial byte announces" % nl,
            "an argument is loaded with the wrong width: %s" % "; ".join(badl[:3]))
    # the loaders are big-endian: byte k of W contributes at shift 8*(W-1-k), each byte exactly once
    for name, w in sorted(LOADER_W.items()):
        if not name.startswith("_cbor_load_uint") or w == 1:
            continue
        g = P.fn(name)
        if g is None:
            continue
        terms = {}
        okshape = True

        def byte_offsets(n_):
            """offsets k of the source bytes read below n_: *(source + k), *source, source[k]"""
            out = []
            for y in g.walk(n_, follow_refs=True):
                if y["k"] == "index" and g.is_const(y["a"][1]) is not None:
                    out.append(g.is_const(y["a"][1]))
                elif y["k"] == "un" and y["op"] == "deref":
                    z = g.d(y["a"][0])
                    while z is not None and z["k"] == "cast":
                        z = g.d(z["a"][0])
                    if z is not None and z["k"] == "bin" and z["op"] == "+" and g.is_const(z["a"][1]) is not None:
                        out.append(g.is_const(z["a"][1]))
                    elif z is not None and z["k"] == "var":
                        out.append(0)
            return out
        for r_ in g.returns():
            shifted = set()
            for x in g.walk(r_.node, follow_refs=True):
                if x["k"] == "bin" and x["op"] == "<<":
                    sh = g.is_const(x["a"][1])
                    offs = byte_offsets(x["a"][0])
                    if sh is None or len(offs) != 1:
                        okshape = False
                    else:
                        terms[offs[0]] = sh
                        shifted.add(offs[0])
                elif x["k"] == "bin" and x["op"] not in ("+", "|", "<<"):
                    okshape = False  # the bytes are combined by + or | only (the shifted ranges are disjoint)
            # the unshifted last byte
            for k_ in byte_offsets(r_.node):
                if k_ not in shifted:
                    if k_ in terms and terms[k_] != 0:
                        okshape = False
                    terms[k_] = 0
        want = {k: 8 * (w - 1 - k) for k in range(w)}
        R.check(okshape and terms == want, "STREAM", "loader:%s:big-endian" % name, "%s in %s()" % (LOADERS, name), "byte k is shifted by 8*(%d-k): network byte order, every byte once" % (w - 1),
                "%s assembles its bytes as {offset: shift} = %s, big-endian is %s: multi-byte arguments (lengths, integers, the bits of doubles) decode to other values than were encoded" % (name, dict(sorted(terms.items())), want))


def stream_bounds(R, P):
    loaders(R, P)
    claim_fn(R, P)
    claimed(R, P)
    dispatch(R, P)


MUTANTS = [
    {"name": "embedded-array-count-masked-with-15", "file": STREAM, "expect": "STREAM", "old": "            context, _cbor_load_uint8(source) - 0x80); /* 0x40 offset */", "new": "            context, _cbor_load_uint8(source) & 0x0F); /* 0x40 offset */"},
    {"name": "empty-strings-not-reported", "file": STREAM, "expect": "STREAM", "old": "    if (claim_bytes(length, source_size, &result)) {                       \\\n      callbacks->callback_name(context, source + 1 + source_extra_offset,  \\", "new": "    if ((length) > 0 && claim_bytes(length, source_size, &result)) {       \\\n      callbacks->callback_name(context, source + 1 + source_extra_offset,  \\"},
    {"name": "two-byte-text-reported-as-bytes", "file": STREAM, "expect": "STREAM", "old": "      READ_CLAIM_INVOKE(string, _cbor_load_uint16, 2);", "new": "      READ_CLAIM_INVOKE(byte_string, _cbor_load_uint16, 2);"},
    {"name": "uint64-loader-swaps-two-bytes", "file": LOADERS, "expect": "STREAM", "old": "         ((uint32_t) * (source + 5) << 0x10) +\n         ((uint16_t) * (source + 6) << 0x08) + (uint8_t) * (source + 7);", "new": "         ((uint32_t) * (source + 6) << 0x10) +\n         ((uint16_t) * (source + 5) << 0x08) + (uint8_t) * (source + 7);"},
    {"name": "claim-comparison-can-wrap", "file": STREAM, "expect": "STREAM", "old": "  if (required > (provided - result->read)) {", "new": "  if (result->read + required > provided) {"},
    {"name": "two-byte-tag-claims-one", "file": STREAM, "expect": "STREAM",
     "old": "      if (claim_bytes(2, source_size, &result)) {\n        callbacks->tag(context, _cbor_load_uint16(source + 1));", "new": "      if (claim_bytes(1, source_size, &result)) {\n        callbacks->tag(context, _cbor_load_uint16(source + 1));"},
    {"name": "string-payload-offset-dropped", "file": STREAM, "expect": "STREAM",
     "old": "      callbacks->callback_name(context, source + 1 + source_extra_offset,  \\\n                               length);", "new": "      callbacks->callback_name(context, source + 2 + source_extra_offset,  \\\n                               length);"},
    {"name": "loader-reads-ninth-byte", "file": LOADERS, "expect": "STREAM", "old": "((uint16_t) * (source + 6) << 0x08) + (uint8_t) * (source + 7);", "new": "((uint16_t) * (source + 7) << 0x08) + (uint8_t) * (source + 8);"},
]
