"""STREAM: the vendored CBOR item decoder (libcbor cbor_stream_decode) never reads outside the `source_size` bytes it is given.

Shared by C04 (parsers stay inside their input) and C10 (every decoded item is the item that was encoded: a head read past the
claimed bytes is a value taken from memory behind the input).

  STREAM/loader     every big-endian loader (_cbor_load_uint8/16/32/64, _half/_float/_double) touches only the first W bytes
                    behind its argument, W from LOADER_W (NUM on the loader bodies with extent(source) = W; nested loader
                    calls are checked against the callee's W);
  STREAM/claimed    in cbor_stream_decode, with extent(source) = source_size and for all source_size and all header values:
                    every dereference of source, every loader call (W bytes at its argument) and every (pointer, length)
                    pair handed to a byte_string / string callback lies inside the source_size bytes (NUM; claim_bytes is
                    analysed from its body, including the wrap-around of its comparison);
  STREAM/claim-fn   claim_bytes refuses exactly when the request does not fit in what is left, for all size_t values, and
                    accounts for the claimed bytes (read grows by `required` on success)."""
from sa import rules as RU
from sa.awslib import AwsHooks, in_bounds
from sa.bounds import access_sites, addr_size, EntryExtents
from sa.num import Num, Poly, Limit, entails
from sa.rules import where

STREAM = "source/external/libcbor/cbor/streaming.c"
LOADERS = "source/external/libcbor/cbor/internal/loaders.c"
UNITS = [STREAM, LOADERS]
LOADER_W = {"_cbor_load_uint8": 1, "_cbor_load_uint16": 2, "_cbor_load_uint32": 4, "_cbor_load_uint64": 8,
            "_cbor_load_half": 2, "_cbor_decode_half": 2, "_cbor_load_float": 4, "_cbor_load_double": 8}
LOADER_RANGE = {"_cbor_load_uint8": (0, 2 ** 8 - 1), "_cbor_load_uint16": (0, 2 ** 16 - 1), "_cbor_load_uint32": (0, 2 ** 32 - 1), "_cbor_load_uint64": (0, 2 ** 64 - 1)}
DATA_CALLBACKS = {"byte_string", "string"}  # cbor_callbacks members taking (context, data, length)

DECIDED = [
    "STREAM: cbor_stream_decode reads only inside the source_size bytes it is given - every dereference, every big-endian loader call (widths verified from the loader bodies) and every (pointer, length) pair handed to the string callbacks - for all source_size and all header/length values, including lengths near SIZE_MAX (claim_bytes' comparison is analysed with wrap-around)",
]


class StreamHooks(AwsHooks):
    def call(self, num, st, e, args):
        c = e.get("callee") or ""
        if c in LOADER_W:
            num.__dict__.setdefault("loader_calls", []).append((e, st.copy(), args[0] if args else None))
            rng = LOADER_RANGE.get(c)
            t = num.ty(e)
            if rng:
                return Poly.atom(num.fresh(st, c.replace("_cbor_", ""), t, rng))
            return None
        if not c and e.get("fn") is not None:
            via = RU.indirect_via(num.fn, e)
            if via and via[0] == "cbor_callbacks":
                if via[1] in DATA_CALLBACKS:
                    num.__dict__.setdefault("data_calls", []).append((e, st.copy(), args[1] if len(args) > 1 else None, args[2] if len(args) > 2 else None))
                return None  # callbacks receive values, never a pointer to the decoder's locals
        return AwsHooks.call(self, num, st, e, args)


def loaders(R, P):
    n = 0
    for name, w in sorted(LOADER_W.items()):
        f = P.fn(name)
        if not R.require(f is not None, "loader %s not found" % name):
            continue
        R.fn(f)
        pn = f.params[0]["n"]
        hooks = EntryExtents(StreamHooks(), f, {pn: w})
        num = Num(f, P, hooks, max_paths=2000)
        sites = access_sites(f)
        try:
            sts = num.states_at({s[0] for s in sites} | {-1})
        except Limit as ex:
            R.broken("NUM trace limit in %s: %s" % (name, ex))
            continue
        ok, det, cnt = True, "", 0
        for eid, kind, nd in sites:
            for st in sts.get(eid, []):
                s2 = st.copy()
                for (D, sz, mode) in addr_size(num, s2, kind, nd):
                    r = in_bounds(s2, D, sz)
                    cnt += 1
                    if r[0] != "ok":
                        ok, det = False, "%s: %s" % (f.show(nd)[:60], r[1])
        for (e, st, a0) in getattr(num, "loader_calls", []):
            cw = LOADER_W[e["callee"]]
            r = in_bounds(st, a0, Poly.const(cw))
            cnt += 1
            if r[0] != "ok":
                ok, det = False, "%s needs %d bytes: %s" % (f.show(e)[:60], cw, r[1])
        n += 1
        R.check(ok and cnt > 0, "STREAM", "loader:%s" % name, "%s()" % name, "touches only the first %d byte(s) behind its argument (%d accesses)" % (w, cnt),
                "%s reads outside the %d byte(s) its callers claim for it: %s" % (name, w, det))
    return n


def claim_fn(R, P):
    f = P.fn("claim_bytes")
    if not R.require(f is not None, "claim_bytes not found"):
        return
    R.fn(f)
    num = Num(f, P, StreamHooks(), max_paths=2000)
    rets = [x for b in f.blocks.values() for x in b.elems if x["k"] == "ret"]

    class H(StreamHooks):
        def entry(self, num_, st):
            # callers keep result->read <= provided (established in cbor_stream_decode by STREAM/claimed)
            req = num_.read({"k": "var", "n": f.params[0]["n"], "sc": "param", "t": f.params[0]["t"], "id": -1}, st)
            prov = num_.read({"k": "var", "n": f.params[1]["n"], "sc": "param", "t": f.params[1]["t"], "id": -1}, st)
            res = num_.read({"k": "var", "n": f.params[2]["n"], "sc": "param", "t": f.params[2]["t"], "id": -1}, st)
            rd = num_.field(st, "(%r)->read" % res, "cbor_decoder_result", "read")
            st.add(rd - prov)
            st.notes["claim"] = (req, prov, rd)
    num = Num(f, P, H(), max_paths=2000)
    try:
        sts = num.states_at({r["id"] for r in rets})
    except Limit as ex:
        R.broken("NUM trace limit in claim_bytes: %s" % ex)
        return
    ok, det, cnt = True, "", 0
    for r in rets:
        for st in sts.get(r["id"], []):
            v = num.val(r["a"][0], st)
            req, prov, rd0 = st.notes["claim"]
            cnt += 1
            if v is None or not v.is_const():
                ok, det = False, "return value not decided on a path"
                continue
            if v.cval() == 0:
                # refused: the request really does not fit:  rd0 + req > prov
                if not entails(st, prov + 1 - rd0 - req):
                    ok, det = False, "a request that fits is refused (trail %s)" % st.trail[-4:]
            else:
                now = [x for k, x in st.env.items() if k.endswith(")->read")]
                if not entails(st, rd0 + req - prov):
                    ok, det = False, "a request of `required` bytes is granted although read + required can exceed provided (the comparison wraps for large `required`; trail %s)" % st.trail[-4:]
                elif len(now) != 1 or not (entails(st, now[0] - rd0 - req) and entails(st, rd0 + req - now[0])):
                    ok, det = False, "granted bytes are not added to result->read: %s" % now
    R.check(ok and cnt >= 2, "STREAM", "claim-fn", "%s:%d in claim_bytes()" % (STREAM, f.line), "grants exactly the requests that fit in provided - read, for all size_t values (%d states)" % cnt,
            "claim_bytes: %s" % det)


def claimed(R, P):
    f = P.fn("cbor_stream_decode")
    if not R.require(f is not None, "cbor_stream_decode not found"):
        return
    R.fn(f)
    hooks = EntryExtents(StreamHooks(), f, {"source": "source_size"})
    num = Num(f, P, hooks, max_paths=60000)
    sites = [s for s in access_sites(f) if "source" in f.show(s[2])]
    try:
        sts = num.states_at({s[0] for s in sites} | {-1})
    except Limit as ex:
        R.broken("NUM trace limit in cbor_stream_decode: %s" % ex)
        return
    n = 0
    for eid, kind, nd in sites:
        ok, det, cnt = True, "", 0
        for st in sts.get(eid, []):
            s2 = st.copy()
            for (D, sz, mode) in addr_size(num, s2, kind, nd):
                r = in_bounds(s2, D, sz)
                cnt += 1
                if r[0] != "ok":
                    ok, det = False, r[1]
        if cnt:
            n += 1
            R.check(ok, "STREAM", "claimed:%s:line%d" % (kind, nd.get("loc", [0])[0]), where(f, nd), "inside the source_size bytes (%d states)" % cnt, "the decoder reads input it has not been given: " + det)
    by = {}
    for (e, st, a0) in getattr(num, "loader_calls", []):
        w = LOADER_W[e["callee"]]
        r = in_bounds(st, a0, Poly.const(w)) if a0 is not None else ("fail", "argument not numeric")
        o = by.setdefault(e["id"], [e, True, "", 0])
        o[3] += 1
        if r[0] != "ok":
            o[1], o[2] = False, "%s | branch trail %s" % (r[1], st.trail[-4:])
    for (e, st, p, ln) in getattr(num, "data_calls", []):
        r = in_bounds(st, p, ln) if (p is not None and ln is not None) else ("fail", "argument not numeric")
        o = by.setdefault(e["id"], [e, True, "", 0])
        o[3] += 1
        if r[0] != "ok":
            o[1], o[2] = False, "%s | branch trail %s" % (r[1], st.trail[-4:])
    for eid, (e, ok, det, cnt) in sorted(by.items()):
        n += 1
        what = e.get("callee") or ("callbacks->%s" % (RU.indirect_via(f, e) or ("", "?"))[1])
        R.check(ok, "STREAM", "claimed:%s:line%d" % (what, e.get("loc", [0])[0]), where(f, e), "the bytes it reads were claimed first (%d states)" % cnt,
                "%s reads bytes of the input that were not claimed (past source_size): %s" % (what, det))
    R.require(n >= STREAM_MIN, "only %d read sites of cbor_stream_decode analysed (confirmed: >= %d)" % (n, STREAM_MIN))


STREAM_MIN = 45


def stream_bounds(R, P):
    loaders(R, P)
    claim_fn(R, P)
    claimed(R, P)


MUTANTS = [
    {"name": "claim-comparison-can-wrap", "file": STREAM, "expect": "STREAM", "old": "  if (required > (provided - result->read)) {", "new": "  if (result->read + required > provided) {"},
    {"name": "two-byte-tag-claims-one", "file": STREAM, "expect": "STREAM",
     "old": "      if (claim_bytes(2, source_size, &result)) {\n        callbacks->tag(context, _cbor_load_uint16(source + 1));", "new": "      if (claim_bytes(1, source_size, &result)) {\n        callbacks->tag(context, _cbor_load_uint16(source + 1));"},
    {"name": "string-payload-offset-dropped", "file": STREAM, "expect": "STREAM",
     "old": "      callbacks->callback_name(context, source + 1 + source_extra_offset,  \\\n                               length);", "new": "      callbacks->callback_name(context, source + 2 + source_extra_offset,  \\\n                               length);"},
    {"name": "loader-reads-ninth-byte", "file": LOADERS, "expect": "STREAM", "old": "((uint16_t) * (source + 6) << 0x08) + (uint8_t) * (source + 7);", "new": "((uint16_t) * (source + 7) << 0x08) + (uint8_t) * (source + 8);"},
]
