"""C03 - small-block allocator (DESIGN.md section 4, C03)."""
from sa import rules as RU
from sa.cfg import Typestate, dominators, ev_dominates
from sa.rules import argstr, where

FILE = "source/allocator_sba.c"
BIN_FIELDS = ("page_cursor", "active_pages", "free_chunks")
TAG = 0x736f6d6570736575

DECIDED = [
    "LOCK: bin state (page_cursor, active_pages, free_chunks) and page alloc_count are touched only under the bin's lock (init / clean-up exempt); the two lowest-level functions require the caller's lock of the same bin and never drop it; lock and unlock are paired on every path",
    "PAIR: every non-NULL chunk handed out increments its own page's alloc_count exactly once; a free decrements exactly once",
    "METRICS (under PAGE-RELEASE): bytes_active adds page->alloc_count * bin->size for every page of the active list and for the working page, nothing else; the purge window of a released page covers the whole page (NUM: page_end >= page + page size, page_start <= page + header)",
    "PAGE-RELEASE/tags-erased: every page handed back to the system (s_aligned_free, in the free path and at destroy) has its header wiped with aws_secure_zero first - plain stores before free() are dead stores the optimiser removes (found D19, fixed)",
    "PAGE-RELEASE: an empty page is released exactly when alloc_count == 0 and it is not the working page, after its chunks were purged from the free list, it was removed from active_pages and its tags were erased; nothing touches it afterwards",
    "CLASSIFY: small/large decided only against s_max_bin_size; free goes to a bin only when both page tags match; page binding writes both tags and the bin; size-class table is 32*2^i, sorted, ends at s_max_bin_size, all sizes and the page header are multiples of 16",
    "REALLOC/CALLOC: the copy of old_size bytes is dominated by old_size <= new_size and precedes the free of the old block; calloc zeroes exactly the allocation size",
    "DESTROY: clean-up frees every active page and the working page of every bin and cleans both lists and the mutex",
]
NOT_DECIDED = ["disjointness of live blocks and metric equality as run-time facts over histories", "interleavings (only the lock protocol)"]
ASSUMPTIONS = ["posix_memalign returns memory aligned as requested", "aws_array_list operations behave as a sequence (C09)",
               "the contents of live blocks do not forge a page header: the small/large decision reads the two 64-bit tags at the 4 KiB boundary below the block, which for a large block lies in memory the allocator does not own (a neighbouring user block holding the tag value twice at that boundary makes release take the small-block path; the property quantifies over histories and sizes, not over block contents)"]


def sba_lock(fn, call):
    via = RU.indirect_via(fn, call)
    if via == ("small_block_allocator", "lock"):
        return ("lock", argstr(fn, call, 0))
    if via == ("small_block_allocator", "unlock"):
        return ("unlock", argstr(fn, call, 0))
    return None


LK = {"indirect_lock": sba_lock}


def assignment_of(f, ev):
    for b in f.blocks.values():
        for el in b.elems:
            for n in f.walk(el):
                if n["k"] == "bin" and n["op"] in ("=", "+=", "-=") and f.d(n["a"][0]) is ev.node:
                    return n
    return None


def analyse(ctx, replace=None, only=None):
    R = ctx.R
    P = ctx.program([FILE, "source/allocator.c"], "ship", replace=replace)
    fns = {f.name: f for f in P.functions_in("allocator_sba.c")}
    need = ["s_sba_alloc_from_bin", "s_sba_free_to_bin", "s_sba_alloc", "s_sba_free", "s_page_bind", "s_sba_clean_up", "s_sba_init", "s_sba_mem_realloc", "s_sba_mem_calloc",
            "aws_small_block_allocator_bytes_active", "aws_small_block_allocator_bytes_reserved", "s_sba_find_bin"]
    for n in need:
        if not R.require(n in fns, "anchor function %s not found" % n):
            return
    for f in fns.values():
        R.fn(f)
    lock_rules(R, fns)
    pairing(R, fns)
    page_release(R, fns, P)
    classify(R, P, fns)
    metrics(R, P, fns)
    emulated_realloc(R, P)
    realloc_calloc(R, fns)
    destroy(R, fns)
    calloc_product(R, P, fns)


def lock_rules(R, fns):
    requires = {"s_sba_alloc_from_bin", "s_sba_free_to_bin", "s_page_bind"}
    entry, sites, problems = RU.entry_locksets(fns, requires, lock_kw=LK)
    for p in problems:
        R.broken(p)
    n = 0
    for name, f in sorted(fns.items()):
        ts = RU.lockset(f, init=entry.get(name, frozenset()), **LK)
        acc = f.field_accesses(rec="sba_bin", field=BIN_FIELDS) + f.field_accesses(rec="page_header", field="alloc_count")
        for e in acc:
            n += 1
            inst = "%s:%s" % (name, e.node["f"])
            if name in ("s_sba_init", "s_sba_clean_up"):
                R.ok("LOCK", inst, where(f, e), "allocator not yet / no longer shared")
                continue
            held = RU.held_at(ts, e)
            if e.node.get("rec") == "sba_bin":
                want = f.show(e.node["a"][0], alias=True) + "->mutex"
                ok = held is not None and want in held
            else:
                want = "<bin>->mutex"
                ok = held is not None and any(h.endswith("->mutex") for h in held)
            if name == "s_page_bind" and not ok:
                # page not yet published: reached only from the requires-lock allocator path (call sites checked below)
                ok = bool(sites.get(name))
            R.check(ok, "LOCK", inst, where(f, e), "%s held%s" % (want, (" (requires-lock; sites %s)" % sites.get(name)) if name in requires else ""),
                    "%s accessed without the bin lock %s (held on all paths: %s)" % (e.node["f"], want, sorted(held or [])))
        # lock balance and continuity
        ops = [e for e in f.indirect_calls() if sba_lock(f, e.node)]
        if name in requires:
            R.check(not ops, "LOCK", "continuity:%s" % name, "%s()" % name, "requires-lock function never drops or retakes the caller's lock",
                    "a requires-lock function releases/re-acquires the bin lock in the middle: the caller's critical section is split (another thread can change the bin between the check and the update)")
        elif ops:
            leaked = set()
            for s in ts.exit_states:
                leaked |= set(s)
            R.check(not leaked, "LOCK", "no-lock-at-exit:%s" % name, "%s()" % name, "every path unlocks", "returns while holding %s" % sorted(leaked))
            for e in ops:
                k, m = sba_lock(f, e.node)
                held = RU.held_at(ts, e) or set()
                if k == "unlock":
                    R.check(m in held, "LOCK", "unlock-held:%s" % name, where(f, e), "unlocks a held lock", "unlock of %s which is not held" % m)
                else:
                    R.check(m not in held, "LOCK", "no-relock:%s" % name, where(f, e), "lock not already held", "locks %s twice" % m)
    for r in ("s_sba_alloc_from_bin", "s_sba_free_to_bin"):
        R.check(bool(entry.get(r)), "LOCK", "requires-lock:%s" % r, "%s()" % r, "every call site holds the lock of the bin it passes (%s)" % sites.get(r),
                "a call site of %s does not hold the lock of the bin it passes (sites %s)" % (r, sites.get(r)))
    R.require(n >= 30, "only %d guarded bin/page accesses found (confirmed: >= 30)" % n)


def pairing(R, fns):
    f = fns["s_sba_alloc_from_bin"]
    incs = [e for e in f.field_accesses(rec="page_header", field="alloc_count", modes=("rw",))]
    R.require(len(incs) == 2, "alloc_from_bin: expected two alloc_count increments (reuse and carve), found %d" % len(incs))

    def tr(e, s):
        if any(e is i for i in incs):
            return min(s + 1, 2)
        return s

    ts = Typestate(f, 0, tr)
    points = []
    for r0 in f.returns():
        v0 = RU.uncast(f, f.d(r0.node["a"][0])) if r0.node["a"] else None
        stores = []
        if v0 is not None and v0["k"] == "var" and "$" in v0["n"]:
            # the result variable of an expanded helper: each store into it is a return of that helper
            for e0 in f.all_events():
                if e0.kind == "access" and e0.mode == "w" and e0.node["k"] == "var" and e0.node["n"] == v0["n"]:
                    for b0 in f.blocks.values():
                        for el0 in b0.elems:
                            if el0["k"] == "bin" and el0["op"] == "=" and f.d(el0["a"][0]) is e0.node:
                                stores.append((e0, RU.uncast(f, el0["a"][1])))
        points.extend(stores if len(stores) >= 2 else [(r0, v0)])
    for r, vu in points:
        counts = ts.before.get(r.pos, set())
        if vu is not None and f.is_const(vu) == 0:
            continue
        if vu is not None and vu["k"] == "call" and vu.get("callee") == f.name:
            R.check(counts == {0}, "PAIR", "alloc:retry-delegates", where(f, r), "the restart after fetching a page has not counted anything itself", "count already incremented before the restart")
            continue
        R.check(counts == {1}, "PAIR", "alloc:chunk-counted-once", where(f, r), "returned chunk counted exactly once", "a chunk is returned with its page's alloc_count incremented %s times" % sorted(counts))
        # the page incremented is the page of the returned chunk
        if vu is not None and vu["k"] == "var":
            chunk = vu["n"]
            okp = False
            for i in incs:
                if not ev_dominates(f, i, r):
                    continue
                pg = f.d(i.node["a"][0])
                init = None
                for e in f.all_events():
                    if e.kind == "decl":
                        for vv in e.node["vars"]:
                            if pg["k"] == "var" and vv["n"] == pg["n"] and ev_dominates(f, e, i):
                                init = RU.uncast(f, vv.get("init"))
                cinit = None
                for e in f.all_events():
                    if e.kind == "decl":
                        for vv in e.node["vars"]:
                            if vv["n"] == chunk and ev_dominates(f, e, r) and vv.get("init"):
                                cinit = f.show(RU.uncast(f, vv["init"]))
                if init is not None and init["k"] == "call" and init.get("callee") == "s_page_base":
                    a = f.show(RU.arg(f, init, 0))
                    okp = a in (chunk, cinit)
            R.check(okp, "PAIR", "alloc:counts-the-chunks-own-page", where(f, r), "the page counted is the page containing the returned chunk",
                    "the alloc_count incremented does not belong to the page of the returned chunk")
    f = fns["s_sba_free_to_bin"]
    decs = [e for e in f.field_accesses(rec="page_header", field="alloc_count", modes=("rw",))]
    R.require(len(decs) == 1, "free_to_bin: expected one alloc_count decrement")
    if decs:
        ts = Typestate(f, 0, lambda e, s: min(s + 1, 2) if e is decs[0] else s)
        R.check(ts.exit_states == {1}, "PAIR", "free:decrement-exactly-once", "%s()" % f.name, "alloc_count decremented exactly once on every path")
        pg = f.d(decs[0].node["a"][0])
        init = f.aliases().get(pg["n"]) if pg["k"] == "var" else None
        ok = False
        for e in f.all_events():
            if e.kind == "decl":
                for vv in e.node["vars"]:
                    if pg["k"] == "var" and vv["n"] == pg["n"]:
                        i = RU.uncast(f, vv.get("init"))
                        ok = i is not None and i["k"] == "call" and i.get("callee") == "s_page_base" and f.show(RU.arg(f, i, 0)) == "addr"
        R.check(ok, "PAIR", "free:counts-the-chunks-own-page", where(f, decs[0]), "the page decremented is the page containing the freed chunk")
        # keep-or-release: a chunk not released with its page goes back on the free list
        pushes = [e for e in f.calls("aws_array_list_push_back") if (RU.strip_addr(f, RU.arg(f, e.node, 0)) or {}).get("f") == "free_chunks"]
        frees = f.calls(page_free_fns(fns))

        def tr2(e, s):
            if any(e is p for p in pushes):
                return s + ("P",)
            if any(e is x for x in frees):
                return s + ("F",)
            return s

        ts2 = Typestate(f, (), tr2)
        R.check(ts2.exit_states <= {("P",), ("F",)} and len(ts2.exit_states) == 2, "PAIR", "free:chunk-recycled-or-page-released", "%s()" % f.name,
                "every free either pushes the chunk on the free list or releases its (empty) page - exactly one of the two", "exit effects: %s" % sorted(ts2.exit_states))
        for p in pushes:
            R.check(argstr(f, p.node, 1) == "addr", "PAIR", "free:pushes-freed-chunk", where(f, p), "the freed address is what is recycled")


def page_free_fns(fns):
    """s_aligned_free and the static helpers that release the page they are given on every path"""
    out = {"s_aligned_free"}
    for name, g in fns.items():
        if name == "s_aligned_free" or len(g.params) != 1:
            continue
        cs = g.calls("s_aligned_free")
        if len(cs) == 1 and argstr(g, cs[0].node, 0, addr=False) == g.params[0]["n"]:
            ts = Typestate(g, 0, lambda e, s: 1 if e is cs[0] else s)
            if ts.exit_states == {1}:
                out.add(name)
    return out


def _is_working_page_test(f, l, r, pg, blk):
    """one side is the page about to be released, the other the base of the page the cursor is in - written in place or
    computed into a local beforehand (nothing in between may move the cursor: RU.origin's staleness rule)"""
    evs = f.events()[blk]
    use = evs[-1] if evs else None
    forms = []
    for x in (l, r):
        o = RU.origin(f, x, use) if use is not None else x
        forms.append({f.show(x), f.show(o) if o is not None else None})
    wp = "s_page_base(bin->page_cursor)"
    return (pg in forms[0] and wp in forms[1]) or (pg in forms[1] and wp in forms[0])


def page_release(R, fns, P=None):
    f = fns["s_sba_free_to_bin"]
    dom = dominators(f)
    frees = f.calls(page_free_fns(fns))
    R.require(len(frees) == 1, "free_to_bin: expected one page release")
    if not frees:
        return
    fr = frees[0]
    pg = argstr(f, fr.node, 0, addr=False, alias=False)
    gs = RU.guards(f, fr, dom)
    kinds = []
    for c, p, b in gs:
        if f.blocks[b].term in ("for", "while", "do") and p is False:
            continue  # leaving an earlier loop is not a condition on the release
        g = RU.cmp_norm(f, c, p)
        if not g:
            kinds.append("?")
            continue
        l, op, r = g
        lu, ru = RU.uncast(f, l), RU.uncast(f, r) if r is not None else None
        if lu["k"] == "member" and lu["f"] == "alloc_count" and f.show(lu["a"][0]) == pg and ru is not None and f.is_const(ru) == 0 and op in ("==", "<="):
            kinds.append("empty")
        elif op == "!=" and ru is not None and _is_working_page_test(f, lu, ru, pg, b):
            kinds.append("not-working-page")
        else:
            kinds.append("other:" + f.show(f.d(c)) + ("" if p else " [false]"))
    R.check("empty" in kinds, "PAGE-RELEASE", "only-when-empty", where(f, fr), "page released only when alloc_count == 0", "page released without the alloc_count == 0 test (guards: %s)" % kinds)
    R.check("not-working-page" in kinds, "PAGE-RELEASE", "never-the-working-page", where(f, fr), "the working page is never released", "the page being carved from can be released (guards: %s)" % kinds)
    extra = [k for k in kinds if k.startswith("other") or k == "?"]
    R.check(not extra, "PAGE-RELEASE", "always-when-empty", where(f, fr), "no further condition: every empty non-working page is released",
            "the release of an empty page is subject to an extra condition %s: empty pages can be retained without bound" % extra)
    # steps before the release
    loops = [b for b in f.blocks.values() if b.term in ("for", "while", "do")]

    def loop_with(callee, field):
        out = []
        for e in f.calls(callee):
            if (RU.strip_addr(f, RU.arg(f, e.node, 0)) or {}).get("f") == field:
                out.append(e)
        return out

    purge = loop_with("aws_array_list_pop_back", "free_chunks")
    deact = loop_with("aws_array_list_pop_back", "active_pages")
    R.check(bool(purge) and all(e not in RU.reach_from(f, fr) for e in purge) and any(fr in RU.reach_from(f, e) for e in purge), "PAGE-RELEASE", "free-list-purged-first", where(f, fr),
            "chunks of the page are purged from the free list before the page is released", "the page is released without purging its chunks from the free list: freed memory would be handed out again")
    def window(e):
        """(chunk var, lower bound node, upper bound node) of the range test `chunk >= LO && chunk < HI` guarding e"""
        lo = hi = None
        for c_, p_, b_ in RU.guards(f, e, dom):
            g_ = RU.cmp_norm(f, c_, p_)
            if not g_ or g_[2] is None:
                continue
            l_, r_ = RU.uncast(f, g_[0]), RU.uncast(f, g_[2])
            if l_ is None or r_ is None:
                continue
            pt = lambda n_: bool(f.ty(n_).get("ptr"))
            if g_[1] == ">=" and l_["k"] == "var" and pt(l_):
                lo = (l_["n"], g_[2])
            elif g_[1] == "<=" and r_["k"] == "var" and pt(r_):
                lo = (r_["n"], g_[0])
            elif g_[1] == "<" and l_["k"] == "var" and pt(l_):
                hi = (l_["n"], g_[2])
            elif g_[1] == ">" and r_["k"] == "var" and pt(r_):
                hi = (r_["n"], g_[0])
        if lo and hi and lo[0] == hi[0]:
            return lo[0], lo[1], hi[1]
        return None
    for e in purge:
        gk = [f.show(f.d(c)) for c, p, b in RU.guards(f, e, dom) if p]
        R.check(window(e) is not None, "PAGE-RELEASE", "purge-range-test", where(f, e),
                "only chunks inside a half-open address window are purged (%s)" % gk, "purge is not limited to an address window [lo, hi) of the chunk: %s" % gk)
    # the purge window covers the whole page (NUM): it starts at or before the first chunk and ends at or after the end of
    # the page, so no chunk of the page survives on the free list (the 32-byte class has a chunk ending exactly at the end)
    from sa.num import Num, Poly, Limit, entails
    from sa.awslib import AwsHooks
    al = P.fn("s_sba_alloc_from_bin") or f
    psz = None
    for g_ in P.functions_in("source/allocator_sba.c"):
        for e in g_.calls("s_aligned_alloc"):
            v_ = g_.is_const(RU.arg(g_, e.node, 0))
            if v_:
                psz = v_
    hdr = None
    rec = P.records.get("page_header")
    if rec is not None:
        hdr = rec.get("size")
    if R.require(psz is not None and purge, "page size (s_aligned_alloc argument) or purge loop not found"):
        num = Num(f, P, AwsHooks(), max_paths=4000)
        try:
            sts = num.states_at({purge[0].node["id"]})
        except Limit as ex:
            R.broken(str(ex))
            sts = {}
        okw, det, cnt = True, "", 0
        for st in sts.get(purge[0].node["id"], []):
            w_ = window(purge[0])
            pgn = RU.arg(f, fr.node, 0) if fr.node.get("a") else None
            pgv = num.val(pgn, st) if pgn is not None else None
            psv = num.val(w_[1], st) if w_ else None
            pev = num.val(w_[2], st) if w_ else None
            cnt += 1
            if pgv is None or psv is None or pev is None:
                okw, det = False, "page / page_start / page_end not tracked"
                continue
            if not entails(st, pgv + psz - pev):
                okw, det = False, "page_end = %r is not provably >= page + %d" % (pev, psz)
            if not entails(st, psv - pgv - (hdr or 64)):
                okw, det = False, "page_start = %r is not provably <= page + header" % psv
        R.check(okw and cnt > 0, "PAGE-RELEASE", "purge-window-covers-the-page", where(f, purge[0]), "page_start <= first chunk and page_end >= page + %d in all %d states" % (psz, cnt),
                "the purge window does not cover the whole page (%s): a chunk at the end of the page stays on the free list after the page is released and is handed out again" % det)
    R.check(bool(deact) and any(fr in RU.reach_from(f, e) for e in deact), "PAGE-RELEASE", "removed-from-active-pages", where(f, fr), "page removed from active_pages before release",
            "released page stays in active_pages: it is freed again at destroy and counted by the metrics")
    for e in deact:
        gk = [f.show(f.d(c)) for c, p, b in RU.guards(f, e, dom) if p]
        R.check(any("==" in g and pg in g for g in gk), "PAGE-RELEASE", "removes-that-page", where(f, e), "the entry removed is the released page (%s)" % gk)
    erase_before_free(R, fns)
    later = RU.dead_after(f, fr, pg)
    R.check(not later, "PAGE-RELEASE", "dead-after-release", where(f, fr), "page not touched after release", "page used after release at %s" % [x.line for x in later][:3])
    # after releasing the page the freed chunk must not be recycled: the release path returns
    pushes = [e for e in RU.reach_from(f, fr) if e.kind == "call" and e.node.get("callee") == "aws_array_list_push_back"]
    R.check(not pushes, "PAGE-RELEASE", "no-recycle-after-release", where(f, fr), "the chunk of a released page is not pushed on the free list")


def erase_before_free(R, fns):
    """PAGE-RELEASE/tags-erased: the header of every page handed back to the system is wiped in a way the compiler must
    keep.  s_sba_free decides `small block` from the tags it finds at the page base of ANY pointer; a stale header left in
    released memory makes a later large block look like a small one.  A plain store to memory that is passed to free()
    next is a dead store (gcc removes it at -O1 and above), so only aws_secure_zero - whose barrier is decided under C01
    SECURE-ZERO - or a volatile access counts."""
    hdr = 32
    n = 0
    for name, f in sorted(fns.items()):
        dom = dominators(f)
        for fr in f.calls("s_aligned_free"):
            n += 1
            pgv = argstr(f, fr.node, 0, addr=False)
            wipes = [e for e in f.calls({"aws_secure_zero"}) if argstr(f, e.node, 0, addr=False) == pgv and (f.is_const(RU.arg(f, e.node, 1)) or 0) >= hdr and ev_dominates(f, e, fr, dom)]
            plain = [e for e in f.field_accesses(rec="page_header", field=("tag", "tag2"), modes=("w",)) if ev_dominates(f, e, fr, dom)]
            R.check(bool(wipes), "PAGE-RELEASE", "tags-erased:%s" % name, where(f, fr), "the page header is wiped with aws_secure_zero before the page is released",
                    "the page handed to s_aligned_free in %s keeps its tags: %s. A large block later placed over that address is taken for a small block of the dead page (released onto a free list, handed out again, never returned to the parent)" % (
                        name, "the plain stores `tag = tag2 = 0` right before free() are dead stores, which the optimiser removes" if plain else "nothing erases them"))
    R.require(n >= 1, "no page release (s_aligned_free) found")
    sites = sum(len(g.calls(page_free_fns(fns))) for nm, g in fns.items() if nm not in page_free_fns(fns))
    R.require(sites >= 3, "only %d page release sites found (confirmed: free path, destroy x2)" % sites)


def emulated_realloc(R, P):
    """REALLOC/emulation: when the parent has no mem_realloc, aws_mem_realloc copies into a fresh block of `newsize` bytes:
    every memcpy / memset into that block stays inside it for all old and new sizes (NUM) - the small block allocator sends
    every realloc between two large sizes through this path"""
    from sa.num import Num, Poly, Limit, entails
    from sa.awslib import AwsHooks, in_bounds
    from sa.bounds import access_sites, addr_size
    f = P.fn("aws_mem_realloc")
    if not R.require(f is not None, "aws_mem_realloc not found (source/allocator.c not analysed)"):
        return
    R.fn(f)

    class H(AwsHooks):
        def call(self, num, st, e, args):
            if e.get("callee") is None:
                via = RU.indirect_via(num.fn, e)
                if via and via[1] in ("mem_acquire", "mem_realloc", "mem_calloc"):
                    a = num.fresh(st, "newblock", None, (1, 2 ** 62))
                    if args and args[-1] is not None:
                        st.extent[a] = args[-1]
                    return Poly.atom(a)
                if via and via[1] == "mem_release":
                    return None
            if (e.get("callee") or "") in ("aws_mem_release", "aws_fatal_assert", "aws_raise_error_private"):
                return None if e.get("callee") != "aws_raise_error_private" else Poly.const(-1)
            return AwsHooks.call(self, num, st, e, args)
    num = Num(f, P, H(), max_paths=4000)
    sites = [s for s in access_sites(f) if s[1] == "mem"]
    try:
        sts = num.states_at({s[0] for s in sites})
    except Limit as ex:
        R.broken(str(ex))
        return
    n = 0
    for eid, kind, nd in sites:
        ok, det, cnt = True, "", 0
        for st in sts.get(eid, []):
            s2 = st.copy()
            for (D, sz, mode) in addr_size(num, s2, kind, nd):
                if mode != "w":
                    continue
                cnt += 1
                r = in_bounds(s2, D, sz)
                if r[0] != "ok":
                    ok, det = False, r[1]
        if cnt:
            n += 1
            R.check(ok, "REALLOC", "emulated:%s-inside-the-new-block:line%d" % (nd["callee"], nd.get("loc", [0])[0]), where(f, nd), "the write stays inside the freshly acquired block (%d states)" % cnt,
                    "aws_mem_realloc's emulation writes past the block it just acquired (%s): a shrinking realloc through an allocator without mem_realloc overwrites the neighbouring blocks" % det)
    R.require(n >= 2, "aws_mem_realloc: only %d writes into the new block analysed" % n)


def metrics(R, P, fns):
    """METRICS: the active byte count is the sum, over every page of every bin - the pages on the active list and the
    working page - of that page's live-block count times the bin's size class."""
    f = fns.get("aws_small_block_allocator_bytes_active")
    if not R.require(f is not None, "aws_small_block_allocator_bytes_active not found"):
        return
    adds = []
    for b in f.blocks.values():
        for el in b.elems:
            for x in f.walk(el):
                if x["k"] == "bin" and x["op"] in ("+=", "=") and f.show(f.d(x["a"][0])) == "used" and not (x["op"] == "=" and f.is_const(x["a"][1]) == 0):
                    adds.append((b.id, x))
    good = []
    n_counts = 0
    for blk, x in adds:
        rhs = RU.uncast(f, x["a"][1])
        ok = rhs is not None and rhs["k"] == "bin" and rhs["op"] == "*"
        if ok:
            ops = [RU.uncast(f, a) for a in rhs["a"]]
            flds = sorted((o.get("rec"), o.get("f")) for o in ops if o is not None and o["k"] == "member")
            if flds == [("page_header", "alloc_count"), ("sba_bin", "size")]:
                n_counts += 1
            elif flds == [("sba_bin", "size")]:
                # ... or the live counts of the bin's pages are summed first and scaled by the class size once
                acc = [o for o in ops if o is not None and o["k"] == "var" and o.get("sc") == "local"]
                ok = len(acc) == 1
                if ok:
                    srcs = []
                    for b2 in f.blocks.values():
                        for el2 in b2.elems:
                            for y in f.walk(el2):
                                if y["k"] == "bin" and y["op"] in ("+=", "=") and (f.d(y["a"][0]) or {}).get("k") == "var" and f.d(y["a"][0])["n"] == acc[0]["n"]:
                                    r2 = RU.uncast(f, y["a"][1])
                                    if y["op"] == "=" and f.is_const(r2) == 0:
                                        continue
                                    srcs.append(y["op"] == "+=" and r2 is not None and r2["k"] == "member" and (r2.get("rec"), r2["f"]) == ("page_header", "alloc_count"))
                    ok = len(srcs) == 2 and all(srcs)
                    n_counts += 2 if ok else 0
            else:
                ok = False
        good.append(ok)
    loops = [h for h, body in __import__("sa.num", fromlist=["Num"]).Num(f, P, None).loops().items()]
    in_loop = [blk for (blk, x), ok in zip(adds, good) if ok]
    R.check(n_counts == 2 and all(good) and len(adds) in (1, 2), "PAGE-RELEASE", "metrics:active-is-sum-of-live-counts", "%s()" % f.name, "both additions to the total are page->alloc_count * bin->size (active-list pages and the working page)",
            "aws_small_block_allocator_bytes_active adds %s: a page on the active list is counted by something other than its live-block count (blocks released from a full page stay counted)" % [f.show(x["a"][1])[:60] for (b_, x), ok in zip(adds, good) if not ok])
    ga = f.calls("aws_array_list_get_at")
    R.check(len(ga) == 1 and (RU.strip_addr(f, RU.arg(f, ga[0].node, 0)) or {}).get("f") == "active_pages", "PAGE-RELEASE", "metrics:walks-the-active-list", "%s()" % f.name, "every active page's header is read")


def find_bin_by_table(R, P, fns, fb, sizes, mx):
    """CLASSIFY/find-bin-offset, the other form: the class is looked up in s_bin_sizes itself.  NUM: at every read of
    sba->bins[idx] the request fits the class (size <= s_bin_sizes[idx]): either idx is a constant, or the path has compared
    s_bin_sizes[idx] - the table read at this very index - with the size.  The caller's guard size <= s_max_bin_size (checked
    here) is the function's precondition."""
    from sa.num import Num, Poly, Limit, entails
    from sa.awslib import AwsHooks
    from sa.bounds import access_sites
    ints = [i for i, p_ in enumerate(fb.params) if "w" in (fb.unit.types[p_["t"]] or {})]
    callers_ok, ncall = True, 0
    for g_ in P.functions_in("source/allocator_sba.c"):
        for e in g_.calls(fb.name):
            ncall += 1
            a_ = RU.resolve(g_, RU.arg(g_, e.node, ints[0])) if ints else None
            gs = [RU.cmp_norm(g_, c, p) for c, p, b in RU.guards(g_, e)]
            callers_ok &= any(g and g[2] is not None and a_ is not None and g_.show(g[0]) == g_.show(a_) and g[1] == "<=" and g_.show(g[2]) == "s_max_bin_size" for g in gs)
    if not R.require(len(ints) == 1 and ncall >= 1 and mx is not None, "s_sba_find_bin: size parameter / callers not found"):
        return
    R.check(callers_ok, "CLASSIFY", "find-bin:callers-pass-small-sizes", "%s()" % fb.name, "every caller passes size <= s_max_bin_size")
    pn = fb.params[ints[0]]

    class H(AwsHooks):
        def entry(self, num, st):
            a = num.fresh(st, "size", None, (0, mx))
            st.env["v:" + pn["n"]] = Poly.atom(a)
            st.notes["size_atom"] = a
            if hasattr(AwsHooks, "entry"):
                AwsHooks.entry(self, num, st)
    num = Num(fb, P, H(), max_paths=4000)
    sites = []
    for eid, kind, nd in access_sites(fb, include_addr=True):
        if kind == "index":
            b_ = RU.uncast(fb, nd["a"][0])
            while b_ is not None and b_["k"] == "decay":
                b_ = RU.uncast(fb, b_["a"][0])
            if b_ is not None and b_["k"] == "member" and b_["f"] == "bins":
                sites.append((eid, nd))
    if not R.require(sites, "s_sba_find_bin: no read of sba->bins[...]"):
        return
    try:
        sts = num.states_at({eid for eid, nd in sites})
    except Limit as ex:
        R.broken(str(ex))
        return
    ok, det, cnt = True, "", 0
    for eid, nd in sites:
        for st in sts.get(eid, []):
            cnt += 1
            iv = num.val(nd["a"][1], st)
            sz = Poly.atom(st.notes["size_atom"])
            fits = False
            if iv is not None and iv.is_const() and 0 <= iv.cval() < len(sizes):
                fits = entails(st, sz - sizes[iv.cval()])
            if not fits and iv is not None:
                for a, (tab, ix) in (st.notes.get("tabidx") or {}).items():
                    if list(tab) == list(sizes) and ix is not None and (ix - iv).is_const() and (ix - iv).cval() == 0 and entails(st, sz - Poly.atom(a)):
                        fits = True
            if not fits and iv is not None:
                for k_ in range(len(sizes)):
                    if entails(st, iv - k_) and entails(st, Poly.const(k_) - iv) and entails(st, sz - sizes[k_]):
                        fits = True
            if not fits:
                ok, det = False, "index %r" % (iv,)
    R.check(ok and cnt >= 1, "CLASSIFY", "find-bin-offset", "%s()" % fb.name, "the class chosen holds the request: size <= s_bin_sizes[idx] at every bins[idx] (%d states)" % cnt,
            "s_sba_find_bin can choose a class smaller than the request (%s): the block handed out is shorter than the requested size" % det)


def classify(R, P, fns):
    g = P.globals.get("s_bin_sizes")
    R.require(g is not None and g.get("init") and "array" in g["init"], "s_bin_sizes table not found")
    if g is None or not g.get("init"):
        return
    sizes = [x.get("int") for x in g["init"]["array"]]
    mx = (P.globals.get("s_max_bin_size") or {}).get("init", {}).get("int")
    cnt = P.enums.get("AWS_SBA_BIN_COUNT")
    hdr = P.records.get("page_header", {}).get("size")
    R.check(len(sizes) == cnt, "CLASSIFY", "table-length", FILE, "s_bin_sizes has AWS_SBA_BIN_COUNT=%s entries" % cnt)
    R.check(all(s == 32 * 2 ** i for i, s in enumerate(sizes)), "CLASSIFY", "table-32-times-2^i", FILE, "size classes %s" % sizes, "size classes are %s, expected 32*2^i (s_sba_find_bin maps by leading zeros)" % sizes)
    R.check(sizes and sizes[-1] == mx, "CLASSIFY", "max-bin-size-is-last-class", FILE, "s_max_bin_size == %s" % mx, "s_max_bin_size %s is not the largest class %s" % (mx, sizes[-1:]))
    R.check(all(s % 16 == 0 for s in sizes) and hdr is not None and hdr % 16 == 0, "CLASSIFY", "alignment", FILE, "page header (%s bytes) and all classes are multiples of 16" % hdr,
            "sizeof(struct page_header) = %s or a size class is not a multiple of 16: every small block would be misaligned for max_align_t" % hdr)
    R.check(all(s < 4096 // 2 for s in sizes), "CLASSIFY", "classes-below-half-page", FILE, "all classes < page/2")
    fb = fns["s_sba_find_bin"]
    subs = fb.calls("aws_sub_size_saturating")
    if subs:
        R.check(len(subs) == 1 and fb.is_const(RU.arg(fb, subs[0].node, 1)) == 5 and sizes and sizes[0] == 2 ** 5, "CLASSIFY", "find-bin-offset", "%s()" % fb.name,
                "index = log2(size) - 5 and the first class is 2^5", "s_sba_find_bin's offset does not match the first size class")
    else:
        find_bin_by_table(R, P, fns, fb, sizes, mx)
    # classification comparisons
    a = fns["s_sba_alloc"]
    ab = a.calls("s_sba_alloc_from_bin")
    for e in ab:
        gs = [RU.cmp_norm(a, c, p) for c, p, b in RU.guards(a, e)]
        ok = any(g and g[2] is not None and a.show(g[0]) == "size" and g[1] == "<=" and a.show(g[2]) == "s_max_bin_size" for g in gs)
        R.check(ok, "CLASSIFY", "alloc:small-iff-size<=max", where(a, e), "bins serve exactly size <= s_max_bin_size", "bin allocation is not guarded by size <= s_max_bin_size (%s)" % [a.show(a.d(c)) for c, p, b in RU.guards(a, e)])
    for e in a.calls("aws_mem_acquire"):
        gs = [RU.cmp_norm(a, c, p) for c, p, b in RU.guards(a, e)]
        ok = any(g and g[2] is not None and a.show(g[0]) == "size" and g[1] == ">" and a.show(g[2]) == "s_max_bin_size" for g in gs)
        R.check(ok, "CLASSIFY", "alloc:large-iff-size>max", where(a, e), "parent serves exactly size > s_max_bin_size")
    fr = fns["s_sba_free"]
    for e in fr.calls("s_sba_free_to_bin"):
        tags = set()
        for c, p, b in RU.guards(fr, e):
            g = RU.cmp_norm(fr, c, p)
            if g and g[2] is not None and g[1] == "==":
                l, r = RU.uncast(fr, g[0]), RU.uncast(fr, g[2])
                if l["k"] == "member" and l.get("rec") == "page_header" and fr.is_const(r) == TAG:
                    tags.add(l["f"])
        R.check(tags == {"tag", "tag2"}, "CLASSIFY", "free:both-tags-checked", where(fr, e), "a block goes back to a bin only when both page tags match",
                "free_to_bin reached with only %s checked: a large block whose page happens to start with one tag would corrupt a bin" % sorted(tags))
        R.check(argstr(fr, e.node, 0, addr=False) in ("page->bin", "bin"), "CLASSIFY", "free:bin-from-page-header", where(fr, e), "the bin is the one recorded in the page header")
    for e in fr.calls("aws_mem_release"):
        R.check(argstr(fr, e.node, 1, addr=False) == "addr" and argstr(fr, e.node, 0, addr=False).endswith("->allocator"), "CLASSIFY", "free:large-to-parent", where(fr, e), "untagged blocks go back to the parent allocator")
    pb = fns["s_page_bind"]
    st = {}
    for e in pb.field_accesses(rec="page_header", modes=("w",)):
        a_ = assignment_of(pb, e)
        v = a_["a"][1] if a_ else None
        while v is not None and pb.d(v)["k"] == "bin" and pb.d(v)["op"] == "=":
            v = pb.d(v)["a"][1]
        st[e.node["f"]] = pb.show(RU.uncast(pb, v)) if v is not None else None
    R.check(pb.is_const is not None and st.get("bin") == "bin" and st.get("alloc_count") == "0" and "tag" in st and "tag2" in st, "CLASSIFY", "page-bind", "%s()" % pb.name,
            "page header initialised: both tags, bin, alloc_count = 0 (%s)" % st, "page header initialisation incomplete: %s" % st)
    for r in pb.returns():
        R.check("sizeof" in pb.show(r.node["a"][0]) or str(P.records.get("page_header", {}).get("size")) in pb.show(r.node["a"][0]), "CLASSIFY", "first-chunk-after-header", where(pb, r),
                "carving starts right after the header")
    af = fns["s_sba_alloc_from_bin"]
    for e in af.calls("s_aligned_alloc"):
        R.check(af.is_const(RU.arg(af, e.node, 0)) == 4096 and af.is_const(RU.arg(af, e.node, 1)) == 4096, "CLASSIFY", "page-aligned-pages", where(af, e), "pages are page-sized and page-aligned (s_page_base relies on it)",
                "pages are not allocated with size == alignment == AWS_SBA_PAGE_SIZE")
    # carve: guarded by space_left >= bin->size, cursor advanced by bin->size
    adv = [e for e in af.field_accesses(rec="sba_bin", field="page_cursor", modes=("rw",))]
    for e in adv:
        a_ = assignment_of(af, e)
        R.check(a_ is not None and a_["op"] == "+=" and af.show(a_["a"][1]).endswith("->size"), "CLASSIFY", "carve-advances-by-class-size", where(af, e), "cursor advances by the class size")
        gs = [af.show(af.d(c)) for c, p, b in RU.guards(af, e) if p]
        R.check(any("space_left >= bin->size" in g for g in gs), "CLASSIFY", "carve-fits", where(af, e), "carve guarded by space_left >= class size (%s)" % gs,
                "a chunk is carved without checking that a whole chunk fits in the page")


def realloc_calloc(R, fns):
    f = fns["s_sba_mem_realloc"]
    dom = dominators(f)
    cp = f.calls({"memcpy", "memmove", "__builtin_memcpy"})
    R.require(len(cp) == 1, "realloc: expected one copy")
    if cp:
        c = cp[0]
        R.check(argstr(f, c.node, 2, addr=False) == "old_size" and argstr(f, c.node, 1, addr=False) == "old_ptr", "REALLOC", "copies-old-size-from-old", where(f, c), "memcpy(new, old_ptr, old_size)")
        gs = [RU.cmp_norm(f, x, p) for x, p, b in RU.guards(f, c, dom)]
        ok = any(g and g[2] is not None and ((f.show(g[0]), g[1], f.show(g[2])) in (("old_size", "<=", "new_size"), ("new_size", ">=", "old_size"))) for g in gs)
        R.check(ok, "REALLOC", "copy-fits-new-block", where(f, c), "copy reached only when old_size <= new_size", "the old_size-byte copy is not dominated by old_size <= new_size: a shrinking realloc would overrun the new block")
        news = [e for e in f.calls("s_sba_alloc")]
        R.check(len(news) == 1 and argstr(f, news[0].node, 1, addr=False) == "new_size" and ev_dominates(f, news[0], c, dom), "REALLOC", "new-block-of-new-size", where(f, c), "destination is a fresh block of new_size")
        frees = [e for e in f.calls("s_sba_free") if argstr(f, e.node, 1, addr=False) == "old_ptr" and ev_dominates(f, c, e, dom)]
        R.check(bool(frees), "REALLOC", "free-after-copy", where(f, c), "old block freed after its contents were copied", "old block is not freed after the copy (or freed before it)")
        for e in f.calls("s_sba_free"):
            if argstr(f, e.node, 1, addr=False) == "old_ptr" and not ev_dominates(f, c, e, dom):
                gs2 = [f.show(f.d(x)) for x, p, b in RU.guards(f, e, dom) if p]
                R.check(any("new_size == 0" in g for g in gs2), "REALLOC", "early-free-only-for-zero", where(f, e), "old block freed without copy only for new_size == 0")
    for r in f.returns():
        v = f.show(r.node["a"][0])
        if v == "old_ptr":
            gs = [RU.cmp_norm(f, x, p) for x, p, b in RU.guards(f, r, dom)]
            ok = any(g and g[2] is not None and (f.show(g[0]), g[1], f.show(g[2])) in (("old_size", ">", "new_size"), ("old_size", ">=", "new_size")) for g in gs)
            R.check(ok, "REALLOC", "in-place-only-when-shrinking", where(f, r), "the old block is kept only when it is large enough", "old block returned although new_size may exceed old_size")
    c = fns["s_sba_mem_calloc"]
    al = c.calls("s_sba_alloc")
    ms = c.calls({"memset", "__builtin_memset"})
    R.require(len(al) == 1 and len(ms) == 1, "calloc: expected one allocation and one memset")
    if al and ms:
        R.check(c.show(RU.arg(c, al[0].node, 1)) == c.show(RU.arg(c, ms[0].node, 2)) and c.is_const(RU.arg(c, ms[0].node, 1)) == 0, "CALLOC", "zeroes-whole-block", where(c, ms[0]),
                "memset(mem, 0, n) with n the allocation size %s" % c.show(RU.arg(c, al[0].node, 1)), "calloc zeroes %s bytes of a %s-byte block" % (c.show(RU.arg(c, ms[0].node, 2)), c.show(RU.arg(c, al[0].node, 1))))


def calloc_product(R, P, fns):
    """CALLOC/product: s_sba_mem_calloc multiplies num * size itself; the product is exact only because aws_mem_calloc - the one
    way into an allocator's mem_calloc - has multiplied the same two numbers with the checked helper and aborts when that
    fails, before it dispatches.  (Or the small-block calloc uses the checked helper itself.)"""
    c = fns["s_sba_mem_calloc"]
    own = c.calls({"aws_mul_size_checked", "aws_mul_u64_checked"})
    g = P.fn("aws_mem_calloc")
    if not R.require(g is not None, "aws_mem_calloc not found"):
        return
    ind = [e for e in g.indirect_calls() if (RU.indirect_via(g, e.node) or (None, None))[1] == "mem_calloc"]
    if not R.require(len(ind) >= 1, "aws_mem_calloc: dispatch through mem_calloc not found"):
        return
    dom = dominators(g)
    for e in ind:
        ok = bool(own)
        for c_, p_, b_ in RU.guards(g, e, dom):
            t = RU.call_test(g, c_, p_)
            if t and t[0].get("callee") in ("aws_mul_size_checked", "aws_mul_u64_checked") and t[1] == "zero" and [argstr(g, t[0], i) for i in (0, 1)] == [argstr(g, e.node, 1), argstr(g, e.node, 2)]:
                ok = True
        R.check(ok, "CALLOC", "product-checked-before-dispatch", where(g, e), "num * size is known not to overflow when the allocator's own calloc is called",
                "aws_mem_calloc hands num and size to the allocator's mem_calloc without having checked their product, and s_sba_mem_calloc multiplies them unchecked: a wrapped product is served from a small size class (aws_mem_calloc(sba, 2^60 + 1, 16) returns a 32-byte chunk)")


def destroy(R, fns):
    f = fns["s_sba_clean_up"]
    frees = f.calls(page_free_fns(fns))
    R.check(len(frees) == 2, "DESTROY", "frees-active-and-working-pages", "%s()" % f.name, "two page releases: per active page and the working page", "expected 2 page releases, found %d" % len(frees))
    loops = [b for b in f.blocks.values() if b.term == "for" and b.cond is not None]
    conds = [f.show(b.cond) for b in loops]
    R.check(any("AWS_SBA_BIN_COUNT" in c or "< 5" in c for c in conds), "DESTROY", "all-bins", "%s()" % f.name, "loops over all bins (%s)" % conds)
    ok_pages = any("active_pages.length" in c for c in conds)
    if not ok_pages:
        # the bound through a local that caches the length, or a counting loop written another way (RU.loop_cover)
        from sa.cfg import natural_loops
        for h_, body_ in natural_loops(f).items():
            lc = RU.loop_cover(f, h_, body_)
            if lc and lc[1] is not None:
                o_ = RU.origin(f, lc[1])
                txt_ = f.show(RU.uncast(f, o_) if o_ is not None else lc[1], alias=True)
                if "active_pages" in txt_ and ("length" in txt_):
                    ok_pages = True
    R.check(ok_pages, "DESTROY", "all-active-pages", "%s()" % f.name, "loops over all active pages")
    gcur = False
    for e in frees:
        gs = [f.show(f.d(c)) for c, p, b in RU.guards(f, e) if p]
        if any("page_cursor" in g for g in gs):
            gcur = True
    R.check(gcur, "DESTROY", "working-page-freed-when-set", "%s()" % f.name, "working page released when the cursor is set")
    # destroy returns every page: a release depends on nothing but `there is a working page` and the two loops
    for e in frees:
        extra = []
        for c_, p_, b_ in RU.guards(f, e):
            names = {x.get("f") for x in f.walk(f.d(c_), follow_refs=True) if x["k"] == "member"}
            if names & {"alloc_count", "tag", "tag2", "bin"}:
                extra.append(f.show(f.d(c_))[:50])
        R.check(not extra, "DESTROY", "page-release-unconditional:line%d" % e.node.get("loc", [0])[0], where(f, e), "the page is released whatever its live-block count",
                "destroy releases this page only when %s: pages for which the test fails are never returned to the system (leak at destroy)" % extra)
    for callee, fld in (("aws_array_list_clean_up", "active_pages"), ("aws_array_list_clean_up", "free_chunks"), ("aws_mutex_clean_up", "mutex")):
        ok = any((RU.strip_addr(f, RU.arg(f, e.node, 0)) or {}).get("f") == fld for e in f.calls(callee))
        R.check(ok, "DESTROY", "cleans:%s" % fld, "%s()" % f.name, "%s cleaned up" % fld)
    d = fns.get("aws_small_block_allocator_destroy")
    if d:
        cu = d.calls("s_sba_clean_up")
        rel = d.calls("aws_mem_release")
        R.check(len(cu) == 1 and len(rel) == 1 and ev_dominates(d, cu[0], rel[0]), "DESTROY", "clean-up-then-release", "%s()" % d.name, "pages returned before the allocator object is released")


MUTANTS = [
    {"name": "destroy-keeps-the-working-page", "file": FILE, "expect": "DESTROY", "old": "            AWS_ASSERT(page->alloc_count == 0 && \"Memory still allocated in aws_sba_allocator (page)\");\n            s_page_release(page);", "new": "            if (page->alloc_count) {\n                s_page_release(page);\n            }"},
    {"name": "emulated-realloc-copies-old-size-on-shrink", "file": "source/allocator.c", "expect": "REALLOC", "old": "    if (oldsize >= newsize) {\n        return AWS_OP_SUCCESS;\n    }\n\n    void *newptr = allocator->mem_acquire(allocator, newsize);", "new": "    if (oldsize == newsize) {\n        return AWS_OP_SUCCESS;\n    }\n\n    void *newptr = allocator->mem_acquire(allocator, newsize);"},
    {"name": "page-header-erased-with-plain-stores", "file": FILE, "expect": "PAGE-RELEASE", "old": "    aws_secure_zero(page, sizeof(struct page_header));\n    s_aligned_free(page);", "new": "    page->tag = page->tag2 = 0;\n    s_aligned_free(page);"},
    {"name": "purge-window-ends-before-the-last-chunk", "file": FILE, "expect": "PAGE-RELEASE", "old": "        uint8_t *page_end = page_start + AWS_SBA_PAGE_SIZE;", "new": "        uint8_t *page_end = (uint8_t *)page + aws_small_block_allocator_page_size_available(NULL);"},
    {"name": "active-pages-counted-as-full", "file": FILE, "expect": "PAGE-RELEASE", "old": "            struct page_header *page = page_addr;\n            used += page->alloc_count * bin->size;\n        }\n        if (bin->page_cursor) {", "new": "            struct page_header *page = page_addr;\n            (void)page;\n            used += ((AWS_SBA_PAGE_SIZE - sizeof(struct page_header)) / bin->size) * bin->size;\n        }\n        if (bin->page_cursor) {"},
    {"name": "free-outside-lock", "file": FILE, "expect": "LOCK",
     "old": "        sba->lock(&bin->mutex);\n        s_sba_free_to_bin(bin, addr);\n        sba->unlock(&bin->mutex);", "new": "        sba->lock(&bin->mutex);\n        sba->unlock(&bin->mutex);\n        s_sba_free_to_bin(bin, addr);"},
    {"name": "reuse-not-counted", "file": FILE, "expect": "PAIR",
     "old": "        struct page_header *page = s_page_base(chunk);\n        page->alloc_count++;\n        return chunk;", "new": "        return chunk;"},
    {"name": "release-working-page", "file": FILE, "expect": "PAGE-RELEASE",
     "old": "if (page->alloc_count == 0 && page != s_page_base(bin->page_cursor)) {", "new": "if (page->alloc_count == 0) {"},
    {"name": "single-tag-check", "file": FILE, "expect": "CLASSIFY",
     "old": "if (page->tag == AWS_SBA_TAG_VALUE && page->tag2 == AWS_SBA_TAG_VALUE) {", "new": "if (page->tag == AWS_SBA_TAG_VALUE) {"},
    {"name": "realloc-copy-unguarded", "file": FILE, "expect": "REALLOC",
     "old": "    if (old_size > new_size) {\n        return old_ptr;\n    }\n", "new": "    if (old_size > new_size && new_size > s_max_bin_size) {\n        return old_ptr;\n    }\n"},
    {"name": "calloc-product-checked-only-on-the-emulated-path", "file": "source/allocator.c", "expect": "CALLOC",
     "old": "    size_t required_bytes = 0;\n    AWS_FATAL_POSTCONDITION(!aws_mul_size_checked(num, size, &required_bytes), \"calloc computed size > SIZE_MAX\");\n\n    /* If there is a defined calloc, use it */\n    if (allocator->mem_calloc) {\n        void *mem = allocator->mem_calloc(allocator, num, size);\n        AWS_PANIC_OOM(mem, \"Unhandled OOM encountered in aws_mem_acquire with allocator\");\n        return mem;\n    }\n",
     "new": "    /* If there is a defined calloc, use it */\n    if (allocator->mem_calloc) {\n        void *mem = allocator->mem_calloc(allocator, num, size);\n        AWS_PANIC_OOM(mem, \"Unhandled OOM encountered in aws_mem_acquire with allocator\");\n        return mem;\n    }\n    size_t required_bytes = 0;\n    AWS_FATAL_POSTCONDITION(!aws_mul_size_checked(num, size, &required_bytes), \"calloc computed size > SIZE_MAX\");\n"},
    {"name": "calloc-zeroes-size-only", "file": FILE, "expect": "CALLOC", "old": "    memset(mem, 0, size * num);", "new": "    memset(mem, 0, size);"},
    {"name": "bytes-reserved-unlocked", "file": FILE, "expect": "LOCK",
     "old": "        sba->lock(&bin->mutex);\n        used += (bin->active_pages.length + (bin->page_cursor != NULL)) * AWS_SBA_PAGE_SIZE;\n        sba->unlock(&bin->mutex);",
     "new": "        used += (bin->active_pages.length + (bin->page_cursor != NULL)) * AWS_SBA_PAGE_SIZE;"},
    {"name": "header-40-bytes", "file": FILE, "expect": "CLASSIFY", "old": "    uint64_t tag2;\n};", "new": "    uint64_t tag2;\n    uint8_t *end;\n};"},
]
