"""C14 - logging: gate, line ownership, background-channel protocol, line assembly (DESIGN.md section 4, C14)."""
import os
from sa import rules as RU
from sa.cfg import Typestate, dominators, ev_dominates
from sa.extract import library_units
from sa.rules import argstr, where
from sa.num import Num, Poly, Limit, entails

CH = "source/log_channel.c"
LG = "source/logging.c"
FM = "source/log_formatter.c"
BG = "aws_log_background_channel"

DECIDED = [
    "GATE/set-level: every logger vtable whose get_log_level reads a stored level provides a set_log_level that stores it (owned and unowned pipeline, no-alloc)",
    "LINE/private-state: every mutable static-storage variable the line formatter touches is thread-local",
    "GATE: every library log call and aws_logger_get_conditional admit a line exactly under active_level >= level, and pass the gated level on",
    "OWNERSHIP: the formatted line is destroyed exactly once on every path (pipeline: sent or destroyed; foreground: written then destroyed; background: each line of the swapped batch written, then destroyed, batch cleared before the next swap)",
    "LOCK/NOTIFY: pending lines and the finished flag are touched only under the channel mutex (constructor / post-join clean-up exempt); every push and the finished store are followed by a notification; the wait predicate reads both",
    "EXIT: the background thread leaves its loop only after observing, in one critical section, an empty queue and finished",
    "SHUTDOWN-ORDER: finished store under lock -> notify -> join -> clean-ups -> release",
    "FOREGROUND: the writer is called between lock and unlock of the channel mutex",
    "LINE: see NUM obligations (newline room, index never steps over the terminator, writes stay inside the buffer); complete: the allocating formatter sizes the line to hold the message, the subject name and the line's literal characters for all lengths; private-buffer: every caller of the line formatter hands over storage private to the call (automatic or freshly allocated), never static storage",
]
NOT_DECIDED = ["per-thread FIFO order and no-loss under all schedules (only the schedule-independent protocol shape)", "content of the formatted prefix (libc formatting)"]
ASSUMPTIONS = ["registered log subject names are shorter than 2^20 bytes and one formatted message is shorter than 2^30 bytes (the caller computes the line length in int)", "aws_mutex / condition variable semantics as documented", "aws_array_list push_back/swap_contents/clear have their documented sequence effect (C09)",
               "snprintf(buf,n,..) writes at most n bytes including the terminator and returns the untruncated length"]


def send_contract(R, P):
    """OWNERSHIP/send-contract: a channel's send either takes the line (destroys it or queues it) and reports success, or
    reports failure and leaves the line to its caller - the pipeline destroys the line itself when send fails.  A send that
    consumed the line returns the constant success value on that path."""
    n = 0
    for name, g in sorted(P.globals.items()):
        st = (g.get("init") or {}).get("struct") if isinstance(g.get("init"), dict) else None
        if not st or "send" not in st or "clean_up" not in st:
            continue
        f = P.fn((st.get("send") or {}).get("fn") or "")
        if f is None:
            continue
        R.fn(f)
        line = f.params[1]["n"] if len(f.params) > 1 else None
        took = [e for e in f.calls({"aws_string_destroy", "aws_string_destroy_secure"}) if argstr(f, e.node, 0) == line] + [e for e in f.calls("aws_array_list_push_back") if line and line in argstr(f, e.node, 1)]
        if not took:
            continue
        ts = Typestate(f, 0, lambda e, s: 1 if any(e is t_ for t_ in took) else s)
        bad = []
        for r_ in f.returns():
            v = RU.uncast(f, r_.node["a"][0]) if r_.node["a"] else None
            cv = f.is_const(v) if v is not None else None
            for s_ in ts.before.get(r_.pos, set()):
                n += 1
                if s_ == 1 and cv != 0:
                    bad.append("line %d returns %s after the line was consumed" % (r_.node["loc"][0], f.show(v) if v is not None else "nothing"))
                if s_ == 0 and cv == 0:
                    bad.append("line %d reports success without having taken the line" % r_.node["loc"][0])
        R.check(not bad, "OWNERSHIP", "send-contract:%s" % f.name, "%s()" % f.name, "success is returned exactly on the paths that consumed the line",
                "%s: %s - the pipeline destroys the line again when send reports a failure (double free), or leaks it" % (f.name, "; ".join(bad[:2])))
    R.require(n >= 2, "only %d send return states analysed" % n)


def subject_bounds(R, P):
    """GATE/subject-table: the subject table of a package is indexed only below its registered count (NUM): an id one past
    the table reads an entry that does not exist (its name is then fed to strlen and %s)"""
    from sa.awslib import AwsHooks, in_bounds
    from sa.bounds import access_sites, addr_size
    f = P.fn("s_get_log_subject_info_by_id")
    if not R.require(f is not None, "s_get_log_subject_info_by_id not found"):
        return
    R.fn(f)
    esz = (P.records.get("aws_log_subject_info") or {}).get("size") or 24

    class H(AwsHooks):
        def fresh_field(self, num, st, key, rec, fl, atom):
            if rec == "aws_log_subject_info_list" and fl == "subject_list":
                cnt = num.field(st, key, rec, "count")
                st.extent[atom] = cnt * esz
                st.add(Poly.const(1) - Poly.atom(atom))
                return
            AwsHooks.fresh_field(self, num, st, key, rec, fl, atom)
    num = Num(f, P, H(), max_paths=4000)
    sites = [s for s in access_sites(f, include_addr=True) if "subject_list" in f.show(s[2])]
    if not R.require(bool(sites), "subject table access not found"):
        return
    try:
        sts = num.states_at({s[0] for s in sites})
    except Limit as ex:
        R.broken(str(ex))
        return
    ok, det, cnt = True, "", 0
    for eid, kind, nd in sites:
        for st in sts.get(eid, []):
            s2 = st.copy()
            for (D, sz, mode) in addr_size(num, s2, kind, nd):
                cnt += 1
                r = in_bounds(s2, D, Poly.const(esz))
                if r[0] != "ok":
                    ok, det = False, r[1]
    R.check(ok and cnt > 0, "GATE", "subject-table:index-below-count", "%s()" % f.name, "subject_list[subject_index] is reached only with subject_index < count (%d states)" % cnt,
            "the subject table is indexed with subject_index == count (%s): the entry behind the registered table is returned and its name printed into the line" % det)


def vtables_complete(R, P):
    """GATE/set-level: every logger vtable whose get_log_level reads a stored level also provides set_log_level, and that
    function writes the same level field: a level change through aws_logger_set_log_level applies to all later calls (a
    missing slot makes the change fail with UNIMPLEMENTED and the level stays as created)."""
    n = 0
    for name, g in sorted(P.globals.items()):
        st = (g.get("init") or {}).get("struct") if isinstance(g.get("init"), dict) else None
        if not st or "get_log_level" not in st or "log" not in st:
            continue
        gf = P.fn((st.get("get_log_level") or {}).get("fn") or "")
        if gf is None:
            continue
        reads_level = any(x["k"] == "member" and x["f"] == "level" for b in gf.blocks.values() for el in b.elems for x in gf.walk(el, follow_refs=True))
        if not reads_level:
            continue  # a logger without a stored level (the null logger)
        n += 1
        sf = P.fn((st.get("set_log_level") or {}).get("fn") or "") if st.get("set_log_level") else None
        writes_level = sf is not None and any(x["k"] == "member" and x["f"] == "level" for b in sf.blocks.values() for el in b.elems for x in sf.walk(el, follow_refs=True))
        R.check(writes_level, "GATE", "vtable:%s:set_log_level" % name, "source/logging.c:%s" % g.get("line"), "set_log_level is provided and stores the level that get_log_level reads",
                "logger vtable %s has a get_log_level that reads a stored level but no set_log_level storing it: aws_logger_set_log_level on such a logger fails with UNIMPLEMENTED and the level stays what it was at creation" % name)
    R.require(n >= 3, "only %d logger vtables with a stored level found (confirmed: owned pipeline, unowned pipeline, no-alloc)" % n)


def _snapshots(f):
    """the locals of the background thread function that hold a snapshot of the pending count / the finished flag:
    initialised or assigned from the read itself, or from another snapshot local (a helper's result variable, an
    out-parameter bound to a local of the thread function)"""
    srcs = {}
    defs = []
    for b_ in f.blocks.values():
        for el in b_.elems:
            for x in f.walk(el):
                if x["k"] == "decl":
                    for v in x["vars"]:
                        if v.get("init") is not None:
                            defs.append((v["n"], v["init"]))
                elif x["k"] == "bin" and x["op"] == "=":
                    l_ = f.d(x["a"][0])
                    if l_ is not None and l_["k"] == "un" and l_["op"] == "deref":
                        l_ = RU.strip_addr(f, l_["a"][0])
                    if l_ is not None and l_["k"] == "var":
                        defs.append((l_["n"], x["a"][1]))
    changed = True
    while changed:
        changed = False
        for tname, rhs in defs:
            if tname in srcs:
                continue
            i = RU.uncast(f, rhs)
            kind = None
            if i is None:
                continue
            if i["k"] == "call" and i.get("callee") == "aws_array_list_length" and (RU.strip_addr(f, RU.arg(f, i, 0)) or {}).get("f") == "pending_log_lines":
                kind = "count"
            elif i["k"] == "member" and i.get("rec") == BG and i["f"] == "finished":
                kind = "finished"
            elif i["k"] == "var" and i["n"] in srcs:
                kind = srcs[i["n"]]
            if kind:
                srcs[tname] = kind
                changed = True
    return srcs


def _assignment_of(f, ev):
    for b in f.blocks.values():
        for el in b.elems:
            for n in f.walk(el):
                if n["k"] == "bin" and n["op"] in ("=",) and f.d(n["a"][0]) is ev.node:
                    return n
    return None


def round7(ctx, R, P, lg, replace=None):
    """GATE/macro-arguments: in the level gate of the AWS_LOGF macro every macro parameter stands parenthesised or as a whole
    function argument: a level written as an expression (`verbose ? AWS_LL_TRACE : AWS_LL_DEBUG`) otherwise regroups with the
    comparison and the gate is decided by something else than the level (a lint over the macro's definition - the only place
    where this is visible; the expanded program of the library itself contains plain levels only).
    GATE/subject-slot: register and unregister address the package table with the same function of their list: the slot is
    the first subject id shifted right by the stride bits, in both."""
    import re
    rel = "include/aws/common/logging.h"
    path = (replace or {}).get(rel) or os.path.join(ctx.ex.repo, rel)
    txt = open(path).read() if os.path.isfile(path) else ""
    m = re.search(r"#define\s+AWS_LOGF\(([^)]*)\)((?:[^\n]*\\\n)*[^\n]*)", txt)
    if R.require(m is not None, "the AWS_LOGF macro was not found in %s" % rel):
        params = [p_.strip() for p_ in m.group(1).split(",") if p_.strip() and p_.strip() != "..."]
        body = m.group(2).replace("\\\n", " ")
        g = re.search(r"\bif\s*\((.*?)\)\s*\{", body)
        bad = []
        if R.require(g is not None, "AWS_LOGF: the level gate (`if (...) {`) was not found"):
            cond = g.group(1)
            for p_ in params:
                for mm in re.finditer(r"\b%s\b" % re.escape(p_), cond):
                    pre = cond[:mm.start()].rstrip()[-1:] or "("
                    post = cond[mm.end():].lstrip()[:1] or ")"
                    if not (pre in "(," and post in "),"):
                        bad.append("%s in `...%s...`" % (p_, cond[max(0, mm.start() - 12):mm.end() + 12].strip()))
            R.check(not bad, "GATE", "macro-gate-arguments-parenthesised", "%s: AWS_LOGF" % rel, "every macro parameter in the gate is parenthesised or a whole call argument",
                    "the gate of AWS_LOGF uses a macro parameter bare (%s): with a level written as an expression of lower precedence the comparison regroups and lines above the logger's level are emitted" % bad)
    shapes = {}
    for nm in ("aws_register_log_subject_info_list", "aws_unregister_log_subject_info_list"):
        f = lg.get(nm)
        if not R.require(f is not None, "%s not found" % nm):
            continue
        st_ = []
        for b in f.blocks.values():
            for el in b.elems:
                if el["k"] == "bin" and el["op"] == "=" and (f.d(el["a"][0]) or {}).get("k") == "index" and "s_log_subject_slots" in f.show(f.d(el["a"][0])):
                    ix = RU.uncast(f, f.d(el["a"][0])["a"][1])
                    o = RU.origin(f, ix) if ix is not None else None
                    o = RU.uncast(f, o) if o is not None else ix
                    ok_shift = o is not None and o["k"] == "bin" and o["op"] == ">>" and f.is_const(RU.uncast(f, o["a"][1])) is not None
                    src = f.show(RU.uncast(f, RU.origin(f, o["a"][0]) or o["a"][0]), alias=True) if ok_shift else f.show(o) if o is not None else "?"
                    st_.append((ok_shift, f.is_const(RU.uncast(f, o["a"][1])) if ok_shift else None, src))
        shapes[nm] = st_
        R.check(len(st_) == 1 and st_[0][0] and "subject_list[0].subject_id" in st_[0][2].replace(" ", ""), "GATE", "subject-slot:%s" % nm, "%s()" % nm, "slot = first subject id >> stride bits",
                "%s stores into s_log_subject_slots at %s, not at (first subject id >> stride bits): another package's slot is overwritten / cleared" % (nm, [x[2] for x in st_]))
    if len(shapes) == 2 and all(len(v) == 1 for v in shapes.values()):
        a_, b_ = shapes["aws_register_log_subject_info_list"][0], shapes["aws_unregister_log_subject_info_list"][0]
        R.check(a_[1] == b_[1], "GATE", "subject-slot:register-and-unregister-agree", LG, "both use the same stride")


def analyse(ctx, replace=None, only=None):
    R = ctx.R
    units = [u for u in library_units(ctx.ex.repo) if "external" not in u]
    P = ctx.program(units, "ship", replace=replace)
    ch = {f.name: f for f in P.functions_in("log_channel.c")}
    lg = {f.name: f for f in P.functions_in("source/logging.c")}
    need_ch = ["s_foreground_channel_send", "s_background_channel_send", "s_background_channel_clean_up", "s_background_wait",
               "aws_background_logger_thread", "aws_log_channel_init_background"]
    for n in need_ch:
        if not R.require(n in ch, "anchor function %s missing from %s" % (n, CH)):
            return
    for n in ["s_aws_logger_pipeline_log", "aws_logger_get_conditional"]:
        if not R.require(n in lg, "anchor function %s missing from %s" % (n, LG)):
            return
    for f in list(ch.values()) + [lg["s_aws_logger_pipeline_log"], lg["aws_logger_get_conditional"]]:
        R.fn(f)

    gate(R, P, lg)
    set_level_forwards(R, P)
    vtables_complete(R, P)
    send_contract(R, P)
    subject_bounds(R, P)
    round7(ctx, R, P, lg, replace)
    ownership(R, ch, lg)
    background(R, ch)
    from rules import C14_line
    C14_line.line_assembly(ctx, R, P)


# ------------------------------------------------------------------ GATE
def set_level_forwards(R, P):
    """GATE/set-level: aws_logger_set_log_level hands every level of the enumeration (AWS_LL_NONE .. AWS_LL_TRACE) to the
    logger's own set_log_level.  NUM, every return state in which the logger has that entry and it was not called: the level
    is outside [0, AWS_LL_COUNT) - no valid level is refused by the wrapper."""
    f = P.fn("aws_logger_set_log_level")
    cnt = P.enums.get("AWS_LL_COUNT")
    if not R.require(f is not None and cnt is not None and len(f.params) == 2, "aws_logger_set_log_level / AWS_LL_COUNT not found"):
        return
    from sa.num import Num, Poly, Limit, entails
    from sa.awslib import AwsHooks

    class H(AwsHooks):
        def call(self, num, st, e, args):
            if e.get("callee") is None and (RU.indirect_via(num.fn, e) or ("", ""))[1] == "set_log_level":
                st.notes["forwarded"] = True
                st.notes["fwd_level"] = args[1] if len(args) > 1 else None
                return Poly.atom(num.fresh(st, "rc", None, (-1, 0)))
            return AwsHooks.call(self, num, st, e, args)
    num = Num(f, P, H(), max_paths=4000)
    try:
        sts = num.states_at({-1}).get(-1, [])
    except Limit as ex:
        R.broken(str(ex))
        return
    ok, det, n = True, "", 0
    lvl = "v:" + f.params[1]["n"]
    for st in sts:
        n += 1
        if st.notes.get("forwarded"):
            lv, fl = st.env.get(lvl), st.notes.get("fwd_level")
            if lv is not None and fl is not None and not (entails(st, lv - fl) and entails(st, fl - lv)):
                ok, det = False, "the level forwarded (%r) is not the level requested" % (fl,)
            continue
        fp = [v for k, v in st.env.items() if k.endswith("->set_log_level") or k.endswith("->vtable") or k == "v:" + f.params[0]["n"]]
        if any(entails(st, v) and entails(st, -v) for v in fp):
            continue  # no logger / no vtable / no such entry: INVALID_ARGUMENT or UNIMPLEMENTED whatever the level
        lv = st.env.get(lvl)
        if lv is None or not (entails(st, Poly.const(cnt) - lv) or entails(st, lv + 1)):
            ok, det = False, "a level below AWS_LL_COUNT can be refused (trail %s)" % (st.trail[-4:],)
    R.check(ok and n >= 2, "GATE", "set-level:every-valid-level-is-forwarded", "%s()" % f.name, "only levels outside the enumeration are refused before the logger's own set_log_level (%d states)" % n,
            "aws_logger_set_log_level does not forward every valid level: %s - a change to that level is refused and the previous level keeps gating the calls" % det)


def gate(R, P, lg):
    f = lg["aws_logger_get_conditional"]
    dom = dominators(f)
    n_ret = 0
    for r in f.returns():
        v = f.d(r.node["a"][0]) if r.node["a"] else None
        is_null = v is not None and f.is_const(RU.uncast(f, v)) == 0
        gs = [RU.cmp_norm(f, c, p) for c, p, b in RU.guards(f, r, dom)]
        lvl = []
        for g in gs:
            if g and g[2] is not None:
                l, op, rr = g
                l, rr = RU.uncast(f, l), RU.uncast(f, rr)
                if l["k"] == "call" and RU.indirect_via(f, l) == ("aws_logger_vtable", "get_log_level"):
                    lvl.append((op, f.show(rr)))
                elif rr["k"] == "call" and RU.indirect_via(f, rr) == ("aws_logger_vtable", "get_log_level"):
                    lvl.append((RU.FLIP[op], f.show(l)))
        if not is_null:
            n_ret += 1
            R.check(("<", "level") not in lvl and ((">=", "level") in lvl), "GATE", "get_conditional:admit", where(f, r),
                    "logger returned only under active >= level", "logger is returned without the guard active_level >= level (guards: %s)" % lvl)
        elif lvl:
            R.check(("<", "level") in lvl, "GATE", "get_conditional:refuse", where(f, r), "NULL returned under active < level",
                    "NULL is returned under %s: a line at exactly the active level would be refused or a line above it admitted" % lvl)
    R.require(n_ret >= 1, "aws_logger_get_conditional: no non-NULL return found")

    # every expansion of AWS_LOGF in the library
    n = 0
    for fn in P.by_key.values():
        if "/external/" in fn.file:
            continue
        for e in fn.indirect_calls():
            if RU.indirect_via(fn, e.node) != ("aws_logger_vtable", "log"):
                continue
            if not (e.node.get("macro") or "").startswith("AWS_LOGF"):
                continue
            n += 1
            lvl_arg = fn.show(RU.uncast(fn, RU.arg(fn, e.node, 1)))
            dom = dominators(fn)
            ok = False
            seen = []
            for c, p, b in RU.guards(fn, e, dom):
                g = RU.cmp_norm(fn, c, p)
                if not g or g[2] is None:
                    continue
                l, op, r = g
                l, r = RU.uncast(fn, l), RU.uncast(fn, r)
                if r["k"] == "call" and RU.indirect_via(fn, r) == ("aws_logger_vtable", "get_log_level"):
                    l, op, r = r, RU.FLIP[op], l
                if l["k"] == "call" and RU.indirect_via(fn, l) == ("aws_logger_vtable", "get_log_level"):
                    seen.append((op, fn.show(r)))
                    if op == ">=" and fn.show(r) == lvl_arg:
                        ok = True
            if not ok:
                # ... or the logger itself was obtained from aws_logger_get_conditional(subject, that level), which hands it
                # out only under the same comparison (its own GATE rules above), and is tested for NULL
                def _decl_init(x_):
                    """initialiser of the declaration of local x_ in force at e (the closest dominating one)"""
                    x_ = RU.uncast(fn, x_)
                    if x_ is None or x_["k"] != "var":
                        return x_
                    ds = [(d_, v_) for d_ in fn.all_events() if d_.kind == "decl" for v_ in d_.node["vars"] if v_["n"] == x_["n"] and v_.get("init") is not None and ev_dominates(fn, d_, e, dom)]
                    ds = [d for d in ds if all(o is d or ev_dominates(fn, o[0], d[0], dom) for o in ds)]
                    return RU.uncast(fn, ds[0][1]["init"]) if len(ds) == 1 else x_
                lg_ = _decl_init(RU.arg(fn, e.node, 0))
                if lg_ is not None and lg_["k"] == "call" and lg_.get("callee") == "aws_logger_get_conditional" and fn.show(RU.uncast(fn, RU.arg(fn, lg_, 1))) == lvl_arg:
                    for c, p, b in RU.guards(fn, e, dom):
                        g = RU.cmp_norm(fn, c, p)
                        if g and g[1] == "!=" and (g[2] is None or fn.is_const(RU.uncast(fn, g[2])) == 0) and _decl_init(g[0]) is lg_:
                            ok = True
            R.check(ok, "GATE", "AWS_LOGF@%s" % fn.name, where(fn, e), "log(level=%s) guarded by get_log_level() >= %s" % (lvl_arg, lvl_arg),
                    "log call with level %s is not guarded by get_log_level() >= that level (guards seen: %s)" % (lvl_arg, seen))
    R.require(n >= 70, "only %d AWS_LOGF expansions found in the library (confirmed: 78)" % n)


# ------------------------------------------------------------------ OWNERSHIP
def ownership(R, ch, lg):
    f = lg["s_aws_logger_pipeline_log"]
    sends = [e for e in f.indirect_calls() if RU.indirect_via(f, e.node) == ("aws_log_channel_vtable", "send")]
    fmts = [e for e in f.indirect_calls() if RU.indirect_via(f, e.node) == ("aws_log_formatter_vtable", "format")]
    R.require(len(sends) == 1 and len(fmts) == 1, "pipeline_log: expected one format and one send call")
    if sends and fmts:
        line = argstr(f, sends[0].node, 1, addr=False)
        R.check(argstr(f, fmts[0].node, 1) == line, "OWNERSHIP", "pipeline:line-sent-is-line-formatted", where(f, sends[0]), "send(%s) is the formatter's output" % line)
        lvl_ok = argstr(f, fmts[0].node, 2, addr=False) == "log_level"
        R.check(lvl_ok, "GATE", "pipeline:level-forwarded", where(f, fmts[0]), "the gated level is the one formatted")

        def tr(e, s):
            if e is sends[0]:
                return "sent?"
            if e.kind == "call" and e.node.get("callee") in ("aws_string_destroy", "aws_string_destroy_secure") and argstr(f, e.node, 0, addr=False) == line:
                if s == "owned":
                    return "destroyed"
                return "BAD:destroy-in-state-" + s
            return s

        def edge(cond, pol, s, fn, b):
            # the send's verdict tested any way: `if (send())`, `if (send() == AWS_OP_SUCCESS)`, `!= 0`, through `!`
            t_ = RU.call_test(fn, cond, pol) if isinstance(pol, bool) else None
            if t_ is not None and t_[0].get("id") == sends[0].node["id"] and s == "sent?":
                return "owned" if t_[1] == "nonzero" else "transferred"
            return s

        ts = Typestate(f, "none", tr, edge)
        bad = {s for s in ts.exit_states if s not in ("none", "transferred", "destroyed")}
        R.check(not bad, "OWNERSHIP", "pipeline:sent-or-destroyed", "%s()" % f.name, "every path ends with the line handed to the channel or destroyed exactly once",
                "a path ends in state %s (failed send must destroy the line once; a successful send must not)" % sorted(bad))
    # foreground
    f = ch["s_foreground_channel_send"]
    line_rule(R, f, "foreground", in_loop=False)
    ts = RU.lockset(f)
    for w in [e for e in f.indirect_calls() if RU.indirect_via(f, e.node) == ("aws_log_writer_vtable", "write")]:
        held = RU.held_at(ts, w) or set()
        R.check(any(h.endswith("->sync") for h in held), "FOREGROUND", "write-under-mutex", where(f, w), "writer called holding %s" % sorted(held),
                "foreground writer called without the channel mutex: concurrent lines can interleave")
    leaked = set().union(*[set(s) for s in ts.exit_states]) if ts.exit_states else set()
    R.check(not leaked, "FOREGROUND", "unlock-on-exit", "%s()" % f.name, "mutex released on every path", "returns holding %s" % sorted(leaked))
    # background thread
    f = ch["aws_background_logger_thread"]
    line_rule(R, f, "background", in_loop=True)
    # batch hygiene: swap(pending, batch) must find the batch cleared
    sw = [e for e in f.calls("aws_array_list_swap_contents")]
    R.require(len(sw) == 1, "background thread: expected exactly one swap of the pending list")
    if sw:
        batch = argstr(f, sw[0].node, 1)

        snaps = {k for k, v in _snapshots(f).items() if v == "count"}
        reads = [e for e in f.calls("aws_array_list_length") if (RU.strip_addr(f, RU.arg(f, e.node, 0)) or {}).get("f") == "pending_log_lines"]
        one_read = len(reads) == 1  # then every snapshot local holds the value of that one read until it is made again

        def tr2(e, s):
            ph, z = s
            if e.kind == "call":
                c = e.node.get("callee")
                if c == "aws_array_list_swap_contents":
                    return ("BAD" if ph == "dirty" else "dirty", z)
                if c == "aws_array_list_clear" and argstr(f, e.node, 0) == batch:
                    return ("clean", z)
                if c in ("aws_array_list_init_dynamic",) and argstr(f, e.node, 0) == batch:
                    return ("clean", z)
                if any(e is r_ for r_ in reads):
                    return (ph, None)
            return s

        def edge2(cond, pol, s, fn, b):
            # the swap and the clean-up of the batch are decided by tests of the same snapshot of the pending count: a path
            # that has seen it non-zero cannot then see it zero
            if not one_read:
                return s
            g = RU.cmp_norm(fn, cond, pol)
            if not g or g[2] is None:
                return s
            l, op, r = RU.uncast(fn, g[0]), g[1], RU.uncast(fn, g[2])
            if l is None or l["k"] != "var" or l["n"] not in snaps or fn.is_const(r) != 0:
                return s
            new = "Z" if op in ("==", "<=") else ("NZ" if op in ("!=", ">") else None)
            if new is None:
                return s
            if s[1] is not None and s[1] != new:
                return []
            return (s[0], new)

        ts2 = Typestate(f, ("uninit", None), tr2, edge2)
        allst = {u[0] for v_ in ts2.before.values() for u in v_} if ts2.before else set()
        allst |= {u[0] for u in ts2.exit_states}
        R.check("BAD" not in allst, "OWNERSHIP", "background:batch-cleared-before-next-swap", where(f, sw[0]),
                "the written batch is cleared before it is swapped back", "the batch list still holds destroyed lines when it is swapped into the pending list again")
        # the loop over the batch covers line_count entries read from the pending list under the lock
        lens = [e for e in f.calls("aws_array_list_length") if (RU.strip_addr(f, RU.arg(f, e.node, 0)) or {}).get("f") == "pending_log_lines"]
        R.check(len(lens) >= 1, "OWNERSHIP", "background:count-read", "%s()" % f.name, "batch size read from the pending list")


def line_rule(R, f, tag, in_loop):
    writes = [e for e in f.indirect_calls() if RU.indirect_via(f, e.node) == ("aws_log_writer_vtable", "write")]
    R.require(len(writes) == 1, "%s: expected exactly one writer call, found %d" % (f.name, len(writes)))
    if not writes:
        return
    w = writes[0]
    line = RU.arg(f, w.node, 1)
    lname = f.show(line)
    destroys = [e for e in f.calls({"aws_string_destroy", "aws_string_destroy_secure"}) if argstr(f, e.node, 0, addr=False, alias=False) == lname]
    dom = dominators(f)
    okf, _ = RU.must_follow(f, lambda e: e is w, lambda e: any(e is d for d in destroys))
    R.check(bool(destroys) and okf, "OWNERSHIP", "%s:write-then-destroy" % tag, where(f, w), "line %s destroyed on every path after being written" % lname,
            "a path writes the line and never destroys it (leak) ")
    for d in destroys:
        R.check(ev_dominates(f, w, d, dom), "OWNERSHIP", "%s:destroy-after-write" % tag, where(f, d), "destroy happens after the write",
                "line destroyed on a path that has not written it (line lost) or before the write (use after free)")
        if line is not None and line["k"] == "var":
            later = RU.dead_after(f, d, line["n"])
            R.check(not later, "OWNERSHIP", "%s:dead-after-destroy" % tag, where(f, d), "no use after destroy", "line used after destroy at lines %s" % [x.line for x in later][:3])

    # exactly once: no second destroy reachable from a destroy without re-binding the variable
    def tr(e, s):
        if any(e is d for d in destroys):
            return "BAD" if s == "dead" else "dead"
        if line is not None and line["k"] == "var" and e.kind in ("decl", "access"):
            from sa.cfg import assigned_vars
            if line["n"] in assigned_vars(f, e):
                return "live"
        if e.kind == "call" and e.node.get("callee") == "aws_array_list_get_at" and line is not None and argstr(f, e.node, 1) == lname:
            return "live"
        return s

    ts = Typestate(f, "live", tr)
    allst = set().union(*ts.before.values()) | ts.exit_states
    R.check("BAD" not in allst, "OWNERSHIP", "%s:destroyed-once" % tag, "%s()" % f.name, "no path destroys the same line twice", "a path destroys the same line twice")


# ------------------------------------------------------------------ background protocol
def background(R, ch):
    requires = {"s_background_wait", "aws_background_logger_listen_for_messages"} & set(ch)
    entry, sites, problems = RU.entry_locksets(ch, requires)
    for p in problems:
        R.broken(p)
    n_acc = 0
    for name, f in sorted(ch.items()):
        acc = f.field_accesses(rec=BG, field=("pending_log_lines", "finished"))
        if not acc and name not in requires:
            continue
        ts = RU.lockset(f, init=entry.get(name, frozenset()))
        dom = dominators(f)
        for e in acc:
            n_acc += 1
            base = f.show(e.node["a"][0], alias=True)
            want = base + "->sync"
            inst = "%s:%s" % (name, e.node["f"])
            held = RU.held_at(ts, e)
            if held is not None and want in held:
                R.ok("LOCK", inst, where(f, e), "%s held%s" % (want, " (requires-lock: sites %s)" % sites[name] if name in requires else ""))
                continue
            if name == "aws_log_channel_init_background":
                from rules.C08 import launch_state
                sts = launch_state(f).before.get(e.pos, set())
                R.check(sts and sts <= {"none", "failed"}, "LOCK", inst, where(f, e), "constructor: background thread not running (%s)" % sorted(sts),
                        "constructor touches %s while the background thread may be running, without the mutex" % e.node["f"])
                continue
            if name == "s_background_channel_clean_up":
                joins = f.calls("aws_thread_join")
                R.check(any(ev_dominates(f, j, e, dom) for j in joins), "LOCK", inst, where(f, e), "after aws_thread_join",
                        "clean-up touches %s without the mutex before the background thread is joined" % e.node["f"])
                continue
            R.fail("LOCK", inst, where(f, e), "access to %s->%s without holding %s (held: %s)" % (base, e.node["f"], want, sorted(held or [])))
        leaked = set()
        for s in ts.exit_states:
            leaked |= set(s) - set(entry.get(name, ()))
        R.check(not leaked, "LOCK", "no-lock-at-exit:%s" % name, "%s()" % name, "returns with the mutex released", "returns while holding %s" % sorted(leaked))
        for e in f.calls(set(RU.WAIT_PRED)):
            mi, pi, ci = RU.WAIT_PRED[e.node["callee"]]
            held = RU.held_at(ts, e) or set()
            R.check(argstr(f, e.node, mi) in held, "LOCK", "wait-with-mutex-held:%s" % name, where(f, e), "wait entered holding the mutex",
                    "condition wait on %s entered without holding it (held %s)" % (argstr(f, e.node, mi), sorted(held)))
    R.require(n_acc >= 8, "only %d guarded accesses to the background channel state found (confirmed: >= 8)" % n_acc)

    # NOTIFY
    pred = ch["s_background_wait"]
    pred_reads = {e.node["f"] for e in pred.field_accesses(rec=BG)}
    for name in ("s_background_channel_send", "s_background_channel_clean_up"):
        f = ch[name]

        def is_change(e, f=f):
            if e.kind == "call" and e.node.get("callee") in ("aws_array_list_push_back", "aws_array_list_push_front"):
                return (RU.strip_addr(f, RU.arg(f, e.node, 0)) or {}).get("f") == "pending_log_lines"
            return e.kind == "access" and e.node["k"] == "member" and e.node.get("rec") == BG and e.node["f"] == "finished" and e.mode in ("w", "rw")

        def is_notify(e, f=f):
            return e.kind == "call" and e.node.get("callee") in ("aws_condition_variable_notify_one", "aws_condition_variable_notify_all") and \
                (RU.strip_addr(f, RU.arg(f, e.node, 0)) or {}).get("f") == "pending_line_signal"

        changes = [e for e in f.all_events() if is_change(e)]
        R.require(len(changes) >= 1, "%s: no state change found" % name)
        okf, _ = RU.must_follow(f, is_change, is_notify)
        R.check(okf, "NOTIFY", "change-then-notify:%s" % name, "%s()" % name, "state change followed by a notification on every path",
                "a path changes the pending list / finished flag and returns without notifying the background thread")
        for c in changes:
            fld = c.node["f"] if c.kind == "access" else "pending_log_lines"
            R.check(fld in pred_reads, "NOTIFY", "predicate-reads:%s" % fld, "s_background_wait()", "wait predicate reads %s" % fld,
                    "%s changes %s but the wait predicate does not read it (missed wake-up / never exits)" % (name, fld))
    # send: the pushed value is the line parameter
    f = ch["s_background_channel_send"]
    for e in f.calls("aws_array_list_push_back"):
        R.check(argstr(f, e.node, 1) == "log_line", "OWNERSHIP", "background-send:pushes-the-line", where(f, e), "the line itself is queued")

    # EXIT: loop left only with (empty, finished) observed in the current critical section
    f = ch["aws_background_logger_thread"]
    srcs = _snapshots(f)
    R.require(set(srcs.values()) == {"count", "finished"}, "background thread: snapshot locals of count/finished not found (%s)" % srcs)

    def flag_of(rhs):
        """(snapshot name, negated) when rhs is a snapshot local or its negation (through casts)"""
        n_, neg = f.d(rhs), False
        for _ in range(6):
            if n_ is None:
                return None
            if n_["k"] == "cast":
                n_ = f.d(n_["a"][0])
            elif n_["k"] == "un" and n_["op"] == "!":
                neg = not neg
                n_ = f.d(n_["a"][0])
            else:
                break
        if n_ is not None and n_["k"] == "var" and n_["n"] in srcs:
            return srcs[n_["n"]], neg
        return None

    def tr(e, s):
        if e.kind == "call" and e.node.get("callee") == "aws_mutex_lock":
            return frozenset(x for x in s if isinstance(x, tuple) and x[0] == "const")
        from sa.cfg import assigned_vars
        for v in assigned_vars(f, e):
            if v in srcs:
                # a fresh snapshot: what was learnt about the old one (also through flags computed from it) is gone
                return frozenset(x for x in s if x != srcs[v] and not (isinstance(x, tuple) and x[0] == "flag" and x[2] == srcs[v]))
            # a loop flag computed from a snapshot (`keep_running = !finished`): a later test of the flag is a test of the snapshot
            rhs = None
            if e.kind == "decl":
                rhs = next((vv.get("init") for vv in e.node["vars"] if vv["n"] == v), None)
            else:
                a_ = _assignment_of(f, e)
                rhs = a_["a"][1] if a_ is not None and a_["op"] == "=" else None
            s = frozenset(x for x in s if not (isinstance(x, tuple) and x[1] == v))
            fl = flag_of(rhs) if rhs is not None else None
            if fl:
                s = s | {("flag", v, fl[0], fl[1])}
            elif rhs is not None and f.is_const(RU.uncast(f, rhs)) is not None:
                s = s | {("const", v, bool(f.is_const(RU.uncast(f, rhs))), None)}
        return s

    def edge(cond, pol, s, fn, b):
        g = RU.cmp_norm(fn, cond, pol)
        if not g:
            return s
        l, op, r = g
        l = RU.uncast(fn, l)
        if l["k"] == "var" and srcs.get(l["n"]) == "count" and r is not None and fn.is_const(r) == 0 and op in ("==", "<="):
            return s | {"count"}
        if l["k"] == "var" and srcs.get(l["n"]) == "finished" and r is None and op == "!=":
            return s | {"finished"}
        if l["k"] == "var" and r is None:
            for x in s:
                if isinstance(x, tuple) and x[0] == "const" and x[1] == l["n"] and ((op == "!=") != x[2]):
                    return []  # the flag still holds the constant it was set to: this branch is not taken
            out = s
            for x in s:
                if isinstance(x, tuple) and x[0] == "flag" and x[1] == l["n"] and x[2] == "finished" and ((op == "!=") != x[3]):
                    out = out | {"finished"}
            if l.get("sc") == "local" and l["n"] not in srcs:
                # the branch taken fixes the flag's value until it is assigned again
                out = frozenset(x for x in out if not (isinstance(x, tuple) and x[0] == "const" and x[1] == l["n"])) | {("const", l["n"], op == "!=", None)}
            return out
        return s

    ts = Typestate(f, frozenset(), tr, edge)
    bad = [s for s in ts.exit_states if not ({"count", "finished"} <= set(s))]
    R.check(ts.exit_states and not bad, "EXIT", "thread-exits-only-when-empty-and-finished", "%s()" % f.name,
            "every path to the thread's return has seen count == 0 and finished since its last lock",
            "the background thread can return having observed only %s: accepted lines could be dropped at clean-up" % [sorted(y for y in x if isinstance(y, str)) for x in bad])

    # SHUTDOWN-ORDER
    d = ch["s_background_channel_clean_up"]
    dom = dominators(d)
    st = [e for e in d.field_accesses(rec=BG, field="finished", modes=("w",))]
    nt = [e for e in d.calls({"aws_condition_variable_notify_one", "aws_condition_variable_notify_all"})]
    jn = d.calls("aws_thread_join")
    cl = [e for e in d.calls({"aws_thread_clean_up", "aws_condition_variable_clean_up", "aws_array_list_clean_up", "aws_mutex_clean_up"})]
    rel = [e for e in d.calls("aws_mem_release") if argstr(d, e.node, 1, addr=False) in ("impl", "channel->impl")]
    chain = [("store-finished", st), ("notify", nt), ("join", jn), ("clean-ups", cl), ("release", rel)]
    for nm, evs in chain:
        if nm == "join":
            R.check(len(evs) >= 1, "SHUTDOWN-ORDER", "join-present", "%s()" % d.name, "clean-up joins the background thread", "clean-up does not join the background thread before releasing its state")
        else:
            R.require(len(evs) >= 1, "s_background_channel_clean_up: step %s not found" % nm)
    for (an, A), (bn, B) in zip(chain, chain[1:]):
        if A and B:
            bad = RU.must_precede(d, A, B, dom)
            R.check(not bad, "SHUTDOWN-ORDER", "%s<%s" % (an, bn), where(d, (bad or B)[0]), "%s precedes %s" % (an, bn), "%s can happen before %s" % (bn, an))
    # the join happens with the mutex released (otherwise the thread can never take it to drain)
    ts = RU.lockset(d)
    for j in jn:
        held = RU.held_at(ts, j) or set()
        R.check(not held, "SHUTDOWN-ORDER", "join-without-mutex", where(d, j), "join with the mutex released", "aws_thread_join while holding %s: the background thread can never drain" % sorted(held))


MUTANTS = [
    {"name": "logf-gate-with-a-bare-level-argument", "file": "include/aws/common/logging.h", "expect": "GATE", "old": "logger->vtable->get_log_level(logger, (subject)) >= (log_level)) {", "new": "log_level <= logger->vtable->get_log_level(logger, (subject))) {"},
    {"name": "unregister-clears-the-slot-of-the-offset", "file": LG, "expect": "GATE", "old": "    const uint32_t slot_index = min_range >> AWS_LOG_SUBJECT_STRIDE_BITS;\n\n    if (slot_index >= AWS_PACKAGE_SLOTS) {\n        /* This is an NDEBUG build apparently. Kill the process rather than\n         * corrupting heap. */\n        fprintf(stderr, \"Bad log subject slot index 0x%016x\\n\", slot_index);\n        AWS_FATAL_ASSERT(false);\n    }\n\n    s_log_subject_slots[slot_index] = NULL;", "new": "    const uint32_t slot_index = min_range & ((1U << AWS_LOG_SUBJECT_STRIDE_BITS) - 1);\n\n    s_log_subject_slots[slot_index] = NULL;"},
    {"name": "gate-strict", "file": LG, "expect": "GATE",
     "old": "get_log_level(s_root_logger_ptr, subject) < level", "new": "get_log_level(s_root_logger_ptr, subject) <= level"},
    {"name": "failed-send-leaks-line", "file": LG, "expect": "OWNERSHIP",
     "old": "        aws_string_destroy(output);\n        return AWS_OP_ERR;", "new": "        return AWS_OP_ERR;"},
    {"name": "notify-dropped-in-send", "file": CH, "expect": "NOTIFY",
     "old": "    aws_array_list_push_back(&impl->pending_log_lines, &log_line);\n    aws_condition_variable_notify_one(&impl->pending_line_signal);",
     "new": "    aws_array_list_push_back(&impl->pending_log_lines, &log_line);"},
    {"name": "push-outside-lock", "file": CH, "expect": "LOCK",
     "old": "    aws_mutex_lock(&impl->sync);\n    aws_array_list_push_back(&impl->pending_log_lines, &log_line);",
     "new": "    aws_array_list_push_back(&impl->pending_log_lines, &log_line);\n    aws_mutex_lock(&impl->sync);"},
    {"name": "exit-without-empty-check", "file": CH, "expect": "EXIT",
     "old": "        if (line_count == 0) {\n            aws_mutex_unlock(&impl->sync);\n            if (finished) {\n                break;\n            }\n            continue;\n        }",
     "new": "        if (finished) {\n            aws_mutex_unlock(&impl->sync);\n            break;\n        }\n        if (line_count == 0) {\n            aws_mutex_unlock(&impl->sync);\n            continue;\n        }"},
    {"name": "batch-not-cleared", "file": CH, "expect": "OWNERSHIP",
     "old": "        aws_array_list_clear(&log_lines);\n", "new": ""},
    {"name": "foreground-write-unlocked", "file": CH, "expect": "FOREGROUND",
     "old": "    aws_mutex_lock(&impl->sync);\n    (channel->writer->vtable->write)(channel->writer, log_line);\n    aws_mutex_unlock(&impl->sync);",
     "new": "    aws_mutex_lock(&impl->sync);\n    aws_mutex_unlock(&impl->sync);\n    (channel->writer->vtable->write)(channel->writer, log_line);"},
    {"name": "thread-id-cache-not-thread-local", "file": "source/log_formatter.c", "expect": "LINE", "old": "AWS_THREAD_LOCAL struct {\n    bool is_valid;", "new": "static struct {\n    bool is_valid;"},
    {"name": "foreground-send-returns-writer-result", "file": "source/log_channel.c", "expect": "OWNERSHIP", "old": "    (channel->writer->vtable->write)(channel->writer, log_line);\n    aws_mutex_unlock(&impl->sync);\n\n    /*", "new": "    int result = (channel->writer->vtable->write)(channel->writer, log_line);\n    aws_mutex_unlock(&impl->sync);\n\n    /*",
     "old2": "    aws_string_destroy(log_line);\n\n    return AWS_OP_SUCCESS;\n}\n\nstatic void s_foreground_channel_clean_up", "new2": "    aws_string_destroy(log_line);\n\n    return result;\n}\n\nstatic void s_foreground_channel_clean_up"},
    {"name": "subject-index-equal-to-count-accepted", "file": LG, "expect": "GATE", "old": "    if (!subject_slot || subject_index >= subject_slot->count) {", "new": "    if (!subject_slot || subject_index > subject_slot->count) {"},
    {"name": "owned-vtable-without-set-level", "file": LG, "expect": "GATE", "old": "    .clean_up = s_aws_logger_pipeline_owned_clean_up,\n    .set_log_level = s_aws_logger_pipeline_set_log_level,", "new": "    .clean_up = s_aws_logger_pipeline_owned_clean_up,"},
    {"name": "line-sized-without-subject", "file": "source/log_formatter.c", "expect": "LINE", "old": "    int total_length = required_length + MAX_LOG_LINE_PREFIX_SIZE + subject_name_len;", "new": "    int total_length = required_length + MAX_LOG_LINE_PREFIX_SIZE;"},
    {"name": "noalloc-buffer-static", "file": LG, "expect": "LINE", "old": "    char format_buffer[MAXIMUM_NO_ALLOC_LOG_LINE_SIZE];", "new": "    static char format_buffer[MAXIMUM_NO_ALLOC_LOG_LINE_SIZE];"},
    {"name": "separator-index-not-clamped", "file": "source/log_formatter.c", "expect": "LINE",
     "old": "        current_index = s_advance_and" + "_clamp_index(current_index, separator_written, fake_total_length);", "new": "        current_index += (size_t)separator_written;"},  # (the helper's name is split so that it stays a private helper no rule names: sa/flatten.py)
    {"name": "clamp-steps-over-terminator", "file": "source/log_formatter.c", "expect": "LINE",
     "old": "        next_index = (maximum > 0) ? maximum - 1 : 0;", "new": "        next_index = maximum;"},
    {"name": "prefix-room-forgotten", "file": "source/log_formatter.c", "expect": "LINE",
     "old": "aws_mem_calloc(formatter->allocator, 1, sizeof(struct aws_string) + total_length);", "new": "aws_mem_calloc(formatter->allocator, 1, sizeof(struct aws_string) + required_length);"},
    {"name": "join-before-finished", "file": CH, "expect": "SHUTDOWN-ORDER",
     "old": "    aws_thread_join(&impl->background_thread);\n\n    aws_thread_clean_up", "new": "    aws_thread_clean_up"},
]
