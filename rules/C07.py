"""C07 - task scheduler: exactly-once / never-early / order discipline (DESIGN.md section 4, C07)."""
from sa import rules as RU
from sa.cfg import Typestate, dominators, ev_dominates
from sa.extract import library_units
from sa.rules import argstr, where

TS = "source/task_scheduler.c"
PQ = "source/priority_queue.c"

DECIDED = [
    "WHO: task->fn is invoked only by aws_task_run; aws_task_run is called only by the run loop (on a node just popped from the private batch) and by cancel (after the task was detached)",
    "DETACH-FIRST: `scheduled` is cleared before the function is invoked and nothing touches the task afterwards (it may free or re-schedule itself)",
    "NEVER-EARLY: every move of a timed task into the batch is dominated by timestamp <= current_time of that very task; the move loops are left only when empty or when the earliest remaining task is later than current_time",
    "BATCH: the batch list is private, receives the run-now list first, is filled with push_back and drained with pop_front (FIFO)",
    "SCHEDULE: timestamp stored, node and handle reset, insertion, then scheduled=true; the fallback sorted insertion stops at the first strictly later task (equal times stay FIFO)",
    "CANCEL: list removal when linked, heap removal only when scheduled and not linked, then exactly one cancelled invocation",
    "HAS-TASKS: true whenever any of the three containers is non-empty; time is 0 for run-now, else the minimum of the two timed sources, UINT64_MAX when none; clean-up loops until has_tasks is false",
    "COMPARATOR: the heap comparator is a plain comparison of the two stored timestamps",
    "plus the priority-queue handle rules of C06 (the scheduler cancels by handle)",
]
NOT_DECIDED = ["the `always` of the next-task-time clause for a query made from inside a running task (known finding D18)", "exactly-once over arbitrary re-entrant programs as a run-time fact (follows from these rules and C06 only informally)"]
ASSUMPTIONS = ["priority queue and linked list behave per C06 / C09"]


def analyse(ctx, replace=None, only=None):
    R = ctx.R
    units = [u for u in library_units(ctx.ex.repo) if "external" not in u]
    P = ctx.program(units, "ship", replace=replace)
    ts = {f.name: f for f in P.functions_in("source/task_scheduler.c")}
    need = ["aws_task_run", "s_compare_timestamps", "aws_task_scheduler_clean_up", "aws_task_scheduler_has_tasks", "aws_task_scheduler_schedule_now",
            "aws_task_scheduler_schedule_future", "s_run_all", "aws_task_scheduler_cancel_task"]
    for n in need:
        if not R.require(n in ts, "anchor function %s not found" % n):
            return
    for f in ts.values():
        R.fn(f)
    who(R, P, ts)
    run_rules(R, ts, P)
    schedule_rules(R, ts)
    cancel_rules(R, ts, P)
    has_tasks_rules(R, ts, P=P)
    comparator(R, ts)
    from rules import C06
    C06.queue_rules(R, P)


def who(R, P, ts):
    n = 0
    for f in P.by_key.values():
        if "/external/" in f.file:
            continue
        for e in f.indirect_calls():
            if RU.indirect_via(f, e.node) == ("aws_task", "fn"):
                n += 1
                R.check(f.name == "aws_task_run", "WHO", "task-fn-invoked-by:%s" % f.name, where(f, e), "task function invoked by aws_task_run", "task->fn invoked outside aws_task_run")
        for e in f.calls("aws_task_run"):
            R.check(f.name in ("s_run_all", "aws_task_scheduler_cancel_task"), "WHO", "aws_task_run-called-by:%s" % f.name, where(f, e), "aws_task_run called from the run loop / cancel",
                    "aws_task_run called from %s: a task could be invoked without being detached from the scheduler" % f.name)
    R.require(n == 1, "expected exactly one invocation site of task->fn in the library, found %d" % n)


def run_rules(R, ts, P=None):
    f = ts["aws_task_run"]
    dom = dominators(f)
    inv = [e for e in f.indirect_calls() if RU.indirect_via(f, e.node) == ("aws_task", "fn")]
    st = [e for e in f.field_accesses(field="scheduled", modes=("w",))]
    in_run = len(inv) == 1 and len(st) >= 1 and all(ev_dominates(f, s, inv[0], dom) for s in st)
    uncleared = []
    if len(inv) == 1 and not st:
        # accepted as well: every caller inside the scheduler clears the flag of the task it passes before the call
        for g in ts.values():
            gd = None
            for e in g.calls("aws_task_run"):
                gd = gd or dominators(g)
                tk = argstr(g, e.node, 0, addr=False)
                cl = [s for s in g.field_accesses(field="scheduled", modes=("w",)) if g.show(s.node).startswith(tk + "->") and ev_dominates(g, s, e, gd) and (_assignment_of(g, s) or {}).get("a") and g.is_const(_assignment_of(g, s)["a"][1]) == 0]
                if not cl:
                    uncleared.append("%s() line %d" % (g.name, e.line))
        in_run = not uncleared and any(g.calls("aws_task_run") for g in ts.values())
    R.check(in_run, "DETACH-FIRST", "scheduled-cleared-before-invoke", where(f, (inv or st or [None])[0]) if (inv or st) else f.name,
            "scheduled=false precedes the invocation on every route to the task function", "the task function is invoked before `scheduled` is cleared%s: a task that re-schedules itself from its function is marked unscheduled afterwards; a cancelled task stays marked scheduled, so a later cancel of it goes to the heap removal with a stale handle" % ((" (callers that do not clear it: %s)" % uncleared) if uncleared else ""))
    for s in st:
        a = _assignment_of(f, s)
        R.check(a is not None and f.is_const(a["a"][1]) == 0, "DETACH-FIRST", "scheduled-cleared-value", where(f, s), "scheduled set to false")
    if inv:
        later = RU.dead_after(f, inv[0], "task")
        R.check(not later, "DETACH-FIRST", "task-dead-after-invoke", where(f, inv[0]), "task not touched after its function ran", "task used after its function ran (it may have been freed) at lines %s" % [x.line for x in later][:3])
        a = [f.show(x, alias=True) for x in inv[0].node["a"]]
        R.check(a == ["task", "task->arg", "status"], "DETACH-FIRST", "invoke-args", where(f, inv[0]), "fn(task, task->arg, status)")
        ts_ = Typestate(f, 0, lambda e, s: min(s + 1, 2) if e is inv[0] else s)
        R.check(ts_.exit_states == {1}, "DETACH-FIRST", "invoked-exactly-once", "%s()" % f.name, "exactly one invocation on every path")

    f = ts["s_run_all"]
    dom = dominators(f)
    # the private batch
    batch = None
    for e in f.all_events():
        if e.kind == "decl":
            for v in e.node["vars"]:
                t = f.unit.types[v["t"]]
                if t.get("rec") == "aws_linked_list" and not t.get("ptr"):
                    batch = v["n"]
    if not R.require(batch is not None, "s_run_all: private batch list not found"):
        return
    uses = []
    for e in f.all_events():
        if e.kind == "call":
            for i, a in enumerate(e.node["a"]):
                x = RU.strip_addr(f, a)
                if x is not None and x["k"] == "var" and x["n"] == batch:
                    uses.append((e, i))
    okuse = all((e.node.get("callee") or "").startswith("aws_linked_list_") for e, i in uses)
    other = [e for e in f.all_events() if e.kind == "access" and e.node["k"] == "var" and e.node["n"] == batch and e.mode == "addr"]
    # the address may also be bound to the list parameter of an expanded private helper (sa/flatten.py); such a parameter
    # is then itself only handed to linked-list functions (RU.arg sees through it: those calls are among `uses`)
    binds = set()
    for e in f.all_events():
        if e.kind == "decl":
            for v in e.node["vars"]:
                if v.get("bind") and v.get("init") is not None:
                    x = RU.strip_addr(f, v["init"])
                    if x is not None and x["k"] == "var" and x["n"] == batch:
                        binds.add(v["n"])
    direct = 0
    for e, i in uses:
        x = f.d(e.node["a"][i])
        while x is not None and x["k"] == "cast":
            x = f.d(x["a"][0])
        if x is not None and x["k"] == "un" and x["op"] == "addr":
            direct += 1
    bound_other = [e for e in f.all_events() if e.kind == "access" and e.node["k"] == "var" and e.node["n"] in binds and e.mode != "r"]
    bound_reads = [e for e in f.all_events() if e.kind == "access" and e.node["k"] == "var" and e.node["n"] in binds and e.mode == "r"]
    R.check(okuse and len(other) == direct + len(binds) and not bound_other and len(bound_reads) == len(uses) - direct, "BATCH", "batch-is-private", "%s()" % f.name, "the batch list's address only goes to linked-list functions (%d uses)" % len(uses),
            "the batch list escapes: tasks scheduled while running could land in the current batch")
    pushes = [e for e in f.calls({"aws_linked_list_push_back", "aws_linked_list_push_front", "aws_linked_list_insert_before", "aws_linked_list_insert_after"}) if argstr(f, e.node, 0) == batch]
    sw = [e for e, dst, src in RU.list_take_alls(f) if dst == batch and src == "scheduler->asap_list" and e.node["callee"] != "aws_linked_list_move_all_front"]
    R.check(len(sw) == 1 and all(ev_dominates(f, sw[0], p, dom) for p in pushes), "BATCH", "run-now-first", where(f, (sw or pushes)[0]), "run-now tasks are taken first, timed tasks appended after them",
            "the run-now list is not moved into the batch before timed tasks are appended")
    R.check(all(p.node["callee"] == "aws_linked_list_push_back" for p in pushes) and len(pushes) >= 1, "BATCH", "append-only", "%s()" % f.name, "timed tasks are appended with push_back (%d sites)" % len(pushes),
            "a timed task is inserted other than at the back of the batch: time order is broken")
    pops_f = [e for e, l in RU.list_pops(f, "front") if l == batch]
    pops = pops_f + [e for e, l in RU.list_pops(f, "back") if l == batch]
    R.check(len(pops) == 1 and len(pops_f) == 1, "BATCH", "consume-from-front", where(f, pops[0]) if pops else f.name, "batch consumed with pop_front",
            "the batch is not consumed from the front: run order is not schedule order")
    runs = f.calls("aws_task_run")
    R.require(len(runs) == 1, "s_run_all: expected one aws_task_run call")
    if runs and pops:
        tainted, et = RU.derives(f, lambda n: n.get("id") == pops[0].node["id"] and n["k"] in ("call", "ref"))
        R.check(et(RU.arg(f, runs[0].node, 0)) and ev_dominates(f, pops[0], runs[0], dom), "BATCH", "runs-the-popped-task", where(f, runs[0]), "the task run is the one just popped from the batch")
        R.check(argstr(f, runs[0].node, 1, addr=False) == "status", "BATCH", "status-forwarded", where(f, runs[0]), "run status forwarded")
        v = RU.arg(f, runs[0].node, 0)
        if v is not None and v["k"] == "var":
            later = RU.dead_after(f, runs[0], v["n"])
            R.check(not later, "DETACH-FIRST", "run-loop:task-dead-after-run", where(f, runs[0]), "task not touched after it ran", "task used after it ran at lines %s" % [x.line for x in later][:3])
    # loop that runs: continues until the batch is empty
    okl = False
    for b in f.blocks.values():
        if b.term in ("while", "for") and b.cond is not None:
            c, neg = RU.cond_call(f, b.cond)
            if c is not None and c.get("callee") == "aws_linked_list_empty" and argstr(f, c, 0) == batch and neg:
                okl = True
    R.check(okl, "BATCH", "runs-until-empty", "%s()" % f.name, "the run loop continues until the batch is empty", "the run loop does not drain the whole batch")

    # NEVER-EARLY
    moves = [e for e in f.calls("aws_priority_queue_pop") if argstr(f, e.node, 0) == "scheduler->timed_queue"] + \
            [e for e, l in RU.list_pops(f, "front") if l == "scheduler->timed_list"]
    R.require(len(moves) >= 2, "s_run_all: expected heap pops and a timed-list pop, found %d" % len(moves))
    if P is not None:
        never_early_num(R, f, P, moves, batch)
        return
    moves = [e for e in f.calls("aws_priority_queue_pop") if argstr(f, e.node, 0) == "scheduler->timed_queue"] + \
            [e for e, l in RU.list_pops(f, "front") if l == "scheduler->timed_list"]
    R.require(len(moves) == 3, "s_run_all: expected 2 heap pops and 1 timed-list pop, found %d" % len(moves))
    tops = [e for e in f.calls("aws_priority_queue_top") if argstr(f, e.node, 0) == "scheduler->timed_queue"]
    now = f.params[1]["n"]
    # roles: the heap's top is reached through the variable aws_priority_queue_top fills in; anything else with a
    # timestamp is the head of the timed list
    topvars = {argstr(f, t.node, 1) for t in tops}

    def ts_kind(n):
        """'heap' / 'list' when n is <task>->timestamp, else None"""
        n = RU.uncast(f, n)
        if n is None or n["k"] != "member" or n["f"] != "timestamp" or n.get("rec") != "aws_task":
            return None
        names = {x["n"] for x in f.walk(n, follow_refs=True) if x["k"] == "var"}
        return "heap" if names & topvars else "list"

    def time_rel(c_, p_):
        """(kind, op) for a decision `<kind task>.timestamp op current_time` (either operand order, either polarity)"""
        g = RU.cmp_norm(f, c_, p_)
        if not g or g[2] is None:
            return None
        l, op, r = RU.uncast(f, g[0]), g[1], RU.uncast(f, g[2])
        flip = {"<": ">", "<=": ">=", ">": "<", ">=": "<=", "==": "==", "!=": "!="}
        if ts_kind(l) and r is not None and r["k"] == "var" and r["n"] == now:
            return ts_kind(l), op
        if ts_kind(r) and l is not None and l["k"] == "var" and l["n"] == now:
            return ts_kind(r), flip[op]
        return None
    for m in moves:
        kind = "heap" if m.node["callee"] == "aws_priority_queue_pop" else "list"
        rels = [time_rel(c, p) for c, p, b in RU.guards(f, m, dom)]
        ok = any(r_ and r_[0] == kind and r_[1] in ("<=", "<") for r_ in rels)
        R.check(ok, "NEVER-EARLY", "%s:line-guard" % m.node["callee"], where(f, m), "the task moved has timestamp <= current_time (%s)" % [r_ for r_ in rels if r_],
                "a timed task is moved into the batch without the guard timestamp <= current_time on that task (time guards: %s): it can run early" % [r_ for r_ in rels if r_])
        if kind == "heap":
            R.check(any(ev_dominates(f, t, m, dom) for t in tops), "NEVER-EARLY", "heap-pop-after-top", where(f, m), "the heap's top was inspected before popping")
    # every way out of a move loop is taken only when its container is empty or its earliest remaining task is later than
    # current_time - whether written as a loop condition, as a `break` under a test, or as one && condition
    from sa.cfg import edges as _edges
    from sa.num import Num as _Num
    n_exits = 0
    for header, body in _Num(f, None, None).loops().items():
        region = set(body) | {header}
        if not any(m.blk in region for m in moves):
            continue

        def reason(c_, p_):
            cc, neg = RU.cond_call(f, c_)
            if cc is not None and cc.get("callee") == "aws_linked_list_empty" and argstr(f, cc, 0) == "scheduler->timed_list" and (p_ != neg):
                return "list empty"
            t_ = RU.call_test(f, c_, p_)
            if t_ and t_[0].get("callee") == "aws_priority_queue_top" and t_[1] == "nonzero":
                return "heap empty"
            r_ = time_rel(c_, p_)
            if r_ and r_[1] == ">":
                return "%s head later" % r_[0]
            return None
        for b in sorted(region):
            for succ, cnd, pol in _edges(f, b):
                if succ in region or f.blocks[b].noreturn:
                    continue
                n_exits += 1
                if cnd is not None and isinstance(pol, bool):
                    why = reason(cnd, pol)
                else:
                    fake = type("E", (), {"blk": b, "idx": 0, "seq": 0})()
                    why = next((reason(c_, p_) for c_, p_, bb in RU.guards(f, fake, dom) if bb in region and reason(c_, p_)), None)
                R.check(why is not None, "NEVER-EARLY", "move-loop-left-only-when-later", "%s:%s in s_run_all()" % (f.file.replace("/repo/", ""), (f.blocks[b].term_loc or [0])[0]),
                        "the loop is left only when its container is empty or the earliest remaining task is later than current_time (%s)" % why, "a move loop is abandoned although due tasks may remain (they would not run in this call)")
    R.require(n_exits >= 3, "s_run_all: only %d exits of the move loops found (confirmed by reading: 4)" % n_exits)
    # merge order: heap task taken before the list head only if strictly earlier
    hp = [m for m in moves if m.node["callee"] == "aws_priority_queue_pop"]
    okm = False
    for m in hp:
        for c, p, b in RU.guards(f, m, dom):
            g = RU.cmp_norm(f, c, p)
            if g and g[2] is not None:
                kl, kr = ts_kind(g[0]), ts_kind(g[2])
                if (kl, g[1], kr) in (("heap", "<", "list"), ("list", ">", "heap")):
                    okm = True
    R.check(okm, "NEVER-EARLY", "merge-by-time", "%s()" % f.name, "between heap and list the earlier task is taken first")


class SchedHooks(__import__("sa.awslib", fromlist=["AwsHooks"]).AwsHooks):
    """The scheduler's three containers, symbolically: `is the list empty` / `does the heap have a top` are one unknown each
    until the container is changed; the list's first node and the heap's top task are one unknown object each."""

    def call(self, num, st, e, args):
        from sa.num import Poly
        AwsHooks = __import__("sa.awslib", fromlist=["AwsHooks"]).AwsHooks
        c = e.get("callee")
        fn = num.fn
        tests = dict(st.notes.get("tests", {}))
        if c == "aws_linked_list_empty":
            which = argstr(fn, e, 0)
            if which not in tests:
                tests[which] = num.fresh(st, "empty", None, (0, 1))
                st.notes["tests"] = tests
            return Poly.atom(tests[which])
        if c == "aws_priority_queue_top" and len(e["a"]) >= 2:
            if "top" not in tests:
                tests["top"] = num.fresh(st, "top", None, (-1, 0))
                slot = num.fresh(st, "topslot", None, (1, 2 ** 62))
                task = num.fresh(st, "toptask", None, (2 ** 12, 2 ** 62))
                st.extent[slot] = Poly.const(8)
                st.notes["cells"] = list(st.notes.get("cells", [])) + [(Poly.atom(slot), 8, Poly.atom(task))]
                st.notes["toptask"], st.notes["topslot"], st.notes["tests"] = task, slot, tests
            tgt = RU.strip_addr(fn, e["a"][1])
            k = num.key(tgt, st) if tgt is not None else None
            if k:
                st.env[k] = Poly.atom(st.notes["topslot"])
            return Poly.atom(tests["top"])
        if c in RU.LIST_FRONT:
            which = argstr(fn, e, 0)
            fr = dict(st.notes.get("fronts", {}))
            if which not in fr:
                fr[which] = num.fresh(st, "front", None, (2 ** 12, 2 ** 62))
                st.notes["fronts"] = fr
                if which.endswith("timed_list"):
                    st.notes["front"], st.notes["frontof"] = fr[which], which
            return Poly.atom(fr[which])
        if c in ("aws_priority_queue_pop", "aws_priority_queue_remove", "aws_priority_queue_push", "aws_priority_queue_push_ref"):
            tests.pop("top", None)
            st.notes["tests"] = tests
            st.notes.pop("toptask", None)
            return NotImplemented if False else AwsHooks.call(self, num, st, e, args)
        if c in ("aws_linked_list_pop_front", "aws_linked_list_pop_back", "aws_linked_list_remove", "aws_linked_list_push_back", "aws_linked_list_push_front",
                 "aws_linked_list_swap_contents", "aws_linked_list_move_all_back", "aws_linked_list_move_all_front", "aws_linked_list_insert_before", "aws_linked_list_insert_after"):
            lists = [argstr(fn, e, i) for i in range(min(2, len(e["a"])))]
            if c == "aws_linked_list_remove":
                o = RU.origin(fn, RU.arg(fn, e, 0))
                lists = [argstr(fn, o, 0)] if o is not None and o["k"] == "call" and o.get("callee") in RU.LIST_FRONT + RU.LIST_BACK else list(tests)
            ret = None
            fr = dict(st.notes.get("fronts", {}))
            for l_ in lists:
                if c == "aws_linked_list_pop_front" and l_ in fr:
                    ret = Poly.atom(fr[l_])
                tests.pop(l_, None)
                fr.pop(l_, None)
                if st.notes.get("frontof") == l_:
                    st.notes.pop("front", None)
                    st.notes.pop("frontof", None)
            st.notes["tests"], st.notes["fronts"] = tests, fr
            if ret is not None:
                return ret
            return AwsHooks.call(self, num, st, e, args)
        return AwsHooks.call(self, num, st, e, args)


def never_early_num(R, f, P, moves, batch):
    """NEVER-EARLY, decided on NUM's path states with the containers symbolic (SchedHooks):
    line-guard     at every move the task moved has timestamp <= current_time;
    merge-by-time  the heap's top is taken only when the timed list has no due head or the top is strictly earlier; the
                   list's head only when the heap has no due top or the head is not later than it;
    left-only-when-later   when the run phase starts, the timed list is empty or its head is later than current_time, and
                   the heap is empty or its top is later - whatever loops, breaks and sentinels the move phase is made of."""
    from sa.num import Num, Poly, Limit, entails
    now_name = f.params[1]["n"]
    dom = dominators(f)
    run_hdr = None
    for b in f.blocks.values():
        if b.term in ("while", "for") and b.cond is not None:
            c, neg = RU.cond_call(f, b.cond)
            if c is not None and c.get("callee") == "aws_linked_list_empty" and argstr(f, c, 0) == batch and neg:
                run_hdr = c
    if not R.require(run_hdr is not None, "s_run_all: the run loop (while the batch is not empty) not found"):
        return
    num = Num(f, P, SchedHooks(), max_paths=20000)
    try:
        sts = num.states_at({m.node["id"] for m in moves} | {run_hdr["id"]})
    except Limit as ex:
        R.broken(str(ex))
        return

    def view(st):
        tests = st.notes.get("tests", {})
        now = st.env.get("v:" + now_name)
        L = next((v for k, v in st.env.items() if k.endswith(")->timestamp") and st.notes.get("front") and st.notes["front"] in k), None)
        H = next((v for k, v in st.env.items() if k.endswith(")->timestamp") and st.notes.get("toptask") and st.notes["toptask"] in k), None)

        def nonzero(name):
            a_ = next((v for k, v in tests.items() if k.endswith(name)), None)
            return a_ is not None and (entails(st, Poly.const(1) - Poly.atom(a_)) or entails(st, Poly.atom(a_) + 1))
        return now, L, H, nonzero("timed_list"), nonzero("top")

    for m in moves:
        kind = "heap" if m.node["callee"] == "aws_priority_queue_pop" else "list"
        okg, okm, n_, det = True, True, 0, ""
        for st in sts.get(m.node["id"], []):
            n_ += 1
            now, L, H, list_empty, heap_empty = view(st)
            mine, other, other_none = (H, L, list_empty) if kind == "heap" else (L, H, heap_empty)
            if now is None or mine is None or not entails(st, mine - now):
                okg, det = False, "task time %r, current_time %r" % (mine, now)
            other_later = other is not None and now is not None and entails(st, now + 1 - other)
            if kind == "heap":
                earlier = other is not None and mine is not None and entails(st, mine + 1 - other)   # H < L
            else:
                earlier = other is not None and mine is not None and entails(st, mine - other)       # L <= H
            if not (other_none or other_later or earlier):
                okm = False
        R.check(okg and n_ >= 1, "NEVER-EARLY", "%s:line-guard" % m.node["callee"], where(f, m), "the task moved has timestamp <= current_time in all %d states" % n_,
                "a timed task is moved into the batch without the guard timestamp <= current_time on that task (%s): it can run early" % det)
        R.check(okm and n_ >= 1, "NEVER-EARLY", "merge-by-time:%s" % kind, where(f, m), "between heap and list the earlier due task is taken first",
                "a task is moved into the batch although the other container holds an earlier due task: tasks run out of time order")
    oke, n_, det = True, 0, ""
    for st in sts.get(run_hdr["id"], []):
        n_ += 1
        now, L, H, list_empty, heap_empty = view(st)
        ok_l = list_empty or (L is not None and now is not None and entails(st, now + 1 - L))
        ok_h = heap_empty or (H is not None and now is not None and entails(st, now + 1 - H))
        if not (ok_l and ok_h):
            oke, det = False, "%s (trail %s)" % (", ".join(x for x, o in (("the timed list may hold a due head", ok_l), ("the heap may hold a due top", ok_h)) if not o), st.trail[-5:])
    R.check(oke and n_ >= 1, "NEVER-EARLY", "move-loop-left-only-when-later", "%s()" % f.name, "the run phase starts only when neither container holds a due task (%d states)" % n_,
            "a move loop is abandoned although due tasks may remain (they would not run in this call): %s" % det)


def _assignment_of(f, ev):
    for b in f.blocks.values():
        for el in b.elems:
            for n in f.walk(el):
                if n["k"] == "bin" and n["op"] == "=" and f.d(n["a"][0]) is ev.node:
                    return n
    return None


def schedule_rules(R, ts):
    for name, container in (("aws_task_scheduler_schedule_now", "asap_list"), ("aws_task_scheduler_schedule_future", "timed_queue")):
        f = ts[name]
        dom = dominators(f)
        resets = f.calls("aws_linked_list_node_reset") + f.calls("aws_priority_queue_node_init")
        sched = [e for e in f.field_accesses(field="scheduled", modes=("w",))]
        tstamp = [e for e in f.field_accesses(rec="aws_task", field="timestamp", modes=("w",))]
        if name.endswith("now"):
            ins = [e for e in f.calls("aws_linked_list_push_back") if argstr(f, e.node, 0) == "scheduler->asap_list"]
        else:
            ins = [e for e in f.calls("aws_priority_queue_push_ref") if argstr(f, e.node, 0) == "scheduler->timed_queue"]
        R.check(len(resets) == 2 and len(ins) == 1 and all(ev_dominates(f, r, ins[0], dom) for r in resets), "SCHEDULE", "%s:reset-before-insert" % name, where(f, ins[0]) if ins else name,
                "list node and heap handle reset before insertion", "the node/handle is not reset before insertion: cancel would see a stale link or handle")
        a = _assignment_of(f, tstamp[0]) if tstamp else None
        want = "0" if name.endswith("now") else "time_to_run"
        R.check(a is not None and f.show(a["a"][1]) == want and ins and ev_dominates(f, tstamp[0], ins[0], dom), "SCHEDULE", "%s:timestamp-stored" % name, where(f, tstamp[0]) if tstamp else name,
                "task->timestamp = %s before insertion" % want, "the task's timestamp is not set to %s before it is inserted" % want)
        okf, _ = RU.must_follow(f, lambda e: any(e is i for i in ins), lambda e: any(e is s for s in sched))
        sv = [f.is_const(_assignment_of(f, s)["a"][1]) for s in sched if _assignment_of(f, s)]
        R.check(bool(sched) and okf and all(v == 1 for v in sv), "SCHEDULE", "%s:scheduled-set" % name, "%s()" % name, "scheduled=true on every path after insertion")
        if not name.endswith("now"):
            # a task given a time - any time, 0 included - is a timed task: it goes to the timed structures on every path
            # (run-all runs the run-now tasks first and the timed tasks after them, in time order)
            asap = [e for e in f.calls({"aws_task_scheduler_schedule_now"})] + [e for e in f.calls({"aws_linked_list_push_back", "aws_linked_list_push_front", "aws_linked_list_insert_before", "aws_linked_list_insert_after"}) if "asap_list" in f.show(e.node)]
            timed_ins = ins + [e for e in f.calls({"aws_linked_list_insert_before", "aws_linked_list_push_back"}) if "task->node" in f.show(e.node) and "asap_list" not in f.show(e.node)]
            tsx = Typestate(f, 0, lambda e, s: 1 if any(e is i for i in timed_ins) else s)
            R.check(not asap and tsx.exit_states == {1}, "SCHEDULE", "future:always-a-timed-task", "%s()" % name, "every path inserts the task into the timed heap or the timed overflow list, never into the run-now list",
                    "schedule_future puts a task on the run-now list or returns without inserting it (%s; exit states %s): a timed task (time 0) then runs among the run-now tasks, before run-now tasks scheduled after it" % ([f.show(e.node)[:40] for e in asap], sorted(tsx.exit_states)))
        if not name.endswith("now") and ins:
            R.check(argstr(f, ins[0].node, 2) == "task->priority_queue_node" and argstr(f, ins[0].node, 1) == "task", "SCHEDULE", "future:handle-registered", where(f, ins[0]), "pushed with its own handle")
            # fallback sorted insertion
            # forward (from the first node, stop at the first strictly later task, insert before it) or backward (from the last
            # node, stop at the first task not later, insert after it): the same position in a sorted list
            fb = [e for e in f.calls("aws_linked_list_insert_before")]
            backward = not fb and bool(f.calls("aws_linked_list_insert_after"))
            if backward:
                fb = [e for e in f.calls("aws_linked_list_insert_after")]
            R.check(len(fb) == 1 and argstr(f, fb[0].node, 1) == "task->node", "SCHEDULE", "future:fallback-insert", where(f, fb[0]) if fb else name, "fallback inserts the task's node into the timed list")
            okb = False
            for b in f.blocks.values():
                if b.term == "break":
                    fake = type("E", (), {"blk": b.id, "idx": 0, "seq": 0})()
                    for c, p, bb in RU.guards(f, fake, dom):
                        g = RU.cmp_norm(f, c, p)
                        if not g or g[2] is None:
                            continue
                        tp, tt = f.params[1]["n"], f.params[2]["n"]
                        # the new task's time: the parameter, or the task's own timestamp field (which was set from it)
                        own = lambda n_: f.show(RU.uncast(f, n_)) in (tt, tp + "->timestamp")
                        other = lambda n_: "timestamp" in f.show(n_) and not own(n_)
                        if not backward and ((g[1] == ">" and own(g[2]) and other(g[0])) or (g[1] == "<" and own(g[0]) and other(g[2]))):
                            okb = True
                        if backward and ((g[1] == "<=" and own(g[2]) and other(g[0])) or (g[1] == ">=" and own(g[0]) and other(g[2]))):
                            okb = True
            # the same decision seen from the step that moves on: the scan advances only past tasks that are not later
            # (forward) / that are strictly later (backward) - covers loops written without a `break`
            advs = f.calls("aws_linked_list_prev" if backward else "aws_linked_list_next")
            if not okb and advs:
                tp, tt = f.params[1]["n"], f.params[2]["n"]
                own = lambda n_: f.show(RU.uncast(f, n_)) in (tt, tp + "->timestamp")
                other = lambda n_: "timestamp" in f.show(n_) and not own(n_)
                oka = True
                for adv in advs:
                    hit = False
                    for c, p, bb in RU.guards(f, adv, dom):
                        g = RU.cmp_norm(f, c, p)
                        if not g or g[2] is None:
                            continue
                        if not backward and ((g[1] == "<=" and own(g[2]) and other(g[0])) or (g[1] == ">=" and own(g[0]) and other(g[2]))):
                            hit = True
                        if backward and ((g[1] == ">" and own(g[2]) and other(g[0])) or (g[1] == "<" and own(g[0]) and other(g[2]))):
                            hit = True
                    oka = oka and hit
                okb = oka
            R.check(okb, "SCHEDULE", "future:fallback-stops-at-strictly-later", "%s()" % name, "sorted insertion stops at the first task strictly later (equal times stay FIFO)",
                    "the fallback sorted insertion does not stop at the first strictly later task")
            # the scan variable (the position handed to insert_before) walks the list node by node from its first node:
            # it is set from begin / front of the timed list and from aws_linked_list_next of itself; a jump to the end
            # is sound only when decided by the *last* task's time (the list is sorted: nothing before it is later)
            if fb:
                pos = RU.uncast(f, RU.arg(f, fb[0].node, 0))
                if pos is not None and pos["k"] == "var":
                    bad_defs = []
                    for b in f.blocks.values():
                        for el in b.elems:
                            for x in f.walk(el):
                                rhs = None
                                if x["k"] == "decl":
                                    rhs = next((v.get("init") for v in x["vars"] if v["n"] == pos["n"]), None)
                                elif x["k"] == "bin" and x["op"] == "=" and (f.d(x["a"][0]) or {}).get("k") == "var" and f.d(x["a"][0])["n"] == pos["n"]:
                                    rhs = x["a"][1]
                                if rhs is None:
                                    continue
                                r_ = RU.uncast(f, rhs)
                                while r_ is not None and r_["k"] == "cast":
                                    r_ = RU.uncast(f, r_["a"][0])
                                c_ = (r_ or {}).get("callee") if r_ is not None and r_["k"] == "call" else None
                                if c_ in (RU.LIST_BACK if backward else RU.LIST_FRONT) and argstr(f, r_, 0) == "scheduler->timed_list":
                                    continue
                                if c_ == ("aws_linked_list_prev" if backward else "aws_linked_list_next") and f.show(RU.uncast(f, RU.arg(f, r_, 0))) == pos["n"]:
                                    continue
                                if not backward and c_ == "aws_linked_list_end" and argstr(f, r_, 0) == "scheduler->timed_list":
                                    ev_ = type("E", (), {"blk": b.id, "idx": 0, "seq": 0})()
                                    by_last = False
                                    for cc, pp, bb in RU.guards(f, ev_, dom):
                                        for y in f.walk(f.d(cc), follow_refs=True):
                                            o_ = RU.origin(f, y) if y["k"] == "var" else None
                                            if o_ is not None and o_["k"] == "call" and o_.get("callee") in RU.LIST_BACK:
                                                by_last = True
                                            if y["k"] == "call" and y.get("callee") in RU.LIST_BACK:
                                                by_last = True
                                    if by_last:
                                        continue
                                bad_defs.append(f.show(r_)[:60] if r_ is not None else "?")
                    R.check(not bad_defs, "SCHEDULE", "future:fallback-scans-from-the-front", "%s()" % name, "the insertion position walks the timed list node by node from its first node",
                            "the insertion position of the fallback is also set from %s: part of the sorted list is skipped without looking at it, the new task lands behind later ones and runs out of time order" % bad_defs)


def unlinked_reads_as_unlinked(R, P):
    """CANCEL/unlink: `task->node.next != NULL` is how cancel (and the thread scheduler's cancellation guard) tell that a
    task sits in a list: aws_linked_list_remove must leave the removed node with NULL links on every path (it resets the
    node, or stores NULL to both links)"""
    g = P.fn("aws_linked_list_remove") if P is not None else None
    if g is None:
        return
    R.fn(g)
    pn = g.params[0]["n"]
    resets = [e for e in g.calls("aws_linked_list_node_reset") if argstr(g, e.node, 0, addr=False) == pn]
    nulls = {}
    for e in g.field_accesses(rec="aws_linked_list_node", modes=("w",)):
        if g.show(e.node["a"][0]) == pn:
            a_ = _assignment_of(g, e)
            if a_ is not None and g.is_const(RU.uncast(g, a_["a"][1])) == 0:
                nulls[e.node["f"]] = e
    rs = P.fn("aws_linked_list_node_reset")
    reset_ok = rs is not None and (bool(rs.calls({"memset", "__builtin_memset"})) or len({e.node["f"] for e in rs.field_accesses(rec="aws_linked_list_node", modes=("w",))}) >= 2)

    def tr(e, s_):
        if any(e is r_ for r_ in resets) and reset_ok:
            return frozenset({"next", "prev"})
        for fld, ev in nulls.items():
            if e is ev:
                return s_ | {fld}
        return s_
    ts_ = Typestate(g, frozenset(), tr)
    R.check(bool(ts_.exit_states) and all(s_ >= {"next", "prev"} for s_ in ts_.exit_states), "CANCEL", "unlinked-node-reads-as-unlinked", "include/aws/common/linked_list.inl in aws_linked_list_remove()",
            "a removed node has NULL links on every path", "aws_linked_list_remove leaves the removed node's links dangling: `node.next != NULL` no longer tells a linked task from one that already ran - a cancel that arrives late unlinks whatever those stale links point at and delivers the task a second time")


def cancel_rules(R, ts, P=None):
    unlinked_reads_as_unlinked(R, P)
    f = ts["aws_task_scheduler_cancel_task"]
    dom = dominators(f)
    rm = f.calls("aws_linked_list_remove")
    pq = f.calls("aws_priority_queue_remove")
    run = f.calls("aws_task_run")
    R.require(len(rm) == 1 and len(pq) == 1 and len(run) == 1, "cancel_task: expected one list removal, one heap removal, one run")
    if not (rm and pq and run):
        return

    def gl(e):
        out = []
        for c, p, b in RU.guards(f, e, dom):
            g = RU.cmp_norm(f, c, p)
            if g:
                out.append((f.show(RU.uncast(f, g[0])), g[1], None if g[2] is None else f.show(RU.uncast(f, g[2]))))
        return out

    g1, g2 = gl(rm[0]), gl(pq[0])
    R.check(("task->node.next", "!=", None) in g1, "CANCEL", "list-removal-when-linked", where(f, rm[0]), "unlink only when the node is linked (%s)" % g1)
    R.check(("task->node.next", "==", None) in g2 and ("task->abi_extension.scheduled", "!=", None) in g2, "CANCEL", "heap-removal-when-scheduled-and-unlinked", where(f, pq[0]),
            "heap removal only for a scheduled task that is not in a list (%s)" % g2,
            "the heap removal is not guarded by `scheduled` (guards: %s): cancelling a task that is in no container removes whatever element its zeroed handle points at" % g2)
    R.check(argstr(f, pq[0].node, 2) == "task->priority_queue_node" and argstr(f, pq[0].node, 0) == "scheduler->timed_queue", "CANCEL", "heap-removal-by-own-handle", where(f, pq[0]), "removal by the task's own handle")
    tsx = Typestate(f, 0, lambda e, s: min(s + 1, 2) if e is run[0] else s)
    R.check(tsx.exit_states == {1} and f.show(RU.arg(f, run[0].node, 1)) in ("AWS_TASK_STATUS_CANCELED",), "CANCEL", "cancelled-invocation-exactly-once", where(f, run[0]), "exactly one invocation with CANCELED status")
    R.check(all(run[0] in RU.reach_from(f, e) for e in rm + pq), "CANCEL", "detach-before-invoke", where(f, run[0]), "the task is detached before it is invoked")


def has_tasks_rules(R, ts, batch=True, P=None):
    f = ts["aws_task_scheduler_has_tasks"]
    dom = dominators(f)
    # NUM over every return state.  The three container tests (run-now list empty?, timed list empty?, heap top available?)
    # are symbolic; what the function answers is compared with what the tests it made on that path say:
    #   result: true with at least one container seen non-empty, false only with all three seen empty;
    #   time:   0 when the run-now list is non-empty; else the timed list's head / the heap's top / the smaller of the two;
    #           UINT64_MAX when everything is empty
    # - however the flag, the early returns and the minimum are written.
    from sa.num import Num, Poly, Limit, entails
    from sa.awslib import AwsHooks, target_of

    class H(AwsHooks):
        def call(self, num, st, e, args):
            c = e.get("callee")
            if c == "aws_linked_list_empty":
                which = argstr(num.fn, e, 0)
                memo = dict(st.notes.get("tests", {}))
                if which not in memo:
                    memo[which] = num.fresh(st, "empty", None, (0, 1))
                    st.notes["tests"] = memo
                return Poly.atom(memo[which])
            if c == "aws_priority_queue_top" and len(e["a"]) >= 2:
                memo = dict(st.notes.get("tests", {}))
                if "top" not in memo:
                    memo["top"] = num.fresh(st, "top", None, (-1, 0))
                    slot = num.fresh(st, "topslot", None, (1, 2 ** 62))
                    task = num.fresh(st, "toptask", None, (1, 2 ** 62))
                    st.extent[slot] = Poly.const(8)
                    st.notes["cells"] = list(st.notes.get("cells", [])) + [(Poly.atom(slot), 8, Poly.atom(task))]
                    st.notes["toptask"] = task
                    st.notes["topslot"] = slot
                    st.notes["tests"] = memo
                tgt = RU.strip_addr(num.fn, e["a"][1])
                k = num.key(tgt, st) if tgt is not None else None
                if k:
                    st.env[k] = Poly.atom(st.notes["topslot"])
                return Poly.atom(memo["top"])
            if c in RU.LIST_FRONT:
                if "front" not in st.notes:
                    st.notes["front"] = num.fresh(st, "front", None, (2 ** 12, 2 ** 62))
                    st.notes["frontof"] = argstr(num.fn, e, 0)
                return Poly.atom(st.notes["front"])
            return AwsHooks.call(self, num, st, e, args)
    num = Num(f, P, H(), max_paths=4000)
    rets = [x for b in f.blocks.values() for x in b.elems if x["k"] == "ret"]
    try:
        sts = num.states_at({r["id"] for r in rets})
    except Limit as ex:
        R.broken(str(ex))
        sts = {}
    outp = f.params[1]["n"] if len(f.params) >= 2 else None
    bad_flag, bad_time, nst, ntime = [], [], 0, 0
    MAXT = 2 ** 64 - 1
    for r in rets:
        for st in sts.get(r["id"], []):
            nst += 1
            rv = num.val(r["a"][0], st) if r.get("a") else None
            tests = st.notes.get("tests", {})

            def known(name, zero):
                a_ = next((v for k, v in tests.items() if k.endswith(name)), None)
                if a_ is None:
                    return False
                p_ = Poly.atom(a_)
                return (entails(st, p_) and entails(st, -p_)) if zero else (entails(st, Poly.const(1) - p_) or entails(st, p_ + 1))
            asap_ne, timed_ne, heap_ne = known("asap_list", True), known("timed_list", True), known("top", True)
            asap_e, timed_e, heap_e = known("asap_list", False), known("timed_list", False), known("top", False)
            line = r["loc"][0]
            if rv is not None and rv.is_const() and rv.cval() == 1:
                if not (asap_ne or timed_ne or heap_ne):
                    bad_flag.append("line %d answers true without having seen a non-empty container" % line)
            elif rv is not None and rv.is_const() and rv.cval() == 0:
                if not (asap_e and timed_e and heap_e):
                    bad_flag.append("line %d answers false although %s not seen empty" % (line, [n for n, e_ in (("the run-now list", asap_e), ("the timed list", timed_e), ("the heap", heap_e)) if not e_]))
            else:
                bad_flag.append("line %d: the answer %r is not decided by the container tests" % (line, rv))
            # the reported time
            pv = st.env.get("v:" + outp) if outp else None
            if pv is None or not entails(st, Poly.const(1) - pv):
                continue  # the caller did not ask for the time on this path
            outs = [v for k, v in st.env.items() if k.endswith(")->") and len(pv.t) == 1 and k == "(%s)->" % list(pv.t)[0][0]]
            ntime += 1
            if len(outs) != 1:
                bad_time.append("line %d: no time is written to *%s" % (line, outp))
                continue
            T = outs[0]
            L = next((v for k, v in st.env.items() if k.endswith(")->timestamp") and st.notes.get("front") and st.notes["front"] in k), None)
            Hh = next((v for k, v in st.env.items() if k.endswith(")->timestamp") and st.notes.get("toptask") and st.notes["toptask"] in k), None)

            def eq(a_, b_):
                return a_ is not None and b_ is not None and entails(st, a_ - b_) and entails(st, b_ - a_)
            if asap_ne:
                okt = eq(T, Poly.const(0))
            elif timed_ne and heap_ne:
                okt = (eq(T, L) or eq(T, Hh)) and L is not None and Hh is not None and entails(st, T - L) and entails(st, T - Hh)
            elif timed_ne:
                okt = eq(T, L) and st.notes.get("frontof", "").endswith("timed_list")
            elif heap_ne:
                okt = eq(T, Hh)
            else:
                okt = eq(T, Poly.const(MAXT))
            if not okt:
                bad_time.append("line %d reports %r (run-now %s, timed list %s head %r, heap %s top %r)" % (line, T, "non-empty" if asap_ne else "empty", "non-empty" if timed_ne else "empty", L, "non-empty" if heap_ne else "empty", Hh))
    R.check(not bad_flag and nst >= 2, "HAS-TASKS", "returns-the-flag", "%s()" % f.name, "true exactly when one of the three containers was seen non-empty (%d return states)" % nst,
            "the answer does not follow the container tests: %s: a task at the maximum timestamp (or in a container not looked at) is reported as no task" % "; ".join(bad_flag[:2]))
    R.check(not bad_time and ntime >= 2, "HAS-TASKS", "minimum-of-heap-and-list", "%s()" % f.name, "the time reported is 0 / the earlier of the timed list's head and the heap's top / UINT64_MAX (%d states)" % ntime,
            "the next-task time reported is not the earliest pending time: %s" % "; ".join(bad_time[:2]))
    # "always reports the earliest pending time": every container a scheduled, not yet invoked task can sit in is looked at.
    # s_run_all moves the tasks of the current call into a list that is local to it before it invokes them one by one.
    ra = ts["s_run_all"]
    local_lists = set()
    for e in ra.all_events():
        if e.kind == "decl":
            for v in e.node["vars"]:
                if ra.unit.types[v["t"]].get("rec") == "aws_linked_list":
                    local_lists.add(v["n"])
    fed = {l for l in local_lists if any(l in argstr(ra, e.node, i) for e in ra.calls({"aws_linked_list_push_back", "aws_linked_list_swap_contents"}) for i in (0, 1) if i < len(e.node["a"]))}
    invoked_from = {l for l in fed if any(l in argstr(ra, e.node, 0) for e in ra.calls({"aws_linked_list_pop_front"}))}
    visible = {x["f"] for b in f.blocks.values() for el in list(b.elems) + ([b.cond] if b.cond is not None else []) for x in f.walk(el, follow_refs=True) if x["k"] == "member" and x.get("rec") == "aws_task_scheduler"}
    if batch:  # asked from inside a running task; not part of the thread scheduler's contract (C08 shares the other rules)
        R.check(not invoked_from, "HAS-TASKS", "sees-the-current-batch", "%s() / s_run_all()" % f.name, "no pending task sits in a container the query does not look at",
            "s_run_all keeps the tasks of the current call in %s, local to that call, while it invokes them one by one; aws_task_scheduler_has_tasks only looks at %s: asked from inside a running task it reports `no tasks` / UINT64_MAX although later tasks of the same call are still pending" % (sorted(invoked_from), sorted(visible)))
    c = ts["aws_task_scheduler_clean_up"]
    okl = False
    for b in c.blocks.values():
        if b.term in ("while", "for", "do") and b.cond is not None:
            cc, neg = RU.cond_call(c, b.cond)
            if cc is not None and cc.get("callee") == "aws_task_scheduler_has_tasks" and not neg:
                okl = True
    runs = c.calls("s_run_all")
    R.check(okl and len(runs) == 1 and c.is_const(RU.arg(c, runs[0].node, 1)) == 2 ** 64 - 1 and c.show(RU.arg(c, runs[0].node, 2)) == "AWS_TASK_STATUS_CANCELED", "HAS-TASKS", "clean-up-cancels-until-empty",
            "%s()" % c.name, "clean-up runs everything as CANCELED at time UINT64_MAX until has_tasks is false")
    cl = c.calls("aws_priority_queue_clean_up")
    R.check(len(cl) == 1 and runs and ev_dominates(c, runs[0], cl[0]) is not None, "HAS-TASKS", "queue-cleaned-after-cancel", "%s()" % c.name, "heap cleaned up after the cancellations")


def comparator(R, ts):
    f = ts["s_compare_timestamps"]
    for r in f.returns():
        v = RU.uncast(f, r.node["a"][0])
        ok = v is not None and v["k"] == "bin" and v["op"] in (">", "<", ">=", "<=")
        if ok:
            for side in v["a"]:
                x = RU.uncast(f, side)
                if x["k"] == "var":
                    init = f.aliases().get(x["n"])
                    if init is None:
                        for e in f.all_events():
                            if e.kind == "decl":
                                for vv in e.node["vars"]:
                                    if vv["n"] == x["n"]:
                                        init = f.d(vv.get("init"))
                    ok = ok and init is not None and "timestamp" in f.show(init) and not any(y["k"] == "bin" for y in f.walk(init, follow_refs=True))
                elif not (x["k"] == "member" and x["f"] == "timestamp"):
                    ok = False
            import re as _re
            pa, pb = f.params[0]["n"], f.params[1]["n"]
            tl = set(_re.findall(r"[A-Za-z_]\w*", f.show(v["a"][0], alias=True)))
            tr_ = set(_re.findall(r"[A-Za-z_]\w*", f.show(v["a"][1], alias=True)))
            # the left operand comes from the first element, the right one from the second (through whatever temporaries)
            ok = ok and ((v["op"] == ">" and pa in tl and pb not in tl and pb in tr_ and pa not in tr_) or (v["op"] == "<" and pb in tl and pa not in tl and pa in tr_ and pb not in tr_))
        R.check(ok, "COMPARATOR", "plain-timestamp-comparison", where(f, r), "min-heap comparator returns a_time > b_time on the stored timestamps",
                "the heap comparator is %s: not a total order on 64-bit timestamps (tasks more than 2^63 apart are mis-ordered)" % f.show(r.node["a"][0]))


MUTANTS = [
    {"name": "invoke-before-clearing-scheduled", "file": TS, "expect": "DETACH-FIRST",
     "old": "    task->abi_extension.scheduled = false;\n    task->fn(task, task->arg, status);", "new": "    task->fn(task, task->arg, status);\n    task->abi_extension.scheduled = false;"},
    {"name": "simple-loop-guard-dropped", "file": TS, "expect": "NEVER-EARLY",
     "old": "        if ((*timed_queue_task_ptrptr)->timestamp > current_time) {\n            break;\n        }\n\n        struct aws_task *next_timed_task;", "new": "        struct aws_task *next_timed_task;"},
    {"name": "batch-push-front", "file": TS, "expect": "BATCH",
     "old": "        aws_linked_list_push_back(&running_list, &next_timed_task->node);", "new": "        aws_linked_list_push_front(&running_list, &next_timed_task->node);"},
    {"name": "cancel-heap-removal-unguarded", "file": TS, "expect": "CANCEL", "old": "    } else if (task->abi_extension.scheduled) {", "new": "    } else {"},
    {"name": "has-tasks-from-timestamp", "file": TS, "expect": "HAS-TASKS", "old": "    return has_tasks;\n}", "new": "    return timestamp != UINT64_MAX;\n}"},
    {"name": "wrap-safe-comparator", "file": TS, "expect": "COMPARATOR", "old": "    return a_time > b_time; /* min-heap */", "new": "    return (int64_t)(a_time - b_time) > 0; /* min-heap */"},
    {"name": "future-time-zero-goes-to-run-now", "file": TS, "expect": "SCHEDULE", "old": "    task->timestamp = time_to_run;\n\n    aws_priority_queue_node_init(&task->priority_queue_node);", "new": "    if (time_to_run == 0) {\n        aws_task_scheduler_schedule_now(scheduler, task);\n        return;\n    }\n    task->timestamp = time_to_run;\n\n    aws_priority_queue_node_init(&task->priority_queue_node);"},
    {"name": "fallback-stops-at-equal", "file": TS, "expect": "SCHEDULE", "old": "            if (task_i->timestamp > time_to_run) {", "new": "            if (task_i->timestamp >= time_to_run) {"},
]
