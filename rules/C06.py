"""C06 - priority queue: element/handle lock-step, invalidation, stale-handle guards, rollback (DESIGN.md section 4, C06)."""
from sa import rules as RU
from sa.cfg import Typestate, dominators, ev_dominates
from sa.rules import argstr, where
from sa.num import Num, Poly, Limit, entails

PQ = "source/priority_queue.c"
SIZE_MAX = 2 ** 64 - 1

DECIDED = [
    "LOCKSTEP: the element array is reordered only by s_swap, which exchanges the two handle slots and rewrites both handles' indices to their new slots; a pushed element's handle receives its slot before any sifting",
    "INVALIDATE: removal swaps to the last slot, pops the element, reads the handle of that last slot, marks it not-in-queue (SIZE_MAX), pops the handle slot, then re-sifts; clear marks every handle; a fresh handle is not-in-queue",
    "GUARD: remove-by-handle is dominated by index < length and a present handle array; pop/top by length != 0",
    "ROLLBACK: after the element was appended, every failing exit pops it again exactly once and every successful exit sifts it up",
    "COVER(push_ref): the zero fill of a freshly created handle array starts at the array and covers at least (index+1) pointer slots (NUM)",
    "HEAP-SHAPE: s_sift_either re-sifts on every path (sift-up unless root, sift-down unless sift-up moved); child/parent index formulas, comparator used with one polarity (> 0) in sift-up and sift-down, re-sift after a removal that moved an element",
    "BOUND/COVER: the zero-fill of a freshly created handle array stays inside it; the sliced element swap stays in bounds and exchanges all item_size bytes (NUM)",
]
NOT_DECIDED = ["heap order as a numeric fact over all histories (pop returns a minimum)", "multiset equality with a reference"]
ASSUMPTIONS = ["aws_array_list operations behave per C09", "the user comparator is a strict weak order"]


def _assignment_of(f, ev):
    for b in f.blocks.values():
        for el in b.elems:
            for n in f.walk(el):
                if n["k"] == "bin" and n["op"] == "=" and f.d(n["a"][0]) is ev.node:
                    return n
    return None


def analyse(ctx, replace=None, only=None):
    R = ctx.R
    P = ctx.program([PQ, "source/array_list.c"], "ship", replace=replace)
    queue_rules(R, P)
    static_queue_takes_handles(R, P)  # (the task scheduler, which shares queue_rules, uses a dynamic queue)
    from rules.C09 import mem_swap_cover
    mem_swap_cover(R, P)
    # BOUND on the handle-array zero fill and on the sliced swap (shared with C09)
    from sa.awslib import AwsHooks, in_bounds
    from sa.bounds import access_sites, addr_size, EntryExtents
    from sa.num import Num, Limit
    for name, pairs in (("aws_priority_queue_push_ref", None), ("aws_array_list_mem_swap", {"item1": "item_size", "item2": "item_size"})):
        f = P.fn(name)
        if not R.require(f is not None, "%s not found" % name):
            continue
        h = EntryExtents(AwsHooks(), f, pairs) if pairs else AwsHooks()
        num = Num(f, P, h)
        sites = [s for s in access_sites(f) if s[1] == "mem"]
        try:
            states = num.states_at({s[0] for s in sites})
        except Limit as ex:
            R.broken(str(ex))
            continue
        n = 0
        for eid, kind, nd in sites:
            for st in states.get(eid, []):
                s2 = st.copy()
                for (D, sz, mode) in addr_size(num, s2, kind, nd):
                    r = in_bounds(s2, D, sz)
                    n += 1
                    R.check(r[0] == "ok", "BOUND", "%s:%s" % (name, f.show(nd)[:50]), where(f, nd), r[1], "cannot establish the bound: " + r[1])
                    if name == "aws_priority_queue_push_ref" and nd.get("callee") in ("memset", "__builtin_memset", "__builtin___memset_chk") and r[0] == "ok" and len(r) > 3:
                        # the zero fill of a fresh handle array covers the slots of every element already queued: (index+1) pointers
                        idx = s2.env.get("v:index")
                        from sa.num import entails as _ent, Poly as _P
                        okc = idx is not None and _ent(s2, r[3]) and _ent(s2, (idx + 1) * 8 - sz)
                        R.check(okc, "COVER", "push_ref:zero-fill-covers-existing-slots", where(f, nd), "the zero fill starts at the array and covers at least (index+1) pointer slots (size %r)" % sz,
                                "the zero fill of the new handle array covers %r bytes from offset %r, fewer than the (index+1) slots in use: slots of elements queued before the first handle keep allocator garbage that s_swap later dereferences" % (sz, r[3]))
        R.require(n >= 1, "%s: no memory operation found" % name)


def decl_init_of(f, name):
    for e in f.all_events():
        if e.kind == "decl":
            for v in e.node["vars"]:
                if v["n"] == name and v.get("init") is not None:
                    return v["init"]
    return None


class _NoHandlesHooks:
    """entry state: the queue's handle array is all-zero - what aws_priority_queue_init_* leave until the first push with a
    handle (and what a queue used without handles keeps for life)"""

    def entry(self, num, st):
        f = num.fn
        seen = set()
        for b in f.blocks.values():
            for el in list(b.elems) + ([b.cond] if b.cond is not None else []):
                for n in f.walk(el, follow_refs=True):
                    if n["k"] == "member" and n.get("rec") == "aws_array_list" and f.show(n).endswith("queue->backpointers." + n["f"]) and n["f"] not in seen:
                        k = num.key(n, st)
                        if k:
                            seen.add(n["f"])
                            p = num.field(st, k, "aws_array_list", n["f"])
                            st.add(p)
                            st.add(-p)
        self.seen = seen

    def call(self, num, st, e, args):
        if e.get("callee") == "aws_is_mem_zeroed" and "queue->backpointers" in num.fn.show(num.fn.d(e["a"][0])):
            return Poly.const(1)  # by the entry assumption; the predicate is read-only
        return NotImplemented


def valid_without_handles(R, P):
    """VALID: the validity predicate accepts a queue whose handle array was never allocated.  It is not only an assertion:
    aws_task_scheduler_clean_up cancels the pending tasks only when the scheduler's queue `is valid`."""
    from sa.num import Num, Limit, entails
    f = P.fn("aws_priority_queue_backpointers_valid")
    if not R.require(f is not None, "aws_priority_queue_backpointers_valid not found"):
        return
    R.fn(f)
    hk = _NoHandlesHooks()
    num = Num(f, P, hk, max_paths=20000)
    rets = [x for b in f.blocks.values() for x in b.elems if x["k"] == "ret"]
    try:
        sts = num.states_at({r["id"] for r in rets})
    except Limit as ex:
        R.broken(str(ex))
        return
    n, bad = 0, None
    for r in rets:
        for st in sts.get(r["id"], []):
            q = st.env.get("v:queue")
            if q is not None and entails(st, q) and entails(st, -q):
                continue  # the NULL-queue answer
            n += 1
            rv = num.val(r["a"][0], st)
            if rv is None or num.assume_nodeval(rv, False, st.copy()):
                bad = "line %d can return false" % r["loc"][0]
    R.require(n >= 1 and len(getattr(hk, "seen", ())) >= 3, "validity predicate: no return state / handle-array fields not found (%d states, fields %s)" % (n, sorted(getattr(hk, "seen", ()))))
    R.check(bad is None, "VALID", "handle-array-absent-is-valid", "%s()" % f.name, "a queue whose handle array is all-zero is reported valid on every path (%d return states)" % n,
            "a queue that never got a handle is reported invalid (%s): aws_task_scheduler_clean_up tests the scheduler's validity before it cancels the pending tasks, so a scheduler that only ever saw run-now tasks drops them without invoking them" % bad)


def set_at_length(R, P):
    """LOCKSTEP/set_at: the handle array is created lazily by the first aws_array_list_set_at(&backpointers, .., index) with
    index = (element count - 1), possibly far beyond its length 0.  NUM, every successful return of aws_array_list_set_at:
    the list's length is index + 1 when index was at or beyond the old length, and unchanged otherwise - so that the handle
    array is as long as the element array afterwards (the clear loop and remove's `last handle` read rely on it)."""
    f = P.fn("aws_array_list_set_at")
    if not R.require(f is not None and len(f.params) == 3, "aws_array_list_set_at not found"):
        return
    from sa.awslib import AwsHooks
    num = Num(f, P, AwsHooks(), max_paths=4000)
    rets = [x for b in f.blocks.values() for x in b.elems if x["k"] == "ret"]
    try:
        sts = num.states_at({r["id"] for r in rets})
    except Limit as ex:
        R.broken(str(ex))
        return
    ok, det, n = True, "", 0
    for r in rets:
        for st in sts.get(r["id"], []):
            rv = num.val(r["a"][0], st) if r.get("a") else None
            if rv is None or not rv.is_const() or rv.cval() != 0:
                continue
            n += 1
            idx = st.env.get("v:" + f.params[2]["n"])
            lens = [(k, v) for k, v in st.env.items() if (st.meta.get(k) or (None, None))[:2] == ("aws_array_list", "length")]
            if idx is None or len(lens) != 1:
                ok, det = False, "length / index not tracked"
                continue
            k, L1 = lens[0]
            a0 = (st.notes.get("orig") or {}).get(k)
            L0 = Poly.atom(a0) if a0 else None
            grown = entails(st, L1 - idx - 1) and entails(st, idx + 1 - L1)
            same = L0 is not None and entails(st, L1 - L0) and entails(st, L0 - L1) and entails(st, idx + 1 - L0)
            if not (grown or same):
                ok, det = False, "length becomes %r for index %r (old length %r)" % (L1, idx, L0)
    R.check(ok and n >= 1, "LOCKSTEP", "set_at:length-covers-the-index", "%s()" % f.name, "after a successful set_at the length is index + 1 or unchanged (%d states)" % n,
            "aws_array_list_set_at leaves the list shorter than index + 1 (%s): the lazily created handle array stays shorter than the element array, so remove / clear do not reach the handle they must invalidate" % det)


def static_queue_takes_handles(R, P):
    """STATIC/handles: `a fixed-capacity queue ... is otherwise identical`: a push with a handle is refused only for lack of
    room.  Any failure raised in aws_priority_queue_push_ref under a test of the container's allocator (no allocator = a
    queue set up with aws_priority_queue_init_static) refuses handles on such queues whatever room is left."""
    f = P.fn("aws_priority_queue_push_ref")
    if f is None:
        return
    dom = dominators(f)
    hits = []
    for e in f.calls("aws_raise_error"):
        for c_, p_, b_ in RU.guards(f, e, dom):
            g = RU.cmp_norm(f, c_, p_)
            if g and g[1] == "==" and (g[2] is None or f.is_const(RU.uncast(f, g[2])) == 0):
                l_ = RU.uncast(f, g[0])
                if l_ is not None and l_["k"] == "member" and l_["f"] == "alloc" and "container" in f.show(l_):
                    hits.append(e)
    R.check(not hits, "STATIC", "static-queue-takes-handles", where(f, hits[0]) if hits else "%s()" % f.name, "a push with a handle is not refused because the queue has no allocator",
            "aws_priority_queue_push_ref raises %s when the queue has no allocator: a queue set up with aws_priority_queue_init_static refuses every push that carries a handle, however much room it has" % (f.show(RU.arg(f, hits[0].node, 0)) if hits else ""))


def queue_rules(R, P):
    valid_without_handles(R, P)
    set_at_length(R, P)
    fns = {f.name: f for f in P.functions_in("source/priority_queue.c")}
    need = ["s_swap", "s_sift_down", "s_sift_up", "s_sift_either", "aws_priority_queue_push_ref", "s_remove_node", "aws_priority_queue_remove", "aws_priority_queue_pop",
            "aws_priority_queue_top", "aws_priority_queue_clear", "aws_priority_queue_node_init", "aws_priority_queue_node_is_in_queue"]
    for n in need:
        if not R.require(n in fns, "anchor function %s not found in priority_queue.c" % n):
            return
    for f in fns.values():
        R.fn(f)

    # ---------------------------------------------------------------- who may reorder / resize the two arrays
    allowed = {
        "aws_array_list_swap": {"container": {"s_swap"}, "backpointers": {"s_swap"}},  # s_swap: its own rules require the same two indices for both
        "aws_array_list_push_back": {"container": {"aws_priority_queue_push_ref"}},
        "aws_array_list_pop_back": {"container": {"s_remove_node", "aws_priority_queue_push_ref"}, "backpointers": {"s_remove_node"}},
        "aws_array_list_clear": {"container": {"aws_priority_queue_clear"}, "backpointers": {"aws_priority_queue_clear"}},
        "aws_array_list_set_at": {"backpointers": {"aws_priority_queue_push_ref"}, "container": set()},
        "aws_array_list_erase": {"container": set(), "backpointers": set()}, "aws_array_list_pop_front": {"container": set(), "backpointers": set()},
        "aws_array_list_push_front": {"container": set(), "backpointers": set()}, "aws_array_list_sort": {"container": set(), "backpointers": set()},
    }
    n = 0
    for name, f in fns.items():
        for e in f.calls(set(allowed)):
            a0 = RU.strip_addr(f, RU.arg(f, e.node, 0))
            if a0 is None or a0["k"] != "member" or a0.get("rec") != "aws_priority_queue":
                continue
            n += 1
            ok = name in allowed[e.node["callee"]].get(a0["f"], set())
            R.check(ok, "LOCKSTEP", "who:%s(%s)@%s" % (e.node["callee"], a0["f"], name), where(f, e), "array mutation in its designated function",
                    "%s on queue->%s in %s: elements and handles can get out of step" % (e.node["callee"], a0["f"], name))
    R.require(n >= 7, "only %d array mutations found in priority_queue.c" % n)

    # ---------------------------------------------------------------- s_swap
    f = fns["s_swap"]
    dom = dominators(f)
    sw = [e for e in f.calls("aws_array_list_swap") if (RU.strip_addr(f, RU.arg(f, e.node, 0)) or {}).get("f") != "backpointers"]
    R.check(len(sw) == 1 and [argstr(f, sw[0].node, i, addr=False) for i in (1, 2)] == ["a", "b"], "LOCKSTEP", "swap:elements", where(f, sw[0]) if sw else "s_swap", "elements a and b exchanged")
    slots = {}
    for e in f.all_events():
        if e.kind == "decl":
            for v in e.node["vars"]:
                init = f.d(v.get("init")) if v.get("init") else None
                if init is not None and init["k"] == "un" and init["op"] == "addr":
                    x = f.d(init["a"][0])
                    if x["k"] == "index" and "backpointers.data" in f.show(x["a"][0]):
                        slots[f.canon(v["n"])] = f.show(x["a"][1])
    stores = [e for e in f.field_accesses(rec="aws_priority_queue_node", field="current_index", modes=("w",))]
    # the handle exchange: written out through the two slot pointers (*bp_a = *bp_b; *bp_b = tmp), or one
    # aws_array_list_swap(&queue->backpointers, a, b) with the indices of the element exchange
    slotw = [e for e in f.all_events() if e.kind == "access" and e.node["k"] == "un" and e.node["op"] == "deref" and e.mode == "w" and f.show(e.node["a"][0]) in slots]
    bsw = [e for e in f.calls("aws_array_list_swap") if (RU.strip_addr(f, RU.arg(f, e.node, 0)) or {}).get("f") == "backpointers"]
    sw = [e for e in sw if e not in bsw]
    by_call = bool(bsw) and not slotw
    # ... or both slots read into locals first and then stored crosswise through subscripts (slots[a] = was_in_b; ...)
    idxw = [e for e in f.all_events() if e.kind == "access" and e.node["k"] == "index" and e.mode == "w" and "backpointers.data" in f.show(e.node["a"][0], alias=True)]
    by_value = bool(idxw) and not slotw and not bsw
    exchange = bsw if by_call else (idxw if by_value else slotw)
    placed = {}   # local -> (slot it is stored into, slot it was read from, its declaration)
    if by_value:
        for w in idxw:
            a_ = _assignment_of(f, w)
            v_ = RU.uncast(f, a_["a"][1]) if a_ is not None else None
            if v_ is not None and v_["k"] == "var" and v_.get("sc") == "local":
                decls = [(e, v) for e in f.all_events() if e.kind == "decl" for v in e.node["vars"] if v["n"] == v_["n"] and v.get("init") is not None]
                src = None
                if len(decls) == 1:
                    i_ = RU.uncast(f, decls[0][1]["init"])
                    if i_ is not None and i_["k"] == "index" and "backpointers.data" in f.show(i_["a"][0], alias=True):
                        src = f.show(i_["a"][1])
                placed[v_["n"]] = (f.show(w.node["a"][1]), src, decls[0][0] if len(decls) == 1 else None)

    def bp_index(x):
        x = RU.uncast(f, x)
        if x is not None and x["k"] == "index" and "backpointers.data" in f.show(x["a"][0], alias=True):
            return f.show(x["a"][1])
        return None

    def slot_of(s):
        """(slot index, the expression naming the handle, event that reads the slot) for an index store"""
        base = RU.uncast(f, s.node["a"][0])
        if base is None:
            return None, None, None
        if base["k"] == "un" and base["op"] == "deref" and f.show(base["a"][0]) in slots:
            return slots[f.show(base["a"][0])], f.show(base), s  # read in place, through the slot pointer
        if base["k"] == "var" and base.get("sc") == "local" and base["n"] in placed:
            return placed[base["n"]][0], base["n"], s  # the slot this very node was stored into
        if base["k"] == "var" and base.get("sc") == "local":
            decls = [(e, v) for e in f.all_events() if e.kind == "decl" for v in e.node["vars"] if v["n"] == base["n"] and v.get("init") is not None]
            if len(decls) == 1 and bp_index(decls[0][1]["init"]) is not None:
                return bp_index(decls[0][1]["init"]), base["n"], decls[0][0]
        if bp_index(base) is not None:
            return bp_index(base), f.show(base), s
        return None, None, None
    seen, names = {}, {}
    fresh_reads = True
    for s_ in stores:
        a_ = _assignment_of(f, s_)
        idx, nm, rd = slot_of(s_)
        if idx is not None and a_ is not None:
            seen[idx] = f.show(a_["a"][1])
            names[idx] = nm
            fresh_reads = fresh_reads and all(ev_dominates(f, x, rd, dom) for x in exchange)
    if by_value:
        R.check(len(sw) == 1 and sorted(p_[0] for p_ in placed.values()) == ["a", "b"], "LOCKSTEP", "swap:slot-pointers", "s_swap()", "the slots stored to are backpointers[a] and backpointers[b]",
                "the handle slots stored to are %s, expected indices a and b" % sorted(p_[0] for p_ in placed.values()))
    elif not by_call:
        R.check(len(sw) == 1 and sorted(slots.values()) == ["a", "b"], "LOCKSTEP", "swap:slot-pointers", "s_swap()", "slot pointers address backpointers[a] and backpointers[b] (%s)" % slots,
                "the handle slots addressed are %s, expected indices a and b" % slots)
    else:
        ia = sorted(argstr(f, bsw[0].node, i, addr=False) for i in (1, 2))
        R.check(len(bsw) == 1 and ia == ["a", "b"], "LOCKSTEP", "swap:slot-pointers", "s_swap()", "aws_array_list_swap exchanges backpointers[a] and backpointers[b]",
                "the handle slots exchanged are %s, expected indices a and b" % ia)
    okst = len(seen) == 2 and sorted(seen) == ["a", "b"] and all(k == v for k, v in seen.items())
    R.check(okst and fresh_reads, "LOCKSTEP", "swap:handles-get-their-new-slot", "s_swap()", "the node now in slot a gets index a, the node in slot b gets index b (%s)" % seen,
            "after the exchange a handle is given the wrong index (%s; slots %s; read after the exchange: %s): remove-by-handle would remove another element" % (seen, slots, fresh_reads))
    # the exchange precedes the index stores
    R.check(len(exchange) == (1 if by_call else 2) and all(ev_dominates(f, w, s_, dom) for w in exchange for s_ in stores), "LOCKSTEP", "swap:exchange-before-reindex", "s_swap()", "handle slots exchanged before the indices are rewritten",
            "the handle slots are not both exchanged before the indices are rewritten")
    if by_value:
        crossed = len(placed) == 2 and all(src is not None and src != dst and d_ is not None and all(ev_dominates(f, d_, w, dom) for w in idxw) for dst, src, d_ in placed.values()) and {p_[0] for p_ in placed.values()} == {p_[1] for p_ in placed.values()}
        R.check(crossed, "LOCKSTEP", "swap:slots-really-exchanged", "s_swap()", "each slot receives what was read from the other slot before either was written (%s)" % {k: (v[1], "->", v[0]) for k, v in placed.items()})
    elif not by_call:
        xs = {f.show(w.node["a"][0]): f.show(_assignment_of(f, w)["a"][1]) for w in slotw if _assignment_of(f, w)}
        tmpv = [v for v in xs.values() if not v.startswith("*")]
        R.check(len(xs) == 2 and any(v.startswith("*") and v[1:] in slots and v[1:] != k for k, v in xs.items()) and len(tmpv) == 1, "LOCKSTEP", "swap:slots-really-exchanged", "s_swap()", "slot contents exchanged through a temporary (%s)" % xs)
    else:
        R.check(len(bsw) == 1, "LOCKSTEP", "swap:slots-really-exchanged", "s_swap()", "slot contents exchanged by aws_array_list_swap")
    # each index store depends only on `handle array present` and on its own slot holding a handle
    for s_ in stores:
        idx, own, rd = slot_of(s_)
        others = [nm for k, nm in names.items() if k != idx and nm]
        foreign = [f.show(f.d(c_)) for c_, p_, b_ in RU.guards(f, s_, dom) if any(__import__("re").search(r"(?<![A-Za-z0-9_])" + __import__("re").escape(o) + r"(?![A-Za-z0-9_])", f.show(f.d(c_))) for o in others)]
        R.check(idx is not None and not foreign, "LOCKSTEP", "swap:reindex-%s-unconditional" % (("*" + [k for k, v in slots.items() if v == idx][0]) if not by_call and idx in slots.values() else idx), where(f, s_), "the index of the handle in slot %s is rewritten whenever that slot holds a handle" % idx,
                "the index store for slot %s is skipped depending on the other slot (%s): when both elements carry handles one of them keeps its old index" % (idx, foreign))
    R.check(len(sw) == 1 and all(ev_dominates(f, sw[0], s_, dom) for s_ in stores), "LOCKSTEP", "swap:elements-and-handles-together", "s_swap()", "element exchange and handle exchange happen in the same call")
    slotw = exchange

    # ---------------------------------------------------------------- the three maintenance sites agree on `handle array present`
    def presence(fname, evs):
        g_ = fns[fname]
        d_ = dominators(g_)
        out = set()
        for e in evs:
            gs = [(g_.show(g_.d(c_)).replace(" ", ""), bool(p_)) for c_, p_, b_ in RU.guards(g_, e, d_) if "backpointers" in g_.show(g_.d(c_))]
            out.add(tuple(gs[-1:]) if gs else ())
        return out
    fs, fp, fr = fns["s_swap"], fns["aws_priority_queue_push_ref"], fns["s_remove_node"]
    sites = {
        "s_swap:slot-exchange": presence("s_swap", slotw),
        "push_ref:set_at": presence("aws_priority_queue_push_ref", [e for e in fp.calls("aws_array_list_set_at") if argstr(fp, e.node, 0) == "queue->backpointers"]),
        "remove:pop_back": presence("s_remove_node", [e for e in fr.calls("aws_array_list_pop_back") if argstr(fr, e.node, 0) == "queue->backpointers"]),
    }
    ref = sites["s_swap:slot-exchange"]
    R.check(len(ref) == 1 and all(v == ref for v in sites.values()) and () not in ref, "LOCKSTEP", "handle-array-present:sites-agree", "s_swap() / aws_priority_queue_push_ref() / s_remove_node()",
            "slot exchange, slot registration on push and slot removal are all controlled by the same `handle array present` test (%s): the handle array keeps the container's length" % sorted(ref),
            "the sites that maintain the handle array do not use the same `present` test (%s): the handle array's length can fall behind the container's, and a later registration exposes stale slots" % {k: sorted(v) for k, v in sites.items()})

    # ---------------------------------------------------------------- push_ref
    f = fns["aws_priority_queue_push_ref"]
    dom = dominators(f)
    push = [e for e in f.calls("aws_array_list_push_back") if argstr(f, e.node, 0) == "queue->container"]
    pops = [e for e in f.calls("aws_array_list_pop_back") if argstr(f, e.node, 0) == "queue->container"]
    sift = f.calls("s_sift_up")
    setat = [e for e in f.calls("aws_array_list_set_at") if argstr(f, e.node, 0) == "queue->backpointers"]
    st = [e for e in f.field_accesses(rec="aws_priority_queue_node", field="current_index", modes=("w",))]
    R.require(len(push) == 1 and len(sift) == 1 and len(setat) == 1 and len(st) == 1, "push_ref: expected one push_back, set_at, current_index store and sift_up")
    if push and sift and setat and st:
        a_ = _assignment_of(f, st[0])
        R.check(a_ is not None and f.show(a_["a"][1]) == "index" and f.show(st[0].node["a"][0]) == "backpointer", "LOCKSTEP", "push:handle-gets-slot", where(f, st[0]), "backpointer->current_index = index (the appended slot)")
        R.check(ev_dominates(f, st[0], sift[0], dom) or (sift[0] in RU.reach_from(f, st[0]) and st[0] not in RU.reach_from(f, sift[0])), "LOCKSTEP", "push:handle-set-before-sift", where(f, st[0]),
                "the handle's index is set before sifting (s_swap then keeps it current)",
                "the handle's index is written after sift-up: the sift's updates are overwritten with the stale tail index and remove-by-handle removes another element")
        R.check(argstr(f, setat[0].node, 2, addr=False) == "index" and argstr(f, setat[0].node, 1) == "backpointer" and sift[0] in RU.reach_from(f, setat[0]) and setat[0] not in RU.reach_from(f, sift[0]), "LOCKSTEP", "push:slot-registered-before-sift", where(f, setat[0]),
                "backpointers[index] = backpointer before sifting")
        idx = [e for e in f.all_events() if e.kind == "decl" and any(v["n"] == "index" for v in e.node["vars"])]
        R.check(len(idx) == 1 and "aws_array_list_length(&queue->container) - 1" in f.show(idx[0].node).replace("(", "(").replace("queue->container)", "queue->container)") or
                (len(idx) == 1 and "- 1" in f.show(idx[0].node) and "aws_array_list_length" in f.show(idx[0].node)), "LOCKSTEP", "push:index-is-last-slot", where(f, idx[0]) if idx else "push_ref", "index = length - 1 after the append")
        R.check("aws_array_list_length" in f.show(RU.arg(f, sift[0].node, 1)) or f.show(RU.arg(f, sift[0].node, 1)) == "index", "LOCKSTEP", "push:sifts-the-new-element", where(f, sift[0]), "sift-up starts at the appended slot")
        # ROLLBACK typestate
        errv = None
        for e in f.all_events():
            if e.kind == "decl":
                for v in e.node["vars"]:
                    if v.get("init") is not None and f.d(v["init"]) is push[0].node:
                        errv = v["n"]

        def tr(e, s):
            if e is push[0]:
                return "pushed?"
            if any(e is p for p in pops):
                return "rolled" if s == "pushed" else "BAD-pop-in-" + s
            if e is sift[0]:
                return "sifted" if s == "pushed" else "BAD-sift-in-" + s
            return s

        def edge(cond, pol, s, fn, b):
            if s != "pushed?":
                return s
            g = RU.cmp_norm(fn, cond, pol)
            if g and g[2] is None:
                x = RU.uncast(fn, g[0])
                if (x["k"] == "var" and x["n"] == errv) or (x["k"] == "call" and x is push[0].node):
                    return "none" if g[1] == "!=" else "pushed"
            return s

        ts = Typestate(f, "init", tr, edge, correlate=True)
        bad = {s for s in ts.exit_states if s not in ("none", "rolled", "sifted")}
        R.check(not bad, "ROLLBACK", "push:appended-element-sifted-or-removed", "%s()" % f.name, "every exit: push refused / element rolled back / element sifted into place",
                "an exit is reached in state %s: the element stays appended although the push reported failure (or is never sifted)" % sorted(bad))
        # failure value on the rollback path
        for r in f.returns():
            v = RU.origin(f, r.node["a"][0])  # (through the result variable of an expanded back-out helper)
            if any(ev_dominates(f, p, r, dom) for p in pops):
                R.check(f.is_const(v) == -1, "ROLLBACK", "push:rollback-returns-error", where(f, r), "rollback path returns AWS_OP_ERR")
        # lazily created handle array: zeroed before use
        ini = [e for e in f.calls("aws_array_list_init_dynamic") if argstr(f, e.node, 0) == "queue->backpointers"]
        ms = f.calls("memset")
        R.check(len(ini) == 1 and len(ms) == 1 and ev_dominates(f, ini[0], ms[0], dom) and ev_dominates(f, ms[0], setat[0], dom) is not None and f.is_const(RU.arg(f, ms[0].node, 1)) == 0,
                "LOCKSTEP", "push:new-handle-array-zeroed", where(f, ms[0]) if ms else "push_ref", "a freshly created handle array is zero-filled (elements without handles read as NULL)",
                "the lazily created handle array is not zero-filled: existing elements would get garbage handles")

    # ---------------------------------------------------------------- s_remove_node
    f = fns["s_remove_node"]
    dom = dominators(f)
    swp = f.calls("s_swap")
    popc = [e for e in f.calls("aws_array_list_pop_back") if argstr(f, e.node, 0) == "queue->container"]
    popb = [e for e in f.calls("aws_array_list_pop_back") if argstr(f, e.node, 0) == "queue->backpointers"]
    getb = [e for e in f.calls("aws_array_list_get_at") if argstr(f, e.node, 0) == "queue->backpointers"]
    # (aws_array_list_back reads the last slot by definition; read before the handle array is popped - ordered below - that
    # is the slot the removed element was moved to, the handle array being as long as the container was: LOCKSTEP)
    getb += [e for e in f.calls("aws_array_list_back") if argstr(f, e.node, 0) == "queue->backpointers"]
    geti = [e for e in f.calls("aws_array_list_get_at") if argstr(f, e.node, 0) == "queue->container"]
    inval = [e for e in f.field_accesses(rec="aws_priority_queue_node", field="current_index", modes=("w",))]
    sift = f.calls("s_sift_either")
    # (each step may occur once per arm when the `already last` case and the general case are written as two branches)
    R.require(len(swp) >= 1 and len(popc) >= 1 and len(popb) >= 1 and len(getb) >= 1 and len(inval) >= 1 and len(sift) >= 1 and len(geti) == 1 and len(popc) == len(popb) == len(getb) == len(inval) and len(swp) == len(sift), "s_remove_node: step missing")
    if swp and popc and popb and getb and inval and sift and geti:
        # roles, not spellings: the removed slot is the index parameter; `last` is whatever the exchange's other operand is,
        # and it must be length(container) - 1 (seen through temporaries)
        idx = f.params[2]["n"]
        A1, A2 = (RU.uncast(f, RU.arg(f, swp[0].node, i)) for i in (1, 2))
        lastn = A2 if f.show(A1) == idx else A1
        R.check(f.show(A1) == idx or f.show(A2) == idx, "INVALIDATE", "remove:swap-to-last", where(f, swp[0]), "removed element swapped with the last slot")

        def is_last(n):
            n = RU.uncast(f, n)
            for _ in range(4):
                if n is not None and n["k"] == "var" and n.get("sc") == "local":
                    init = decl_init_of(f, n["n"])
                    if init is None:
                        return False
                    n = RU.uncast(f, init)
                else:
                    break
            if n is None or n["k"] != "bin" or n["op"] != "-" or f.is_const(n["a"][1]) != 1:
                return False
            l = RU.uncast(f, n["a"][0])
            return l is not None and ((l["k"] == "call" and l.get("callee") == "aws_array_list_length" and argstr(f, l, 0) == "queue->container") or f.show(l) == "queue->container.length")
        R.check(is_last(lastn), "INVALIDATE", "remove:swap_with-is-last", where(f, swp[0]), "the other slot of the exchange is length - 1", "the removed element is exchanged with slot %s, which is not length(container) - 1" % f.show(lastn))
        R.check(argstr(f, geti[0].node, 2, addr=False) == idx and ev_dominates(f, geti[0], swp[0], dom) is not None and geti[0] not in RU.reach_from(f, swp[0]), "INVALIDATE", "remove:copy-out-before-swap", where(f, geti[0]),
                "the removed element is copied out before it is moved")
        # the steps that depend on each other (the element pop and the handle steps touch different arrays and may be in either order)
        order = [("swap", swp, "pop-element", popc), ("swap", swp, "read-last-handle", getb), ("read-last-handle", getb, "mark-not-in-queue", inval), ("mark-not-in-queue", inval, "pop-handle", popb),
                 ("pop-element", popc, "re-sift", sift), ("pop-handle", popb, "re-sift", sift)]
        for an, A, bn, B in order:
            okc, linked = True, 0
            for b_ in B:
                before = [a_ for a_ in A if b_ in RU.reach_from(f, a_)]
                after = [a_ for a_ in A if a_ in RU.reach_from(f, b_)]
                linked += bool(before)
                # an arm that removes the last slot has no exchange and no re-sift; every other step needs its predecessor
                okc = okc and not after and (bool(before) or an == "swap")
            if bn == "re-sift":
                okc = okc and all(any(b_ in RU.reach_from(f, a_) for a_ in A) for b_ in B)
            okc = okc and linked >= 1
            R.check(okc, "INVALIDATE", "remove:%s<%s" % (an, bn), where(f, B[0]), "%s precedes %s" % (an, bn), "%s can happen before %s: the handle invalidated is not the departing element's / the heap is re-ordered with the departing element still in it" % (bn, an))
        R.check(all(g_.node["callee"] == "aws_array_list_back" or is_last(RU.arg(f, g_.node, 2)) for g_ in getb), "INVALIDATE", "remove:reads-handle-of-last-slot", where(f, getb[0]), "the handle read is the one of the (former) last slot, where the removed element now is",
                "the handle invalidated is read from slot %s, not from the last slot" % [argstr(f, g_.node, 2, addr=False) for g_ in getb])
        okm = True
        for iv in inval:
            a_ = _assignment_of(f, iv)
            okm = okm and a_ is not None and f.is_const(a_["a"][1]) == SIZE_MAX and any(f.show(iv.node["a"][0]) == argstr(f, g_.node, 1) and iv in RU.reach_from(f, g_) for g_ in getb)
        R.check(okm, "INVALIDATE", "remove:marks-SIZE_MAX", where(f, inval[0]), "departing handle marked SIZE_MAX")

        def differs(ev):
            """ev is reached only when the removed slot is not the last one"""
            for c_, p_, b_ in RU.guards(f, ev, dom):
                g_ = RU.cmp_norm(f, c_, p_)
                if g_ and g_[1] == "!=" and g_[2] is not None:
                    l_, r_ = RU.uncast(f, g_[0]), RU.uncast(f, g_[2])
                    if (f.show(l_) == idx and is_last(r_)) or (f.show(r_) == idx and is_last(l_)):
                        return True
            return False
        R.check(all(differs(s_) and argstr(f, s_.node, 1, addr=False) == idx for s_ in sift), "HEAP-SHAPE", "remove:re-sift-moved-element", where(f, sift[0]), "the element moved into the hole is re-sifted")
        R.check(all(differs(s_) for s_ in swp), "INVALIDATE", "remove:no-self-swap", where(f, swp[0]), "swap skipped when the element already is last")

    # clear / node_init / is_in_queue
    f = fns["aws_priority_queue_clear"]
    dom = dominators(f)
    inval = [e for e in f.field_accesses(rec="aws_priority_queue_node", field="current_index", modes=("w",))]
    clr = f.calls("aws_array_list_clear")
    okc = len(inval) == 1 and len(clr) == 2 and all(c in RU.reach_from(f, inval[0]) for c in clr) and f.is_const(_assignment_of(f, inval[0])["a"][1]) == SIZE_MAX
    def _len_of_handles(n_):
        o_ = RU.origin(f, n_)
        return o_ is not None and ((o_["k"] == "call" and o_.get("callee") == "aws_array_list_length" and argstr(f, o_, 0) == "queue->backpointers") or f.show(o_) == "queue->backpointers.length")
    okl = False
    from sa.num import Num as _Num
    for h_, body_ in _Num(f, P, None).loops().items():
        cv = RU.loop_cover(f, h_, body_)
        # the loop presents every slot index 0 <= i < length of the handle array (counting up or down) and the store is inside
        if cv and cv[2] in ("up", "down") and _len_of_handles(cv[1]) and inval and inval[0].blk in body_:
            reads = [e for e in f.calls(("aws_array_list_get_at", "aws_array_list_get_at_ptr")) if e.blk in body_ and argstr(f, e.node, 0) == "queue->backpointers"]
            okl = any(f.show(RU.uncast(f, RU.arg(f, e.node, 2))) == cv[0] for e in reads)
    R.check(okc and okl, "INVALIDATE", "clear:marks-every-handle", "%s()" % f.name, "every registered handle is marked not-in-queue before both arrays are cleared",
            "clear does not mark every handle not-in-queue before clearing")
    # ... and both arrays are emptied on EVERY path: an early return (for a queue that never had a handle, say) leaves the
    # elements in place - size and contents unchanged, a full static queue keeps refusing pushes
    for which in ("container", "backpointers"):
        cs_ = [c for c in clr if argstr(f, c.node, 0) == "queue->" + which]
        tsx_ = Typestate(f, 0, lambda e, s_, cs_=cs_: 1 if any(e is c for c in cs_) else s_)
        R.check(bool(cs_) and tsx_.exit_states == {1}, "INVALIDATE", "clear:empties-%s-on-every-path" % which, "%s()" % f.name, "aws_array_list_clear(&queue->%s) on every path" % which,
                "aws_priority_queue_clear can return without clearing queue->%s (exit states %s): the queue keeps its elements" % (which, sorted(tsx_.exit_states)))
    f = fns["aws_priority_queue_node_init"]
    st = f.field_accesses(field="current_index", modes=("w",))
    R.check(len(st) == 1 and f.is_const(_assignment_of(f, st[0])["a"][1]) == SIZE_MAX, "INVALIDATE", "node-init:not-in-queue", "%s()" % f.name, "a fresh handle is not-in-queue")
    f = fns["aws_priority_queue_node_is_in_queue"]
    okq = False
    for r in f.returns():
        v = RU.uncast(f, r.node["a"][0])
        if v["k"] == "bin" and v["op"] == "!=" and f.is_const(RU.uncast(f, v["a"][1])) == SIZE_MAX and "current_index" in f.show(v["a"][0]):
            okq = True
    R.check(okq, "INVALIDATE", "is-in-queue:test", "%s()" % f.name, "in-queue test is current_index != SIZE_MAX")

    # ---------------------------------------------------------------- GUARD
    f = fns["aws_priority_queue_remove"]
    dom = dominators(f)
    rm = f.calls("s_remove_node")
    R.require(len(rm) == 1, "remove: s_remove_node call not found")
    if rm:
        gs = []
        for c, p, b in RU.guards(f, rm[0], dom):
            g = RU.cmp_norm(f, c, p)
            if g:
                gs.append((f.show(RU.resolve(f, g[0])), g[1], f.show(RU.uncast(f, g[2])) if g[2] is not None else None))
        oki = any(l == "node->current_index" and op == "<" and r and "aws_array_list_length(&queue->container)" in r for l, op, r in gs)
        okd = any(l == "queue->backpointers.data" and op == "!=" for l, op, r in gs)
        R.check(oki, "GUARD", "remove:index-below-length", where(f, rm[0]), "handle index < current length (stale handles hold SIZE_MAX and are refused)",
                "remove-by-handle is not guarded by current_index < length (guards %s): a stale handle removes another element" % gs)
        R.check(okd, "GUARD", "remove:handle-array-present", where(f, rm[0]), "handle array must exist")
        R.check(argstr(f, rm[0].node, 2, addr=False) == "node->current_index", "GUARD", "remove:uses-handle-index", where(f, rm[0]), "removes the slot named by the handle")
    for name in ("aws_priority_queue_pop", "aws_priority_queue_top"):
        f = fns[name]
        tgt = f.calls("s_remove_node") + f.calls("aws_array_list_get_at_ptr")
        R.require(len(tgt) == 1, "%s: expected one access" % name)
        if tgt:
            gs = []
            for c, p, b in RU.guards(f, tgt[0], dominators(f)):
                g = RU.cmp_norm(f, c, p)
                if g:
                    gs.append((f.show(RU.uncast(f, g[0])), g[1], f.show(RU.uncast(f, g[2])) if g[2] is not None else None))
            ok = any("aws_array_list_length(&queue->container)" in l and ((op == "!=" and r in (None, "0")) or (op == ">" and r == "0")) for l, op, r in gs)
            R.check(ok, "GUARD", "%s:non-empty" % name, where(f, tgt[0]), "guarded by length != 0", "%s is not guarded by a non-empty test (%s)" % (name, gs))
            R.check(f.is_const(RU.arg(f, tgt[0].node, 2)) == 0, "GUARD", "%s:root" % name, where(f, tgt[0]), "operates on slot 0 (the heap root)")

    # ---------------------------------------------------------------- HEAP-SHAPE
    dn, up = fns["s_sift_down"], fns["s_sift_up"]
    heap_index_formulas(R, P, dn, up)
    for f, want in ((up, [("parent_item", "child_item")]), (dn, [("first_item", "other_item"), ("first_item", "other_item")])):
        preds = [e for e in f.indirect_calls() if RU.indirect_via(f, e.node) == ("aws_priority_queue", "pred")]
        import re as _re
        plain = lambda t_: _re.sub(r"[A-Za-z_][A-Za-z0-9_]*\$\d+\$", "", t_)  # locals of an expanded helper keep their own names
        R.check([(plain(f.show(RU.arg(f, e.node, 0))), plain(f.show(RU.arg(f, e.node, 1)))) for e in preds] == want, "HEAP-SHAPE", "%s:comparator-operands" % f.name, "%s()" % f.name, "comparator applied as pred(upper, lower)")
        for e in preds:
            ok = False
            for b in f.blocks.values():
                c = f.d(b.cond) if b.cond is not None else None
                g_ = RU.cmp_norm(f, b.cond, True) if b.cond is not None else None
                if g_ and g_[2] is not None and RU.uncast(f, g_[0]) is e.node and g_[1] in (">", "<=") and f.is_const(RU.uncast(f, g_[2])) == 0:
                    ok = True  # `pred > 0` or its exact negation `pred <= 0`: the same partition
            if f is up:
                ok = ok and any((lambda g_: g_ and g_[2] is not None and RU.uncast(f, g_[0]) is e.node and g_[1] == ">" and f.is_const(RU.uncast(f, g_[2])) == 0)(RU.cmp_norm(f, c_, p_))
                                for s_ in f.calls("s_swap") for c_, p_, b_ in RU.guards(f, s_))
            R.check(ok, "HEAP-SHAPE", "%s:swap-when-pred>0" % f.name, where(f, e), "elements are exchanged exactly when pred(upper, lower) > 0",
                    "the comparator result is not tested with `> 0` here: sift-up and sift-down would disagree on the order")
    e_ = fns["s_sift_either"]
    R.check(len(e_.calls("s_sift_up")) == 1 and len(e_.calls("s_sift_down")) == 1, "HEAP-SHAPE", "sift-either", "s_sift_either()", "tries sift-up, else sift-down")
    up_, dn_ = e_.calls("s_sift_up"), e_.calls("s_sift_down")
    if up_ and dn_:
        # the element put into the hole comes from the bottom of ANOTHER subtree: it may have to move up even when the hole
        # is a leaf.  Every path re-sifts: sift-up is attempted unless the slot is the root, sift-down runs unless sift-up moved it
        tse = Typestate(e_, frozenset(), lambda e, s: s | {"up"} if e is up_[0] else (s | {"down"} if e is dn_[0] else s))
        unsifted = [sorted(s) for s in tse.exit_states if not s]
        gu = [RU.cmp_norm(e_, c_, p_) for c_, p_, b_ in RU.guards(e_, up_[0])]
        gu_txt = [(e_.show(RU.uncast(e_, g_[0])), g_[1]) for g_ in gu if g_]
        ok_syn = not unsifted and all(t_ in (("index", "!="),) for t_ in gu_txt)
        if not ok_syn:
            # the same decided on values (a flag that remembers whether sift-up moved the element): every exit state has called
            # one of the two, and sift-up was left out only for index == 0
            from sa.awslib import AwsHooks as _AH
            from sa.num import Num as _N2, Poly as _P2, Limit as _L2

            class _H(_AH):
                def call(self, num, st, e, args):
                    c_ = e.get("callee") or ""
                    if c_ in ("s_sift_up", "s_sift_down"):
                        st.notes["sift"] = list(st.notes.get("sift", [])) + [c_]
                        return _P2.atom(num.fresh(st, c_, None, (0, 1)))
                    return _AH.call(self, num, st, e, args)
            try:
                n2 = _N2(e_, P, _H())
                ex = n2.states_at({-1}).get(-1, [])
                okn = bool(ex)
                for st in ex:
                    sf = st.notes.get("sift", [])
                    ix = st.env.get("v:" + e_.params[1]["n"])
                    okn = okn and bool(sf) and ("s_sift_up" in sf or (ix is not None and entails(st, ix) and entails(st, -ix)))
                if okn:
                    unsifted, gu_txt, ok_syn = [], [("index", "!=")], True
            except _L2:
                pass
        R.check(not unsifted and all(t_ in (("index", "!="),) for t_ in gu_txt), "HEAP-SHAPE", "sift-either:every-path-re-sifts", "s_sift_either()", "no path returns without sifting; sift-up is skipped only for the root (%s)" % gu_txt,
                "s_sift_either can return without re-ordering (or skips sift-up under %s): an element moved into a leaf slot from another subtree stays below a larger parent, so pop no longer returns the minimum" % gu_txt)
    sw = dn.calls("s_swap") + up.calls("s_swap")
    R.check(len(sw) == 2, "HEAP-SHAPE", "sifts-use-s_swap", "priority_queue.c", "sifting moves elements only through s_swap (handles follow)")


MUTANTS = [
    {"name": "zeroed-handle-array-invalid", "file": PQ, "expect": "VALID", "old": "    return ((backpointer_list_is_valid && backpointer_struct_is_valid) || AWS_IS_ZEROED(queue->backpointers));", "new": "    return backpointer_list_is_valid && backpointer_struct_is_valid;"},
    {"name": "sift-either-skips-leaves", "file": PQ, "expect": "HEAP-SHAPE", "old": "    if (!index || !s_sift_up(queue, index)) {\n        s_sift_down(queue, index);", "new": "    if (LEFT_OF(index) >= aws_array_list_length(&queue->container)) {\n        return;\n    }\n    if (!index || !s_sift_up(queue, index)) {\n        s_sift_down(queue, index);"},
    {"name": "handle-array-zero-fill-in-bytes-of-index", "file": PQ, "expect": "COVER", "old": "        memset(queue->backpointers.data, 0, queue->backpointers.current_size);", "new": "        memset(queue->backpointers.data, 0, index);"},
    {"name": "swap-second-reindex-else-if", "file": PQ, "expect": "LOCKSTEP", "old": "            (*bp_a)->current_index = a;\n        }\n\n        if (*bp_b) {", "new": "            (*bp_a)->current_index = a;\n        } else if (*bp_b) {"},
    {"name": "push-registers-only-while-in-use", "file": PQ, "expect": "LOCKSTEP", "old": "    if (!AWS_IS_ZEROED(queue->backpointers)) {\n        if (aws_array_list_set_at(", "new": "    if (backpointer || aws_array_list_length(&queue->backpointers) > 0) {\n        if (aws_array_list_set_at("},
    {"name": "mem-swap-skips-last-slice", "file": "source/array_list.c", "expect": "COVER",
     "old": "    for (size_t i = 0; i < slice_count; i++) {", "new": "    for (size_t i = 0; i + 1 < slice_count; i++) {"},
    {"name": "swap-writes-old-slot", "file": PQ, "expect": "LOCKSTEP", "old": "            (*bp_a)->current_index = a;", "new": "            (*bp_a)->current_index = b;"},
    {"name": "handle-index-after-sift", "file": PQ, "expect": "LOCKSTEP",
     "old": "    if (backpointer) {\n        backpointer->current_index = index;\n    }\n\n    s_sift_up(queue, aws_array_list_length(&queue->container) - 1);",
     "new": "    s_sift_up(queue, aws_array_list_length(&queue->container) - 1);\n\n    if (backpointer) {\n        backpointer->current_index = index;\n    }"},
    {"name": "invalidate-wrong-slot", "file": PQ, "expect": "INVALIDATE",
     "old": "aws_array_list_get_at(&queue->backpointers, &backpointer, swap_with);", "new": "aws_array_list_get_at(&queue->backpointers, &backpointer, item_index);"},
    {"name": "no-rollback-on-static-queue", "file": PQ, "expect": "ROLLBACK",
     "old": "            aws_raise_error(AWS_ERROR_UNSUPPORTED_OPERATION);\n            goto backpointer_update_failed;", "new": "            return aws_raise_error(AWS_ERROR_UNSUPPORTED_OPERATION);"},
    {"name": "stale-handle-guard-le", "file": PQ, "expect": "GUARD",
     "old": "node->current_index < aws_array_list_length(&queue->container), AWS_ERROR_PRIORITY_QUEUE_BAD_NODE", "new": "node->current_index <= aws_array_list_length(&queue->container), AWS_ERROR_PRIORITY_QUEUE_BAD_NODE"},
    {"name": "sift-down-polarity", "file": PQ, "expect": "HEAP-SHAPE",
     "old": "            if (queue->pred(first_item, other_item) > 0) {\n                first = right;", "new": "            if (queue->pred(first_item, other_item) >= 0) {\n                first = right;"},
    {"name": "clear-returns-early-without-handles", "file": PQ, "expect": "INVALIDATE", "old": "    size_t backpointer_count = aws_array_list_length(&queue->backpointers);\n    for (size_t i = 0; i < backpointer_count; ++i) {", "new": "    size_t backpointer_count = aws_array_list_length(&queue->backpointers);\n    if (backpointer_count == 0) {\n        return;\n    }\n    for (size_t i = 0; i < backpointer_count; ++i) {"},
    {"name": "clear-keeps-handles", "file": PQ, "expect": "INVALIDATE", "old": "            node->current_index = SIZE_MAX;\n        }\n    }\n\n    aws_array_list_clear", "new": "        }\n    }\n\n    aws_array_list_clear"},
]


class _Fix:
    """NUM hook: fixes a parameter to a given polynomial at entry"""

    def __init__(self, pname, mk):
        self.pname, self.mk = pname, mk
        self.pure = set()

    def entry(self, num, st):
        r = num.fresh(st, "r", None, (0, 2 ** 61))
        st.env["v:" + self.pname] = self.mk(Poly.atom(r))
        st.notes["r"] = r

    def call(self, num, st, e, args):
        return NotImplemented


def heap_index_formulas(R, P, dn, up):
    """the child and parent index computations are mutually inverse: left = 2i+1, right = 2i+2, parent(2r+1) = parent(2r+2) = r
    (decided symbolically by NUM over the macro-expanded expressions, for every r < 2^61)"""
    from sa.num import Num, Poly as _P, entails
    # children
    num = Num(dn, P, _Fix("root", lambda r: r))
    # the elements s_sift_down looks at while at slot r are those at r, 2r+1 and 2r+2: NUM value of the index argument of
    # every aws_array_list_get_at_ptr(&container, .., idx), with root fixed to a symbolic r (whatever the locals are called
    # and wherever the comparison code lives)
    reads = [e for e in dn.calls("aws_array_list_get_at_ptr") if (RU.strip_addr(dn, RU.arg(dn, e.node, 0)) or {}).get("f") == "container"]
    R.require(len(reads) >= 3, "s_sift_down: the reads of the root and its two children not found (%d)" % len(reads))
    if reads:
        rootn = dn.params[1]["n"]

        def small_root(n_, st):
            v = st.env.get("v:" + rootn)
            if v is None:
                v = n_.read({"k": "var", "n": rootn, "sc": "param", "t": dn.params[1]["t"], "id": -1}, st)
            st.add(v - 2 ** 61)  # indices are far below SIZE_MAX/4: the shifts do not wrap
            st.add(-v)
        num = Num(dn, P, _Fix(rootn, lambda r: r))
        num.pre_hooks = {el["id"]: small_root for b_ in dn.blocks.values() for el in b_.elems if isinstance(el.get("id"), int)}
        sts = num.states_at({e.node["id"] for e in reads})
        seen, okc = set(), True
        for e in reads:
            for st in sts.get(e.node["id"], []):
                cur = st.env.get("v:" + rootn)
                iv = num.val(RU.arg(dn, e.node, 2), st)
                if cur is None or iv is None:
                    okc = False
                    seen.add(repr(iv))
                elif iv == cur:
                    seen.add("root")
                elif iv == cur * 2 + 1:
                    seen.add("left")
                elif iv == cur * 2 + 2:
                    seen.add("right")
                else:
                    okc = False
                    seen.add(repr(iv))
        R.check(okc and {"root", "left", "right"} <= seen, "HEAP-SHAPE", "children-of", "s_sift_down()", "at slot i the elements read are those at i, 2i+1 and 2i+2", "at slot i s_sift_down reads the elements at %s" % sorted(seen))
    # parent: the variable s_sift_up exchanges the slot `index` with is computed - wherever and however often - by expressions
    # that give r for index = 2r+1 and for index = 2r+2 (NUM on every defining expression, both parities, all r < 2^61)
    sw_ = up.calls("s_swap")
    R.require(len(sw_) == 1, "s_sift_up: expected one exchange")
    if sw_:
        pidx = up.params[1]["n"]
        a1, a2 = RU.uncast(up, RU.arg(up, sw_[0].node, 1)), RU.uncast(up, RU.arg(up, sw_[0].node, 2))
        pv = a2 if up.show(a1) == pidx else a1
        defs = []
        if pv is not None and pv["k"] == "var":
            for b in up.blocks.values():
                for e in b.elems:
                    if e["k"] == "decl":
                        defs += [v["init"] for v in e["vars"] if v["n"] == pv["n"] and v.get("init") is not None]
                    if e["k"] == "bin" and e["op"] == "=" and (up.d(e["a"][0]) or {}).get("k") == "var" and up.d(e["a"][0])["n"] == pv["n"]:
                        defs.append(e["a"][1])
        R.require(len(defs) >= 1, "s_sift_up: no computation of the parent index found (exchange partner %s)" % (up.show(pv) if pv else None))
        for nm, mk in (("odd-child", lambda r: r * 2 + 1), ("even-child", lambda r: r * 2 + 2)):
            num = Num(up, P, _Fix(pidx, mk))
            first = [e for b in sorted(up.blocks.values(), key=lambda b_: -b_.id) for e in b.elems][:1]
            sts = num.states_at({first[0]["id"]}).get(first[0]["id"], []) if first else []
            R.require(len(sts) >= 1, "s_sift_up: no entry state")
            for st0 in sts[:1]:
                r = _P.atom(st0.notes["r"])
                for dn_ in defs:
                    st = st0.copy()
                    st.env["v:" + pidx] = mk(r)
                    par = num.val(up.d(dn_), st)
                    ok = par is not None and entails(st, par - r) and entails(st, r - par)
                    R.check(ok, "HEAP-SHAPE", "parent-of:%s:line%d" % (nm, (up.d(dn_) or {}).get("loc", [0])[0]), "s_sift_up()", "parent(%s) = r" % ("2r+1" if "odd" in nm else "2r+2"),
                            "the parent index of slot %s is computed as %r, not r: sift-up compares with the wrong element" % ("2r+1" if "odd" in nm else "2r+2", par))
