"""C10 - CBOR encoder / decoder round trip: heads, room, narrowing, callback wiring, cache, skip (DESIGN.md section 4, C10)."""
from sa import rules as RU
from sa.awslib import in_bounds
from sa.cfg import Typestate, dominators, ev_dominates
from sa.extract import library_units
from sa.num import Num, Poly, Limit, State, entails
from sa.rules import argstr, where
from rules import C04, cbor_stream

FILE = "source/cbor.c"
ENCS = "source/external/libcbor/cbor/internal/encoders.c"
ENCODING = "source/external/libcbor/cbor/encoding.c"

DECIDED = [
    "HEAD: (vendored encoder) for every 64-bit value the integer head is the shortest one - 1 byte up to 23, 2 up to 255, 3 up to 65535, 5 up to 2^32-1, else 9 - it is written only when that many bytes fit, 0 is returned otherwise, and every write is inside the buffer (NUM with the width functions inlined); each public encode function adds the major-type offset of its kind (0x00 uint, 0x20 negint, 0x40 bytes, 0x60 text, 0x80 array, 0xA0 map, 0xC0 tag, 0xE0 simple/float)",
    "ROOM: every reserve-then-encode site reserves at least the largest head its encode function can produce (9 / 5 / 2 bytes, derived from the vendored bodies) plus, for strings, the body; with that reservation the body append has room for all lengths (NUM); a zero result of the encode call is fatal; len grows by exactly the encoded length",
    "NARROW: write_float takes non-finite values to single, encodes as an integer exactly when the value is inside [INT64_MIN, INT64_MAX] and equals its own truncation (compared with ==), maps negatives to -1-n, narrows to single exactly when the value is within +-FLT_MAX and the float round trip compares equal with ==, and otherwise writes a double",
    "WIRING: every libcbor stream callback slot is wired to a callback that records the aws type of that slot's kind and stores the value in the union member that the pop function of that type reads; definite/indefinite slots are not crossed",
    "CACHE: a new element is decoded only when the one-item cache is empty and no sticky error is set; pop functions give the cached value out only when its type is the expected one and clear the cache exactly then; peek never clears; consume_next_single_element clears; the source advances by exactly the bytes the stream decoder reports (C04 WRAPPER)",
    "SKIP: the whole-item skip consumes one further item for a tag, n items for an array, 2 per entry for a map, and for an indefinite container tests for the break BEFORE consuming each item (so an empty one is skipped correctly) and leaves the cache empty; every nested failure is propagated",
]
DECIDED = DECIDED + list(cbor_stream.DECIDED)
NOT_DECIDED = ["numeric equality of floating-point values through libcbor's float packing (cbor_encode_single/double bit layout) and the stream decoder's loaders", "byte-for-byte agreement with an independent decoder beyond heads and major types",
               "unbounded recursion depth of the whole-item skip (known finding D11)", "the `smallest form` clause for integral doubles >= 2^32 (known finding D17)"]
ASSUMPTIONS = list(C04.ASSUMPTIONS) + ["the libcbor stream decoder invokes exactly one callback per decoded element (its reads are bounded by STREAM; its callback discipline is not analysed)"]

OFFSETS = {"cbor_encode_uint": 0x00, "cbor_encode_negint": 0x20, "cbor_encode_bytestring_start": 0x40, "cbor_encode_string_start": 0x60, "cbor_encode_array_start": 0x80, "cbor_encode_map_start": 0xA0,
           "cbor_encode_tag": 0xC0, "cbor_encode_ctrl": 0xE0, "cbor_encode_single": 0xE0, "cbor_encode_double": 0xE0}
INNER = {"cbor_encode_uint": "_cbor_encode_uint", "cbor_encode_negint": "_cbor_encode_uint", "cbor_encode_bytestring_start": "_cbor_encode_uint", "cbor_encode_string_start": "_cbor_encode_uint",
         "cbor_encode_array_start": "_cbor_encode_uint", "cbor_encode_map_start": "_cbor_encode_uint", "cbor_encode_tag": "_cbor_encode_uint", "cbor_encode_ctrl": "_cbor_encode_uint8",
         "cbor_encode_single": "_cbor_encode_uint32", "cbor_encode_double": "_cbor_encode_uint64"}
# one-byte items: public encoder -> the byte it must write (RFC 8949: indefinite-length starts 0x5F/0x7F/0x9F/0xBF, break 0xFF)
BYTE_ENC = {"cbor_encode_indef_bytestring_start": 0x5F, "cbor_encode_indef_string_start": 0x7F, "cbor_encode_indef_array_start": 0x9F, "cbor_encode_indef_map_start": 0xBF, "cbor_encode_break": 0xFF}
SLOTS = {"uint8": "UINT", "uint16": "UINT", "uint32": "UINT", "uint64": "UINT", "negint8": "NEGINT", "negint16": "NEGINT", "negint32": "NEGINT", "negint64": "NEGINT", "byte_string_start": "INDEF_BYTES_START",
         "byte_string": "BYTES", "string": "TEXT", "string_start": "INDEF_TEXT_START", "indef_array_start": "INDEF_ARRAY_START", "array_start": "ARRAY_START", "indef_map_start": "INDEF_MAP_START",
         "map_start": "MAP_START", "tag": "TAG", "float2": "FLOAT", "float4": "FLOAT", "float8": "FLOAT", "undefined": "UNDEFINED", "null": "NULL", "boolean": "BOOL", "indef_break": "BREAK"}
MEMBER = {"UINT": "unsigned_int_val", "NEGINT": "negative_int_val", "FLOAT": "float_val", "BOOL": "boolean_val", "TEXT": "text_val", "BYTES": "bytes_val", "MAP_START": "map_start", "ARRAY_START": "array_start", "TAG": "tag_val"}


class EncHooks(C04.ParserHooks):
    """entry contract of the vendored width encoders: the buffer is buffer_size bytes long"""

    def entry(self, num, st):
        ps = [p["n"] for p in num.fn.params]
        if "buffer" in ps and "buffer_size" in ps:
            b = C04._param(num, st, ps.index("buffer"))
            n = C04._param(num, st, ps.index("buffer_size"))
            st.extent[list(b.t)[0][0]] = n


def float_bits(R, P):
    """HEADS/float-bits: cbor_encode_single / cbor_encode_double hand the value's own bit pattern to the head writer: every
    definition of the argument derives from the `value` parameter (union pun or memcpy) - no constant is substituted for some
    values (a NaN rewritten as another bit pattern decodes as a different number)."""
    for name, inner in (("cbor_encode_single", "_cbor_encode_uint32"), ("cbor_encode_double", "_cbor_encode_uint64")):
        f = P.fn(name)
        if f is None:
            continue
        pn = f.params[0]["n"]
        cs = f.calls(inner)
        if not R.require(len(cs) >= 1, "%s: call of %s not found" % (name, inner)):
            continue

        def from_value(n_):
            return any(y["k"] == "var" and y["n"] == pn for y in f.walk(n_, follow_refs=True))
        bad = []
        for c in cs:
            a0 = RU.uncast(f, RU.arg(f, c.node, 0))
            if a0 is not None and a0["k"] == "var" and a0.get("sc") == "local":
                defs = []
                for b in f.blocks.values():
                    for el in b.elems:
                        for x in f.walk(el):
                            if x["k"] == "decl":
                                defs += [v["init"] for v in x["vars"] if v["n"] == a0["n"] and v.get("init") is not None]
                            elif x["k"] == "bin" and x["op"] in ("=", "|=", "&=", "^=", "+=", "-=") and (f.d(x["a"][0]) or {}).get("k") == "var" and f.d(x["a"][0])["n"] == a0["n"]:
                                defs.append(x["a"][1])
                copies = [e for e in f.calls({"memcpy", "__builtin_memcpy", "__builtin___memcpy_chk"}) if (RU.strip_addr(f, RU.arg(f, e.node, 0)) or {}).get("n") == a0["n"]]
                for d_ in defs:
                    if not from_value(d_):
                        bad.append(f.show(d_)[:40])
                for e in copies:
                    if not from_value(RU.arg(f, e.node, 1)):
                        bad.append(f.show(e.node)[:40])
                if not defs and not copies:
                    bad.append("no definition of %s" % a0["n"])
            elif a0 is None or not from_value(a0):
                bad.append(f.show(a0)[:40] if a0 is not None else "?")
        R.check(not bad, "HEADS", "%s:writes-the-values-own-bits" % name, "%s()" % name, "the argument of %s is the parameter's bit pattern on every path" % inner,
                "%s substitutes %s for the value's own bits on some path: such values (NaNs, by the look of it) are written as another number" % (name, bad))


def heads(R, P):
    float_bits(R, P)
    widths = {}
    for name in ("_cbor_encode_uint8", "_cbor_encode_uint16", "_cbor_encode_uint32", "_cbor_encode_uint64", "_cbor_encode_uint"):
        f = P.fn(name)
        if not R.require(f is not None, "%s not found (vendored encoder)" % name):
            return {}
        R.fn(f)
        num = Num(f, P, EncHooks(), max_paths=20000)
        st0 = State()
        EncHooks().entry(num, st0)
        v = C04._param(num, st0, 0)
        size = C04._param(num, st0, 2)
        rets = [x for b in f.blocks.values() for x in b.elems if x["k"] == "ret"]
        from sa.bounds import access_sites, addr_size
        sites = access_sites(f)
        try:
            sts = num.states_at({r["id"] for r in rets} | {s[0] for s in sites}, entry_state=st0)
        except Limit as ex:
            R.broken(str(ex))
            return {}
        ok_b = True
        for eid, kind, n in sites:
            for st in sts.get(eid, []):
                s2 = st.copy()
                for (D, sz, mode) in addr_size(num, s2, kind, n):
                    if in_bounds(s2, D, sz)[0] != "ok":
                        ok_b = False
        if sites:
            R.check(ok_b, "HEAD", "%s:writes-inside-buffer" % name, "%s()" % name, "every byte is stored below buffer_size")
        ks, bad = set(), None
        for r in rets:
            for st in sts.get(r["id"], []):
                rv = num.val(r["a"][0], st)
                if rv is None or not rv.is_const():
                    bad = "return value %r is not a constant width" % rv
                    continue
                k = rv.cval()
                ks.add(k)
                if k and not entails(st, Poly.const(k) - size):
                    bad = "returns %d although only %r bytes fit" % (k, size)
                if name in ("_cbor_encode_uint", "_cbor_encode_uint8") and k:
                    lo = {1: 0, 2: 24, 3: 256, 5: 65536, 9: 2 ** 32}.get(k)
                    hi = {1: 23, 2: 255, 3: 65535, 5: 2 ** 32 - 1, 9: 2 ** 64 - 1}.get(k)
                    if lo is None or not (entails(st, Poly.const(lo) - v) and entails(st, v - hi)):
                        bad = "a %d-byte head is produced for a value outside [%s, %s]" % (k, lo, hi)
        widths[name] = max(ks) if ks else None
        R.check(bad is None and ks, "HEAD", "%s:shortest-head" % name, "%s()" % name, "head widths %s, each only for its value range and only when it fits" % sorted(ks), "the vendored head encoder is not shortest-form / bounded: %s" % bad)
    want = {"_cbor_encode_uint8": {0, 1, 2}, "_cbor_encode_uint16": {0, 3}, "_cbor_encode_uint32": {0, 5}, "_cbor_encode_uint64": {0, 9}}
    # major-type offsets of the public entry points used by cbor.c
    for pub, off in sorted(OFFSETS.items()):
        f = P.fn(pub)
        if not R.require(f is not None, "%s not found" % pub):
            continue
        calls = f.calls(INNER[pub])
        okc = len(calls) == 1 and f.is_const(RU.uncast(f, calls[0].node["a"][-1])) == off
        R.check(okc, "HEAD", "%s:major-type" % pub, "%s()" % pub, "delegates to %s with offset 0x%02X" % (INNER[pub], off), "%s does not encode with major-type offset 0x%02X" % (pub, off))
    for pub, byte in sorted(BYTE_ENC.items()):
        f = P.fn(pub)
        if not R.require(f is not None, "%s not found" % pub):
            continue
        calls = f.calls("_cbor_encode_byte")
        R.check(len(calls) == 1 and f.is_const(RU.uncast(f, calls[0].node["a"][0])) == byte, "HEAD", "%s:byte" % pub, "%s()" % pub, "writes the single byte 0x%02X" % byte, "%s does not write 0x%02X" % (pub, byte))
    return widths


class RoomHooks(C04.ParserHooks):
    def __init__(self, widths):
        C04.ParserHooks.__init__(self)
        self.widths = widths

    def call(self, num, st, e, args):
        c = e.get("callee") or ""
        if c in BYTE_ENC:
            size = args[-1]
            r = Poly.atom(num.fresh(st, "encoded", None, (0, 1)))
            if size is not None:
                st.add(r - size)
            if not st.notes.get("reserve_failed"):
                num.__dict__.setdefault("enc_ptrs", []).append((e, st.copy(), args[-2] if len(args) >= 2 else None, 1))
            num.cell_store(st, args[-2] if len(args) >= 2 else None)
            return r
        if c in INNER and c in OFFSETS:
            # r = 0 (does not fit) or the head width, never more than fits and never more than the widest head
            w = self.widths.get(INNER[c]) or 9
            if INNER[c] == "_cbor_encode_uint8" and args[0] is not None and entails(st, args[0] - 23):
                w = 1  # (HEAD: the two-byte form is produced only above 23)
            size = args[-1]
            r = Poly.atom(num.fresh(st, "encoded", None, (0, w)))
            if size is not None:
                st.add(r - size)
            num.cell_store(st, args[-2] if len(args) >= 2 else None)
            st.notes.setdefault("enc_calls", []).append((c, e["id"], r))
            st.notes["enc_calls"] = list(st.notes["enc_calls"])
            return r
        if c == "aws_byte_buf_reserve_smart_relative" and args[0] is not None and args[1] is not None:
            base = self._cbase(num, st, e, 0, args)
            ln = num.field(st, base + "len", "aws_byte_buf", "len")
            cap = num.field(st, base + "capacity", "aws_byte_buf", "capacity")
            outs = []
            s1 = st.copy()
            nc = Poly.atom(num.fresh(s1, "capacity", None, (0, 2 ** 64 - 1)))
            s1.add(ln + args[1] - nc)
            s1.add(cap - nc)
            nb = num.fresh(s1, "buffer", None, (1, 2 ** 64 - 1))
            s1.env[base + "capacity"] = nc
            s1.env[base + "buffer"] = Poly.atom(nb)
            s1.extent[nb] = nc
            s1.vals[e["id"]] = Poly.const(0)
            outs.append(s1)
            s2 = st.copy()
            s2.vals[e["id"]] = Poly.atom(num.fresh(s2, "reserve_err", None, (1, 2 ** 31)))
            s2.notes["reserve_failed"] = True
            outs.append(s2)
            return outs
        if c == "aws_byte_buf_append" and args[0] is not None and args[1] is not None:
            bb, cb = self._cbase(num, st, e, 0, args), self._cbase(num, st, e, 1, args)
            ln = num.field(st, bb + "len", "aws_byte_buf", "len")
            cap = num.field(st, bb + "capacity", "aws_byte_buf", "capacity")
            fl = num.field(st, cb + "len", "aws_byte_cursor", "len")
            ok = entails(st, ln + fl - cap)
            num.__dict__.setdefault("appends", []).append((e, ok, repr(ln + fl), repr(cap)))
            st.env[bb + "len"] = ln + fl if ok else Poly.atom(num.fresh(st, "len", None, (0, 2 ** 64 - 1)))
            return Poly.const(0)
        return C04.ParserHooks.call(self, num, st, e, args)


def room(R, P, widths):
    need = {k: widths.get(v) for k, v in INNER.items()}
    hooks = RoomHooks(widths)
    writers = [f for f in P.functions_in(FILE) if f.name.startswith("aws_cbor_encoder_write_") or f.name == "s_cbor_encoder_write_type_only"]
    R.require(len(writers) >= 15, "only %d encoder write functions found" % len(writers))
    n_sites = 0
    for f in sorted(writers, key=lambda x: x.name):
        encs = [e for e in f.all_events() if e.kind == "call" and ((e.node.get("callee") or "") in OFFSETS or (e.node.get("callee") or "") in BYTE_ENC)]
        if not encs:
            continue
        R.fn(f)
        num = Num(f, P, hooks, max_paths=20000)
        try:
            sts = num.states_at({e.node["id"] for e in encs} | {-1})
        except Limit as ex:
            R.broken(str(ex))
            continue
        for e in encs:
            n_sites += 1
            c = e.node["callee"]
            w = 1 if c in BYTE_ENC else need.get(c)
            if c not in BYTE_ENC and INNER[c] == "_cbor_encode_uint8":
                a0 = [num.val(e.node["a"][0], s_.copy()) for s_ in sts.get(e.node["id"], [])]
                if a0 and all(v_ is not None and entails(s_, v_ - 23) for v_, s_ in zip(a0, sts.get(e.node["id"], []))):
                    w = 1
            # room at the encode call: capacity - len >= widest head (+ body for strings)
            ok, det = True, ""
            for st in sts.get(e.node["id"], []):
                if c in BYTE_ENC and st.notes.get("reserve_failed"):
                    continue  # ASSUMED (recorded below): a 1-byte reserve on the encoder's allocator-backed buffer does not fail
                s2 = st.copy()
                size = num.val(e.node["a"][-1], s2)
                if size is None or w is None or not entails(s2, Poly.const(w) - size):
                    ok, det = False, "room %r, widest head %s" % (size, w)
            R.check(ok and sts.get(e.node["id"]), "ROOM", "%s:%s:head-fits" % (f.name, c), where(f, e), "at least %s bytes are available for the head in all states" % w,
                    "the reservation before %s does not cover its widest head (%s): the encode call returns 0 and the encoder aborts, or the item is truncated" % (c, det))
            # a zero result is fatal, len += result
            fa = [x for x in f.calls("aws_fatal_assert")]
            if c in BYTE_ENC:
                R.assumed_sites.append({"site": "ROOM:%s:%s" % (f.name, c), "reason": "the result of the 1-byte reserve is not tested here (unlike ENCODE_THROUGH_LIBCBOR); a failing reserve is not reachable: allocation failure aborts (library assumption) and len + 1 cannot overflow for a valid buffer. The states after a failed reserve are not examined"})
                continue
            R.check(len(fa) >= 2, "ROOM", "%s:%s:zero-is-fatal" % (f.name, c), where(f, e), "reserve failure and a zero-length encoding are fatal")
        # the position handed to a one-byte encoder is inside the buffer as it is at that call (not a pointer or a
        # remaining-length taken before the reserve, which may have moved the storage and has changed the room)
        byp = {}
        for (e2, st2, ptr, w2) in getattr(num, "enc_ptrs", []):
            r2 = in_bounds(st2, ptr, Poly.const(w2)) if ptr is not None else ("fail", "position not numeric")
            o = byp.setdefault(e2["id"], [e2, True, ""])
            if r2[0] != "ok":
                o[1], o[2] = False, r2[1]
        for eid, (e2, ok2, det2) in sorted(byp.items()):
            R.check(ok2, "ROOM", "%s:%s:position-is-current" % (f.name, e2["callee"]), "%s:%d in %s()" % (FILE, e2.get("loc", [0])[0], f.name), "the write position lies inside the buffer as it is after the reserve",
                    "the position passed to %s is not inside the encoder's current buffer (%s): a position or remaining length read before the reserve is stale - the byte is dropped when the buffer was exactly full, or written into released storage" % (e2["callee"], det2))
        for (e, ok, need_, cap) in getattr(num, "appends", []):
            R.check(ok, "ROOM", "%s:body-append-has-room" % f.name, "%s:%d in %s()" % (FILE, e.get("loc", [0])[0], f.name), "the string body fits after its head for all lengths",
                    "after the head, the body append needs %s bytes but only %s are guaranteed: the body is silently dropped" % (need_, cap))
            n_sites += 1
    R.require(n_sites >= 14, "only %d encode sites analysed" % n_sites)
    # simple values
    consts = {"AWS_CBOR_SIMPLE_VAL_FALSE": 20, "AWS_CBOR_SIMPLE_VAL_TRUE": 21, "AWS_CBOR_SIMPLE_VAL_NULL": 22, "AWS_CBOR_SIMPLE_VAL_UNDEFINED": 23}
    got = {k: P.enums.get(k) for k in consts}
    R.check(got == consts, "ROOM", "simple-values", "include/aws/common/cbor.h", "false/true/null/undefined are simple values 20..23 (one-byte heads)", "simple value constants are %s" % got)
    t = P.fn("s_cbor_encoder_write_type_only")
    if R.require(t is not None, "s_cbor_encoder_write_type_only not found"):
        mp = {}
        vals = {v: k for k, v in P.enums.items() if k.startswith("AWS_CBOR_TYPE_")}
        for b in t.blocks.values():
            if b.case is None:
                continue
            cs = [e for e in t.all_events() if e.kind == "call" and e.blk == b.id and (e.node.get("callee") or "").startswith("cbor_encode_")]
            if cs:
                mp[vals.get(b.case, b.case)] = cs[0].node["callee"]
        want = {"AWS_CBOR_TYPE_INDEF_BYTES_START": "cbor_encode_indef_bytestring_start", "AWS_CBOR_TYPE_INDEF_TEXT_START": "cbor_encode_indef_string_start", "AWS_CBOR_TYPE_INDEF_ARRAY_START": "cbor_encode_indef_array_start",
                "AWS_CBOR_TYPE_INDEF_MAP_START": "cbor_encode_indef_map_start", "AWS_CBOR_TYPE_BREAK": "cbor_encode_break"}
        # what each public writer ends up calling: through the helper's switch on the type, through a marker function handed
        # to the helper (which calls its parameter), or directly
        pub = {"aws_cbor_encoder_write_indef_bytes_start": "AWS_CBOR_TYPE_INDEF_BYTES_START", "aws_cbor_encoder_write_indef_text_start": "AWS_CBOR_TYPE_INDEF_TEXT_START",
               "aws_cbor_encoder_write_indef_array_start": "AWS_CBOR_TYPE_INDEF_ARRAY_START", "aws_cbor_encoder_write_indef_map_start": "AWS_CBOR_TYPE_INDEF_MAP_START", "aws_cbor_encoder_write_break": "AWS_CBOR_TYPE_BREAK"}
        calls_param = {p_["n"] for p_ in t.params if any(RU.uncast(t, e.node.get("fn")) is not None and RU.uncast(t, e.node["fn"])["k"] == "var" and RU.uncast(t, e.node["fn"])["n"] == p_["n"] for e in t.indirect_calls())}
        got = {}
        for name, ty in sorted(pub.items()):
            g = P.fn(name)
            if g is None:
                continue
            direct = [e.node["callee"] for e in g.all_events() if e.kind == "call" and (e.node.get("callee") or "").startswith("cbor_encode_")]
            if direct:
                got[ty] = direct[0] if len(direct) == 1 else direct
                continue
            for e in g.calls(t.name):
                for i, a_ in enumerate(e.node["a"]):
                    x = RU.uncast(g, a_)
                    while x is not None and x["k"] in ("decay", "cast") or (x is not None and x["k"] == "un" and x["op"] == "addr"):
                        x = g.d(x["a"][0])
                    if x is not None and x["k"] == "fn" and i < len(t.params) and t.params[i]["n"] in calls_param:
                        got[ty] = x["n"]
                    elif x is not None and g.is_const(x) is not None and vals.get(g.is_const(x)) in mp:
                        got[ty] = mp[vals[g.is_const(x)]] if vals[g.is_const(x)] == ty else "%s (asks for %s)" % (mp[vals[g.is_const(x)]], vals[g.is_const(x)])
        R.check(got == want, "ROOM", "indefinite-markers", "%s()" % t.name, "each indefinite start / break writer ends in its own marker function", "marker dispatch is %s" % got)


def narrow(R, P):
    f = P.fn("aws_cbor_encoder_write_float")
    if not R.require(f is not None, "aws_cbor_encoder_write_float not found"):
        return
    R.fn(f)
    dom = dominators(f)
    conds = {}
    for b in f.blocks.values():
        if b.cond is not None:
            conds[b.id] = f.show(f.d(b.cond)).replace(" ", "")
    single = f.calls("aws_cbor_encoder_write_single_float")
    uint, neg = f.calls("aws_cbor_encoder_write_uint"), f.calls("aws_cbor_encoder_write_negint")
    dbl = f.calls("cbor_encode_double")
    R.check(len(single) == 2 and len(uint) == 1 and len(neg) == 1 and len(dbl) == 1, "NARROW", "four-forms", "%s()" % f.name, "non-finite/single, integer (two signs), single, double")
    if not (len(single) == 2 and uint and neg and dbl):
        return

    def guard_txt(e):
        return [(f.show(f.d(c)).replace(" ", ""), pol) for c, pol, b in RU.guards(f, e, dom)]
    # the roles are taken from the code, not from its spelling: `value` is the double parameter, the truncated integer is the
    # local initialised with (int64_t)value, the narrowed float the local initialised with (float)value, the widened-back
    # double the expression (double)<narrowed>.  Temporaries are seen through (RU.resolve), operands may stand either way round.
    vname = f.params[1]["n"]

    def is_value(n):
        n = RU.resolve(f, n)
        return n is not None and n["k"] == "var" and n["n"] == vname

    def cast_of_value(n, pred):
        """n (through temporaries) is a conversion of `value` to a type satisfying pred"""
        n0 = f.d(n)
        for _ in range(6):
            if n0 is None:
                return False
            if n0["k"] == "cast":
                t = f.ty(n0)
                if pred(t) and is_value(n0["a"][0]):
                    return True
                n0 = f.d(n0["a"][0])
            elif n0["k"] == "var" and n0.get("sc") == "local":
                init = None
                for e in f.all_events():
                    if e.kind == "decl":
                        for v in e.node["vars"]:
                            if v["n"] == n0["n"] and v.get("init") is not None:
                                init = v["init"]
                n0 = f.d(init) if init is not None else None
            else:
                return False
        return False
    is_i64 = lambda t: t.get("w") == 64 and t.get("sg", t.get("signed", True)) and not t.get("fp") and not t.get("ptr")
    is_flt = lambda t: (t.get("c") or t.get("s") or "") == "float"
    is_trunc = lambda n: cast_of_value(n, lambda t: "int" in (t.get("c") or t.get("s") or "") or (t.get("c") or t.get("s") or "") in ("long", "long long"))

    def widened_back(n):
        """(double)<narrowed float of value>"""
        n0 = f.d(n)
        for _ in range(4):
            if n0 is None:
                return False
            if n0["k"] == "cast" and (f.ty(n0).get("c") or f.ty(n0).get("s")) == "double" and cast_of_value(n0["a"][0], is_flt):
                return True
            if n0["k"] == "var" and n0.get("sc") == "local":
                init = [v["init"] for e in f.all_events() if e.kind == "decl" for v in e.node["vars"] if v["n"] == n0["n"] and v.get("init") is not None]
                n0 = f.d(init[0]) if init else None
            elif n0["k"] == "cast":
                n0 = f.d(n0["a"][0])
            else:
                return False
        return False

    def guards_of(e):
        return [(f.d(c_), pol) for c_, pol, b in RU.guards(f, e, dom)]

    def eq_guard(e, other):
        """exactly one positive guard `value == X` (either order) with other(X)"""
        out = []
        for n_, pol in guards_of(e):
            if pol and n_ is not None and n_["k"] == "bin" and n_["op"] == "==":
                a0, a1 = n_["a"]
                if (is_value(a0) and other(a1)) or (is_value(a1) and other(a0)):
                    out.append(n_)
        return out
    R.check(len(eq_guard(uint[0], lambda x: (f.ty(f.d(x)).get("c") or f.ty(f.d(x)).get("s")) == "double" and is_trunc(RU.uncast(f, x)) or is_trunc(x))) == 1, "NARROW", "integer-iff-exact", where(f, uint[0]),
            "integer form exactly when value == (double)(int64_t)value", "the exact-integer test is %s" % [t for t, p in guard_txt(uint[0])])

    def constval(n):
        n = RU.uncast(f, n)
        if n is None:
            return None
        v = f.is_const(n)
        if v is not None:
            return float(v)
        if n["k"] == "float":
            try:
                return float(n["v"])
            except (TypeError, ValueError):
                return None
        if n["k"] == "un" and n["op"] in ("-", "+"):
            x = constval(n["a"][0])
            return None if x is None else (-x if n["op"] == "-" else x)
        return None

    def range_guards(e):
        """(op, constant as double) with `value` on the left, for the positive guards comparing value with a constant"""
        out = []
        for n_, pol in guards_of(e):
            if not pol or n_ is None or n_["k"] != "bin" or n_["op"] not in ("<", "<=", ">", ">="):
                continue
            a0, a1 = n_["a"]
            flip = {"<": ">", "<=": ">=", ">": "<", ">=": "<="}
            if is_value(a0) and constval(a1) is not None:
                out.append((n_["op"], constval(a1), f.show(n_)))
            elif is_value(a1) and constval(a0) is not None:
                out.append((flip[n_["op"]], constval(a0), f.show(n_)))
        return out
    # the double -> int64 conversion is defined only for values strictly below 2^63 and at or above -2^63.  The bounds are
    # compared AS DOUBLES: (double)INT64_MAX rounds up to 2^63, so `value <= (double)INT64_MAX` admits 2^63 itself
    lo_ok = hi_ok = False
    hi_txt = lo_txt = None
    for op_, kd, txt in range_guards(uint[0]):
        if op_ in ("<", "<="):
            hi_txt = txt
            hi_ok = hi_ok or (op_ == "<" and kd <= 2.0 ** 63) or (op_ == "<=" and kd < 2.0 ** 63)
        else:
            lo_txt = txt
            lo_ok = lo_ok or kd >= -(2.0 ** 63)
    R.check(lo_ok and hi_ok, "NARROW", "integer-range-guard", where(f, uint[0]), "the cast to int64 happens only for -2^63 <= value < 2^63 (%s, %s)" % (lo_txt, hi_txt),
            "the range test before (int64_t)value is `%s` / `%s`; compared as doubles the upper bound is %s, so the value 2^63 itself reaches the conversion, which is undefined for it (it yields INT64_MIN on x86-64 and INT64_MAX where the conversion saturates 2^63 is then written as 2^63-1)" % (lo_txt, hi_txt, "2^63 (INT64_MAX rounds up)"))
    # "stored in the smallest form that loses nothing": an integer head is 9 bytes from 2^32 on, a single float 5; the integer
    # form may be chosen ahead of the single form only below 2^32 in magnitude (or after the single form was tried)
    small = any(op_ in ("<", "<=") and kd <= 2.0 ** 32 for op_, kd, txt in range_guards(uint[0]))
    def nonfinite_arm(e):
        """e is reached only for NaN / infinities (the isfinite test's failing arm, however the test is spelt)"""
        for t, pol in guard_txt(e):
            if "isfinite" in t and isinstance(pol, bool) and ((t.split("isfinite")[0].count("!") % 2 == 1) == pol):
                return True
        return False
    later_single = [s for s in single if not nonfinite_arm(s)]
    after_single = bool(later_single) and all(ev_dominates(f, s, uint[0], dom) for s in later_single)
    R.check(small or after_single, "NARROW", "integer-form-not-larger-than-single", where(f, uint[0]), "the integer form is used ahead of the single form only where its head is not longer",
            "the integer form is chosen before the single-float form for every exact integer in the int64 range: an integral double of magnitude >= 2^32 that a single float represents exactly (2^32, 2^40, -2^35) is written with a 9-byte integer head instead of the 5-byte single-float form")
    # sign split and the negative mapping n -> -1-n, decided on the values (NUM): at the negint call the truncated integer is
    # negative and the argument equals -1 - it (written in any equivalent way); at the uint call it is non-negative and passed as is
    def trunc_guard(e):
        for n_, pol in guards_of(e):
            g_ = RU.cmp_norm(f, n_, pol)
            if g_ and g_[2] is not None and f.is_const(RU.uncast(f, g_[2])) == 0 and is_trunc(g_[0]):
                return g_[0], g_[1]
            if g_ and g_[2] is not None and f.is_const(RU.uncast(f, g_[0])) == 0 and is_trunc(g_[2]):
                return g_[2], {"<": ">", "<=": ">=", ">": "<", ">=": "<=", "==": "==", "!=": "!="}[g_[1]]
        return None, None
    tn, op_n = trunc_guard(neg[0])
    tu, op_u = trunc_guard(uint[0])
    R.check(tn is not None and tu is not None and op_n == "<" and op_u == ">=", "NARROW", "sign-split", where(f, neg[0]), "negint iff the truncated integer is < 0",
            "the sign split is `%s 0` for the negative form and `%s 0` for the unsigned form" % (op_n, op_u))
    okm, detm = False, "not decided"
    if tn is not None:
        num = Num(f, P, C04.ParserHooks(), max_paths=4000)
        try:
            sts = num.states_at({neg[0].node["id"], uint[0].node["id"]})
            okm, nst = True, 0
            for ev_, sign in ((neg[0], -1), (uint[0], 1)):
                for st in sts.get(ev_.node["id"], []):
                    nst += 1
                    a_ = num.val(RU.arg(f, ev_.node, 1), st)
                    x_ = num.val(tn if sign < 0 else tu, st)
                    want = (Poly.const(-1) - x_) if (sign < 0 and x_ is not None) else x_
                    if a_ is None or x_ is None or not (entails(st, a_ - want) and entails(st, want - a_)):
                        okm, detm = False, "%s is passed %r for the truncated integer %r" % (ev_.node["callee"], a_, x_)
            okm = okm and nst >= 2
        except Limit as ex:
            R.broken(str(ex))
    R.check(okm, "NARROW", "negative-mapping", where(f, neg[0]), "negative n is written as -1-n, non-negative n as n (NUM, any equivalent spelling)",
            "the integer argument is not the CBOR mapping (n for n >= 0, -1-n for n < 0): %s" % detm)
    first = [s for s in single if nonfinite_arm(s)]
    ok1 = len(first) == 1
    R.check(ok1, "NARROW", "non-finite-to-single", where(f, first[0]) if first else f.name, "NaN / infinities are written as single")
    if first:
        R.check(cast_of_value(RU.arg(f, first[0].node, 1), is_flt), "NARROW", "non-finite-keeps-the-value", where(f, first[0]), "the non-finite value written is (float)value itself (sign of the infinity, NaN)",
                "the non-finite branch writes %s, not (float)value: -infinity is encoded as +infinity (or a NaN as something else)" % argstr(f, first[0].node, 1))
    if later_single:
        ls = later_single[0]
        R.check(len(eq_guard(ls, widened_back)) == 1, "NARROW", "single-iff-round-trip-equal", where(f, ls), "single exactly when (double)(float)value == value",
                "the float round-trip test is %s, not an exact == of value with (double)(float)value" % [t for t, p in guard_txt(ls)])
        rg = range_guards(ls)
        fl = 3.4028234663852886e+38
        okr = any(op_ in ("<", "<=") and abs(kd - fl) < 1e30 for op_, kd, t in rg) and any(op_ in (">", ">=") and abs(kd + fl) < 1e30 for op_, kd, t in rg)
        if not okr:
            # fabs(value) <= FLT_MAX
            for n_, pol in guards_of(ls):
                if pol and n_ is not None and n_["k"] == "bin" and n_["op"] in ("<", "<="):
                    l_ = RU.uncast(f, n_["a"][0])
                    kc = constval(n_["a"][1])
                    if l_ is not None and l_["k"] == "call" and l_.get("callee") in ("fabs", "__builtin_fabs") and is_value(RU.arg(f, l_, 0)) and kc is not None and abs(float(kc) - fl) < 1e30:
                        okr = True
        R.check(okr, "NARROW", "single-range-guard", where(f, ls), "the cast to float happens only within +-FLT_MAX")
        R.check(cast_of_value(RU.arg(f, ls.node, 1), is_flt), "NARROW", "round-trip-operands", where(f, ls), "the single float written is (float)value",
                "the value written as single float is %s, not (float)value" % argstr(f, ls.node, 1))
    R.check(not any(x in RU.reach_from(f, dbl[0]) for x in single + uint + neg), "NARROW", "double-last", where(f, dbl[0]), "the double form is the fall-through")


def wiring(R, P):
    g = P.globals.get("s_callbacks")
    ini = (g or {}).get("init") or {}
    flds = ini.get("fields") or ini.get("struct")
    if not R.require(g is not None and isinstance(flds, (dict, list)), "s_callbacks table not found / not constant: %s" % str(ini)[:120]):
        return
    table = {}
    if isinstance(flds, dict):
        for k, v in flds.items():
            if isinstance(v, dict) and v.get("fn"):
                table[k] = v["fn"]
    else:
        rec = P.records.get("cbor_callbacks")
        names = [f_["n"] for f_ in rec["fields"]] if rec else []
        for k, v in zip(names, flds):
            if isinstance(v, dict) and v.get("fn"):
                table[k] = v["fn"]
    R.require(len(table) >= 24, "only %d callback slots resolved" % len(table))
    vals = {v: k[len("AWS_CBOR_TYPE_"):] for k, v in P.enums.items() if k.startswith("AWS_CBOR_TYPE_")}

    def effect(name, depth=0):
        f = P.fn(name)
        if f is None or depth > 3:
            return None, None
        ty, mem = None, None
        for b in f.blocks.values():
            for el in b.elems:
                if el["k"] == "bin" and el["op"] == "=":
                    l = f.d(el["a"][0])
                    txt = f.show(l)
                    if txt.endswith("cached_context.type"):
                        ty = vals.get(f.is_const(RU.uncast(f, el["a"][1])))
                    m = [x["f"] for x in f.walk(l) if x["k"] == "member" and x.get("rec", "").endswith("u")]
                    if ".u." in txt:
                        mem = txt.split(".u.")[1].split(".")[0]
        if ty is None:
            for c in f.all_events():
                if c.kind == "call" and (c.node.get("callee") or "").endswith("_callback"):
                    return effect(c.node["callee"], depth + 1)
        return ty, mem
    bad = {}
    for slot, want in sorted(SLOTS.items()):
        fn = table.get(slot)
        ty, mem = effect(fn) if fn else (None, None)
        if ty != want or (want in MEMBER and mem != MEMBER[want]):
            bad[slot] = (fn, ty, mem)
    R.check(not bad and len(table) >= 24, "WIRING", "stream-callbacks", "%s: s_callbacks" % FILE, "all %d slots record the type of their kind and store into the union member of that type" % len(SLOTS),
            "callback slots wired to the wrong kind / union member: %s" % bad)
    # the pop functions read the member the callbacks of that type write
    pops = {}
    for f in P.functions_in(FILE):
        if f.name.startswith("aws_cbor_decoder_pop_next_"):
            R.fn(f)
            exp = None
            for b in f.blocks.values():
                if b.cond is not None and "cached_context.type" in f.show(b.cond):
                    g_ = RU.cmp_norm(f, b.cond, True)  # `!= expected` or `== expected`: the same test
                    k = f.is_const(RU.uncast(f, g_[2])) if g_ and g_[2] is not None and g_[1] in ("==", "!=") and f.show(RU.uncast(f, g_[0])).endswith("cached_context.type") else None
                    if k is not None and vals.get(k) != "UNKNOWN":
                        exp = vals.get(k)
            rd = None
            for b in f.blocks.values():
                for el in b.elems:
                    if el["k"] == "bin" and el["op"] == "=" and f.show(f.d(el["a"][0])) == "*out":
                        rd = f.show(f.d(el["a"][1])).split(".u.")[-1]
            pops[f.name[len("aws_cbor_decoder_pop_next_"):]] = (exp, rd)
    want = {m: (t, m) for t, m in MEMBER.items()}
    R.check(pops == want, "WIRING", "pop-reads-what-callbacks-write", FILE, "each of the %d pop functions expects its type and reads that type's union member" % len(pops), "pop functions expect/read %s" % {k: v for k, v in pops.items() if want.get(k) != v})


def cache(R, P):
    vals = {k: v for k, v in P.enums.items() if k.startswith("AWS_CBOR_TYPE_")}
    unk = vals.get("AWS_CBOR_TYPE_UNKNOWN")
    fns = [f for f in P.functions_in(FILE) if f.name.startswith("aws_cbor_decoder_pop_next_")] + [P.fn("aws_cbor_decoder_peek_type"), P.fn("aws_cbor_decoder_consume_next_single_element")]
    for f in fns:
        if f is None:
            continue
        dom = dominators(f)
        dec = f.calls("s_cbor_decode_next_element")
        stores = []
        for b in f.blocks.values():
            for el in b.elems:
                if el["k"] == "bin" and el["op"] == "=" and f.show(f.d(el["a"][0])).endswith("cached_context.type"):
                    stores.append((b, el, f.is_const(RU.uncast(f, el["a"][1]))))
        if f.name.startswith("aws_cbor_decoder_pop_next_"):
            ok = len(dec) == 1 and len(stores) == 1 and stores[0][2] == unk
            if ok:
                def ng(ev_):
                    out = []
                    for c_, pol_, b_ in RU.guards(f, ev_, dom):
                        g_ = RU.cmp_norm(f, c_, pol_)
                        if g_:
                            out.append((f.show(RU.uncast(f, g_[0])), g_[1], f.is_const(RU.uncast(f, g_[2])) if g_[2] is not None else None))
                    return out
                gs = ng(dec[0])
                ok = any("error_code" in l and op == "==" and k in (None, 0) for l, op, k in gs) and any(l.endswith("cached_context.type") and op == "==" and k == unk for l, op, k in gs)
                e0 = [e for e in f.all_events() if e.blk == stores[0][0].id][0]
                g2 = ng(e0)
                ok = ok and any(l.endswith("cached_context.type") and op == "==" and k is not None and k != unk for l, op, k in g2)
            R.check(ok, "CACHE", "%s:decode-when-empty-clear-when-given" % f.name, "%s()" % f.name, "decodes only with an empty cache and no error; clears the cache exactly when the expected type is handed out")
        elif f.name == "aws_cbor_decoder_peek_type":
            R.check(len(dec) == 1 and not stores, "CACHE", "peek:does-not-consume", "%s()" % f.name, "peek decodes at most one element and never clears the cache")
        else:
            pk = f.calls("aws_cbor_decoder_peek_type")
            R.check(len(pk) == 1 and len(stores) == 1 and stores[0][2] == unk, "CACHE", "consume_single:peek-then-clear", "%s()" % f.name, "one element is brought into the cache and dropped")


def skip(R, P):
    f = P.fn("aws_cbor_decoder_consume_next_whole_data_item")
    if not R.require(f is not None, "whole-item skip not found"):
        return
    R.fn(f)
    dom = dominators(f)
    vals = {v: k[len("AWS_CBOR_TYPE_"):] for k, v in P.enums.items() if k.startswith("AWS_CBOR_TYPE_")}
    num = Num(f, P, None)
    loops = num.loops()
    rec = f.calls(f.name)
    case_of = {}
    # the case group each recursive call belongs to: nearest dominating case block(s)
    for e in rec:
        labs = set()
        work = [b.id for b in f.blocks.values() if b.case is not None and (b.id == e.blk or b.id in dom.get(e.blk, ()))]
        seen = set()
        preds = f.preds()
        while work:  # fall-through groups: case labels that reach the dominating one without statements
            y = work.pop()
            if y in seen:
                continue
            seen.add(y)
            labs.add(vals.get(f.blocks[y].case))
            for p_ in preds.get(y, []):
                P_ = f.blocks[p_]
                if P_.case is not None and not P_.elems and P_.succ == [y]:
                    work.append(p_)
        case_of[e] = labs
    by = {}
    for e, labs in case_of.items():
        by.setdefault(frozenset(labs), []).append(e)
    groups = {tuple(sorted(k)): v for k, v in by.items()}
    tag = [v for k, v in groups.items() if "TAG" in k]
    tag_loop = None
    if not tag:
        # the same thing written as a loop in front of the dispatch: while the cached element is a tag, drop it and decode the
        # next ELEMENT (one head each round, no item consumed); the item the tags belong to is then skipped by the dispatch
        tagv = P.enums.get("AWS_CBOR_TYPE_TAG")
        sw = [b.id for b in f.blocks.values() if b.term == "switch"]
        for h_, body_ in loops.items():
            g_ = RU.cmp_norm(f, f.blocks[h_].cond, True) if f.blocks[h_].cond is not None else None
            if not g_ or g_[1] != "==" or g_[2] is None or f.is_const(RU.uncast(f, g_[2])) != tagv or not f.show(RU.uncast(f, g_[0])).endswith("cached_context.type"):
                continue
            inb = [e for e in f.all_events() if e.kind == "call" and e.blk in body_ and (e.node.get("callee") or "") in ("s_cbor_decode_next_element", f.name)]
            if len(inb) == 1 and inb[0].node["callee"] == "s_cbor_decode_next_element" and sw and all(h_ in dom.get(x, ()) for x in sw):
                tag_loop = inb[0]
    if tag_loop is not None:
        R.ok("SKIP", "tag:one-further-item", where(f, tag_loop), "tags are dropped one head at a time in front of the dispatch, which then skips exactly one item")
    else:
        R.check(len(tag) == 1 and len(tag[0]) == 1 and not any(tag[0][0].blk in b for b in loops.values()), "SKIP", "tag:one-further-item", where(f, tag[0][0]) if tag else f.name, "a tag is followed by exactly one item")
    # how often a loop runs, whichever way it counts: `for (v = 0; v < N; v++)` or `for (v = N; v > 0; v--)` (v written
    # nowhere else in the loop); returns the node N (or a constant)
    def trip_count(header, body):
        g_ = RU.cmp_norm(f, f.blocks[header].cond, True) if f.blocks[header].cond is not None else None
        if not g_ or g_[2] is None:
            return None
        l_, r_ = RU.uncast(f, g_[0]), RU.uncast(f, g_[2])
        flip = {"<": ">", ">": "<", "!=": "!="}
        for v_, op_, o_ in ((l_, g_[1], r_), (r_, flip.get(g_[1]), l_)):
            if v_ is None or v_["k"] != "var" or op_ is None:
                continue
            steps = []
            for b_ in body | {header}:
                for el in f.blocks[b_].elems:
                    for x in f.walk(el):
                        tgt = f.d(x["a"][0]) if x.get("a") else None
                        if tgt is not None and tgt["k"] == "var" and tgt["n"] == v_["n"]:
                            if x["k"] == "un" and x["op"] in ("post++", "pre++"):
                                steps.append(1)
                            elif x["k"] == "un" and x["op"] in ("post--", "pre--"):
                                steps.append(-1)
                            elif x["k"] == "bin" and x["op"] in ("=", "+=", "-=", "*=", "/="):
                                steps.append(0)
            init = None
            for e_ in f.all_events():
                if e_.kind == "decl":
                    for vv in e_.node["vars"]:
                        if vv["n"] == v_["n"] and vv.get("init") is not None:
                            init = vv["init"]
            if init is None:
                for b_ in f.blocks.values():
                    if b_.id in body or b_.id == header:
                        continue
                    for el in b_.elems:
                        if el["k"] == "bin" and el["op"] == "=" and (f.d(el["a"][0]) or {}).get("k") == "var" and f.d(el["a"][0])["n"] == v_["n"]:
                            init = el["a"][1]
            if op_ == "<" and steps == [1] and init is not None and f.is_const(RU.uncast(f, init)) == 0:
                return o_
            if op_ in (">", "!=") and steps == [-1] and f.is_const(o_) == 0 and init is not None:
                return RU.uncast(f, init)
        return None

    def count_var(pop_fn, member):
        """the local that holds the element count: read from the cache member of its own type"""
        out = []
        for e_ in f.all_events():
            if e_.kind == "decl":
                for vv in e_.node["vars"]:
                    if vv.get("init") is not None and f.show(f.d(vv["init"])).endswith("u." + member):
                        out.append(vv["n"])
        return out

    def total_runs(ev):
        """product of the trip counts of the loops around ev, as (list of count nodes / constants)"""
        around = sorted([(h, b) for h, b in loops.items() if ev.blk in b], key=lambda hb: -len(hb[1]))
        return [trip_count(h, b) for h, b in around]

    def is_var(n_, names):
        for _ in range(5):
            n_ = RU.see_bound(f, RU.uncast(f, n_)) if n_ is not None else None
            if n_ is None or n_["k"] != "var":
                return False
            if n_["n"] in names:
                return True
            n_ = f.aliases().get(n_["n"])
        return False
    arr = [v for k, v in groups.items() if "ARRAY_START" in k]
    acnt, mcnt = count_var("array", "array_start"), count_var("map", "map_start")
    okA = len(arr) == 1 and len(arr[0]) == 1 and len(acnt) == 1
    if okA:
        tc = total_runs(arr[0][0])
        okA = len(tc) == 1 and tc[0] is not None and is_var(tc[0], acnt)
    R.check(okA, "SKIP", "array:n-items", where(f, arr[0][0]) if arr else f.name, "one item is skipped per element: the skip runs exactly <element count> times")
    mp = [v for k, v in groups.items() if "MAP_START" in k]
    okM = len(mp) == 1 and len(mcnt) == 1 and len(mp[0]) in (1, 2)
    if okM:
        tcs = [total_runs(e_) for e_ in mp[0]]
        if len(mp[0]) == 2:
            # key and value skipped one after the other inside one loop over the entries
            okM = all(len(t_) == 1 and t_[0] is not None and is_var(t_[0], mcnt) for t_ in tcs)
        else:
            # one skip inside a loop of two inside the loop over the entries
            t_ = tcs[0]
            okM = len(t_) == 2 and t_[0] is not None and t_[1] is not None and is_var(t_[0], mcnt) and f.is_const(RU.resolve(f, t_[1])) == 2
    R.check(okM, "SKIP", "map:two-items-per-entry", where(f, mp[0][0]) if mp else f.name, "key and value are skipped per entry: 2 x <entry count> items")
    R.check(len(acnt) == 1 and len(mcnt) == 1, "SKIP", "counts-from-own-member", "%s()" % f.name, "the counts are read from the member of their own type")
    ind = [(k, v) for k, v in groups.items() if any(x and x.startswith("INDEF") for x in k)]
    okI = len(ind) == 1 and len(ind[0][1]) == 1
    if okI:
        e = ind[0][1][0]
        body = [(h, b) for h, b in loops.items() if e.blk in b]
        okI = len(body) == 1
        if okI:
            # every consume is preceded by a peek of its own (typestate: the peeked type is fresh, not the one left from the
            # item before), runs only when that type is not BREAK, and the loop is left only on BREAK or with a failure -
            # whether written `peek; while (t != BREAK) { consume; peek }` or `for (;;) { peek; if (t == BREAK) break; consume }`
            region = set(body[0][1]) | {body[0][0]}
            pk = [p for p in f.calls("aws_cbor_decoder_peek_type")]

            def is_break_test(c_, p_, want):
                g_ = RU.cmp_norm(f, c_, p_)
                if not g_ or g_[2] is None or g_[1] != want:
                    return False
                sides = {f.show(RU.uncast(f, g_[0])), f.show(RU.uncast(f, g_[2]))}
                return "AWS_CBOR_TYPE_BREAK" in sides and any(argstr(f, p.node, 1) in sides for p in pk)
            ts_ = Typestate(f, "stale", lambda ev, st_: "fresh" if any(ev is p for p in pk) else ("stale" if ev is e else st_))
            okI = ts_.before.get(e.pos, set()) == {"fresh"}
            okI = okI and any(is_break_test(c_, p_, "!=") for c_, p_, b_ in RU.guards(f, e, dom))
            from sa.cfg import edges as _edges
            for b_ in sorted(region):
                for succ, cnd, pol in _edges(f, b_):
                    if succ in region or f.blocks[b_].noreturn:
                        continue
                    if cnd is not None and isinstance(pol, bool) and is_break_test(cnd, pol, "=="):
                        continue
                    # otherwise the way out must end in a failing return
                    seen_, work_, fails = set(), [succ], True
                    while work_:
                        x_ = work_.pop()
                        if x_ in seen_ or x_ in region:
                            continue
                        seen_.add(x_)
                        rr = [el for el in f.blocks[x_].elems if el["k"] == "ret"]
                        if rr:
                            v_ = RU.uncast(f, rr[0]["a"][0]) if rr[0].get("a") else None
                            if v_ is None or f.is_const(v_) == 0:
                                fails = False
                            continue
                        if len(f.blocks[x_].elems) > 3:
                            fails = False
                        work_.extend(s2 for s2, _, _ in _edges(f, x_))
                    okI = okI and fails and bool(seen_)
    R.check(okI and ind and {"INDEF_BYTES_START", "INDEF_TEXT_START", "INDEF_ARRAY_START", "INDEF_MAP_START"} <= set(ind[0][0]), "SKIP", "indefinite:break-tested-before-each-item", where(f, ind[0][1][0]) if ind else f.name,
            "peek, then while (next != BREAK) { consume; peek }: an empty indefinite container is skipped correctly",
            "the indefinite-length skip consumes an item before testing for the break (an empty container swallows the break and the following item)")
    # every nested failure is propagated, and the cache ends empty
    # decided on the return states (NUM): on a path that returns success, every nested call's last result is zero - whether
    # the failure is returned at once or carried to the return in a status variable (an expanded helper's result)
    bad = []
    nested = rec + f.calls("aws_cbor_decoder_peek_type") + f.calls("s_cbor_decode_next_element")
    numf = Num(f, P, C04.ParserHooks(), max_paths=20000)
    retn = [x for b in f.blocks.values() for x in b.elems if x["k"] == "ret"]
    try:
        rst = numf.states_at({r_["id"] for r_ in retn})
    except Limit as ex:
        R.broken(str(ex))
        rst = {}
    n_succ = 0
    for r_ in retn:
        for st in rst.get(r_["id"], []):
            rv = numf.val(r_["a"][0], st) if r_.get("a") else None
            if rv is None or not (entails(st, rv) and entails(st, -rv)):
                continue  # not a success return
            n_succ += 1
            for e in nested:
                v = st.vals.get(e.node["id"])
                if v is not None and not (entails(st, v) and entails(st, -v)) and e.line not in bad:
                    bad.append(e.line)
    R.require(n_succ >= 1 and len(nested) >= 3, "consume_next_whole_data_item: no success return state / nested calls not found (%d, %d)" % (n_succ, len(nested)))
    R.check(not bad, "SKIP", "failures-propagated", "%s()" % f.name, "every nested decode / skip / peek failure returns AWS_OP_ERR", "nested failures at lines %s are ignored" % bad)
    last = [r for r in f.returns() if r.node["a"] and f.is_const(RU.uncast(f, r.node["a"][0])) == 0]
    stores = [e for e in f.field_accesses(rec="aws_cbor_decoder_context", field="type", modes=("w",))]
    R.check(len(last) == 1 and any(s.blk == last[0].blk for s in stores), "SKIP", "cache-empty-after-skip", where(f, last[0]) if last else f.name, "the cache is reset right before the successful return")


def analyse(ctx, replace=None, only=None):
    R = ctx.R
    units = [u for u in library_units(ctx.ex.repo) if "external" not in u or "libcbor/cbor/encoding.c" in u or "libcbor/cbor/internal/encoders.c" in u]
    if only and "stream" in only:
        cbor_stream.stream_bounds(R, ctx.program(cbor_stream.UNITS, "ship", replace=replace))
        return
    P = ctx.program(units, "ship", replace=replace)
    if not R.require(P.fn("aws_cbor_encoder_write_float") is not None, "%s not analysed" % FILE):
        return
    widths = heads(R, P)
    room(R, P, widths)
    narrow(R, P)
    wiring(R, P)
    cache(R, P)
    skip(R, P)
    C04.wrappers(R, P)
    C04.recursion(R, P, P.functions_in(FILE), which=("self",))
    cbor_stream.stream_bounds(R, ctx.program(cbor_stream.UNITS, "ship", replace=replace))


MUTANTS = [dict(_m, scope={"stream": True}) for _m in cbor_stream.MUTANTS] + [
    {"name": "negative-infinity-written-as-positive", "file": "source/cbor.c", "expect": "NARROW", "old": "        aws_cbor_encoder_write_single_float(encoder, (float)value);\n        return;", "new": "        aws_cbor_encoder_write_single_float(encoder, isnan(value) ? NAN : INFINITY);\n        return;"},
    {"name": "float-range-guard-admits-2-pow-63", "file": FILE, "expect": "NARROW", "old": "    if (value < (double)INT64_MAX && value >= (double)INT64_MIN) {", "new": "    if (value <= (double)INT64_MAX && value >= (double)INT64_MIN) {"},
    {"name": "type-only-position-read-before-reserve", "file": FILE, "expect": "ROOM",
     "old": "    /* All inf start takes 1 byte only */\n    aws_byte_buf_reserve_smart_relative(&encoder->encoded_buf, 1);\n    size_t encoded_len = 0;\n    switch (type) {\n        case AWS_CBOR_TYPE_INDEF_BYTES_START:\n            encoded_len = cbor_encode_indef_bytestring_start(\n                s_get_encoder_current_position(encoder), s_get_encoder_remaining_len(encoder));",
     "new": "    uint8_t *position = s_get_encoder_current_position(encoder);\n    size_t remaining_len = s_get_encoder_remaining_len(encoder);\n    aws_byte_buf_reserve_smart_relative(&encoder->encoded_buf, 1);\n    size_t encoded_len = 0;\n    switch (type) {\n        case AWS_CBOR_TYPE_INDEF_BYTES_START:\n            encoded_len = cbor_encode_indef_bytestring_start(position, remaining_len);"},
    {"name": "head-not-shortest", "file": ENCS, "expect": "HEAD", "old": "    if (value <= UINT8_MAX)\n      return _cbor_encode_uint8(", "new": "    if (value < UINT8_MAX)\n      return _cbor_encode_uint8("},
    {"name": "head-written-without-room", "file": ENCS, "expect": "HEAD", "old": "  if (buffer_size >= 9) {", "new": "  if (buffer_size >= 8) {"},
    {"name": "text-has-bytes-major-type", "file": ENCODING, "expect": "HEAD", "old": "  return _cbor_encode_uint((size_t)length, buffer, buffer_size, 0x60);", "new": "  return _cbor_encode_uint((size_t)length, buffer, buffer_size, 0x40);"},
    {"name": "text-reserve-without-head", "file": FILE, "expect": "ROOM", "old": "    ENCODE_THROUGH_LIBCBOR(encoder, s_cbor_element_width_64bit + from.len, from.len, cbor_encode_string_start);", "new": "    ENCODE_THROUGH_LIBCBOR(encoder, from.len, from.len, cbor_encode_string_start);"},
    {"name": "double-reserves-single-width", "file": FILE, "expect": "ROOM", "old": "    ENCODE_THROUGH_LIBCBOR(encoder, s_cbor_element_width_64bit, value, cbor_encode_double);", "new": "    ENCODE_THROUGH_LIBCBOR(encoder, s_cbor_element_width_32bit, value, cbor_encode_double);"},
    {"name": "float-epsilon-compare", "file": FILE, "expect": "NARROW", "old": "        if (value == converted_value) {", "new": "        if (fabs(value - converted_value) <= DBL_EPSILON * fabs(value)) {"},
    {"name": "negint-off-by-one", "file": FILE, "expect": "NARROW", "old": "(uint64_t)(-1 - int_value)", "new": "(uint64_t)(-int_value)"},
    {"name": "definite-array-slot-crossed", "file": FILE, "expect": "WIRING", "old": "    .indef_array_start = s_inf_array_callback,", "new": "    .indef_array_start = s_array_start_callback,"},
    {"name": "pop-does-not-clear", "file": FILE, "expect": "CACHE", "old": "            (decoder)->cached_context.type = AWS_CBOR_TYPE_UNKNOWN;                                                    \\\n            *out = (decoder)->cached_context.u.field;", "new": "            *out = (decoder)->cached_context.u.field;"},
    {"name": "indef-skip-do-while", "file": FILE, "expect": "SKIP", "old": "            while (next_type != AWS_CBOR_TYPE_BREAK) {\n                if (aws_cbor_decoder_consume_next_whole_data_item(decoder)) {\n                    return AWS_OP_ERR;\n                }\n                if (aws_cbor_decoder_peek_type(decoder, &next_type)) {\n                    return AWS_OP_ERR;\n                }\n            }",
     "new": "            do {\n                if (aws_cbor_decoder_consume_next_whole_data_item(decoder)) {\n                    return AWS_OP_ERR;\n                }\n                if (aws_cbor_decoder_peek_type(decoder, &next_type)) {\n                    return AWS_OP_ERR;\n                }\n            } while (next_type != AWS_CBOR_TYPE_BREAK);"},
    {"name": "map-skips-keys-only", "file": FILE, "expect": "SKIP", "old": "                /* Value */\n                if (aws_cbor_decoder_consume_next_whole_data_item(decoder)) {\n                    return AWS_OP_ERR;\n                }\n", "new": ""},
]
for _m in MUTANTS:
    _m.setdefault("scope", None)
