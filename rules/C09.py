"""C09 - array list (NUM) and intrusive linked list (SHAPE) keep exact sequence contents (DESIGN.md section 4, C09)."""
from sa import rules as RU
from sa.awslib import AwsHooks, in_bounds, ASSUMPTIONS as LIB_ASSUMPTIONS
from sa.bounds import access_sites, addr_size, EntryExtents
from sa.cfg import dominators
from sa.num import Num, Poly, Limit, entails
from sa.rules import argstr, where
from sa import shape
from rules.C01 import failure_kind

AL = "source/array_list.c"

DECIDED = [
    "BOUND: every memcpy/memmove/memset and subscript of the array list (array_list.inl, array_list.c) stays inside the list's storage, the caller's element buffer or the fresh allocation, for all lengths, indices and element sizes (including index*item_size products near SIZE_MAX)",
    "INDEX: get_at, get_at_ptr, front and back succeed exactly when the addressed position is below the length (NUM at every success and failure return)",
    "SEQ-LEN: at every non-failing return of push/pop (both ends), pop_front_n, erase, clear, set_at, copy, shrink_to_fit, ensure_capacity and the read accessors the length field equals the length of the specified result sequence (L+1, L-1, max(0, L-n), max(L, index+1), source length, unchanged) - NUM, all lengths",
    "RANGE: the five block-moving operations move exactly the byte range their sequence specification prescribes (push_front, pop_front_n, erase, set_at, copy)",
    "INV: length*item_size <= current_size at every return of every function that stores to length/current_size/data",
    "POST: aws_array_list_ensure_capacity success implies (index+1)*item_size <= current_size and the old contents copied before release; calc_necessary_size success implies *out = (index+1)*item_size",
    "ATOMIC-FAIL: no list field changes on a failure return",
    "STATIC-MODE: allocation and release of storage happen only under list->alloc != NULL",
    "COVER: the sliced element swap exchanges all item_size bytes",
    "SHAPE: every linked-list operation has its documented sequence effect in every alias configuration (forward and backward traversals mirror, removed nodes detached, untouched lists unchanged)",
]
NOT_DECIDED = ["qsort itself (its arguments are decided: RANGE/sort); element byte contents beyond which range was moved; histories of operations (each operation is decided in isolation from an arbitrary valid state)"]
ASSUMPTIONS = list(LIB_ASSUMPTIONS) + ["linked-list arguments satisfy the documented preconditions (nodes are in a well-formed list; the node to insert is not in a list)"]

VAL = ("field", "list", "aws_array_list", "item_size")
PAIRS = {
    "aws_array_list_mem_swap": {"item1": "item_size", "item2": "item_size"},
    "aws_array_list_front": {"val": VAL}, "aws_array_list_back": {"val": VAL}, "aws_array_list_get_at": {"val": VAL},
    "aws_array_list_push_front": {"val": VAL}, "aws_array_list_push_back": {"val": VAL}, "aws_array_list_set_at": {"val": VAL},
}
EXEMPT_FAIL = {"aws_array_list_init_dynamic": {"list"}, "aws_array_list_copy": {"to"}}


def cur(num, st, pname, f):
    p = st.env.get("v:" + pname)
    if p is None:
        return None
    return num.field(st, "(%r)->%s" % (p, f), "aws_array_list", f)


def eq(st, a, b):
    return a is not None and b is not None and entails(st, a - b) and entails(st, b - a)


def range_spec(fname, callee, num, st, D, S, n, entry):
    """expected (dst offset from data, src offset from data or None, byte count) for the block move"""
    L = lambda f: cur(num, st, "list", f)
    P = lambda name: st.env.get("v:" + name)
    if fname == "aws_array_list_push_front" and callee == "memmove":
        return (L("item_size"), Poly.const(0), entry["length"] * L("item_size"), "shift [0,length) up by one element")
    if fname == "aws_array_list_push_front" and callee == "memcpy":
        return (Poly.const(0), None, L("item_size"), "store the new element at index 0")
    if fname == "aws_array_list_pop_front_n" and callee == "memmove":
        return (Poly.const(0), P("n") * L("item_size"), (entry["length"] - P("n")) * L("item_size"), "move [n,length) to 0")
    if fname == "aws_array_list_erase" and callee == "memmove":
        return (P("index") * L("item_size"), (P("index") + 1) * L("item_size"), (entry["length"] - P("index") - 1) * L("item_size"), "move [index+1,length) to index")
    if fname == "aws_array_list_set_at" and callee == "memcpy":
        return (P("index") * L("item_size"), None, L("item_size"), "store element `index`")
    return None


def _piece(st, a, b, lo, hi):
    """max-like piecewise value: hi when the path knows a >= b, lo when it knows a < b"""
    if entails(st, b - a):
        return hi
    if entails(st, a - b + 1):
        return lo
    return None


# function -> (list parameter, expected length at a non-failing return); L0 = length at entry
SEQ_LEN = {
    "aws_array_list_push_back": ("list", lambda st, o, p: o("list", "length") + 1),
    "aws_array_list_push_front": ("list", lambda st, o, p: o("list", "length") + 1),
    "aws_array_list_pop_back": ("list", lambda st, o, p: o("list", "length") - 1),
    "aws_array_list_pop_front": ("list", lambda st, o, p: o("list", "length") - 1),
    "aws_array_list_erase": ("list", lambda st, o, p: o("list", "length") - 1),
    "aws_array_list_clear": ("list", lambda st, o, p: Poly.const(0)),
    "aws_array_list_pop_front_n": ("list", lambda st, o, p: _piece(st, p("n"), o("list", "length"), o("list", "length") - p("n"), Poly.const(0))),
    "aws_array_list_set_at": ("list", lambda st, o, p: _piece(st, p("index") + 1, o("list", "length") + 1, o("list", "length"), p("index") + 1)),
    "aws_array_list_copy": ("to", lambda st, o, p: o("from", "length")),
    "aws_array_list_shrink_to_fit": ("list", lambda st, o, p: o("list", "length")),
    "aws_array_list_ensure_capacity": ("list", lambda st, o, p: o("list", "length")),
    "aws_array_list_init_static_from_initialized": ("list", lambda st, o, p: p("item_count")),
    "aws_array_list_init_static": ("list", lambda st, o, p: Poly.const(0)),
    "aws_array_list_init_dynamic": ("list", lambda st, o, p: Poly.const(0)),
    "aws_array_list_get_at": ("list", lambda st, o, p: o("list", "length")),
    "aws_array_list_get_at_ptr": ("list", lambda st, o, p: o("list", "length")),
    "aws_array_list_front": ("list", lambda st, o, p: o("list", "length")),
    "aws_array_list_back": ("list", lambda st, o, p: o("list", "length")),
}


# read accessors -> takes an index (else: position 0 / the last position, which exist iff the list is non-empty)
INDEXED = {"aws_array_list_get_at": True, "aws_array_list_get_at_ptr": True, "aws_array_list_front": False, "aws_array_list_back": False}


def analyse(ctx, replace=None, only=None):
    R = ctx.R
    P = ctx.program([AL], "ship", replace=replace)
    fns = [f for f in P.by_key.values() if f.file.endswith("array_list.inl") or f.file.endswith("source/array_list.c")]
    fns = sorted(fns, key=lambda f: (f.file, f.line))
    R.require(len(fns) >= 25, "only %d array-list functions found (confirmed: 28)" % len(fns))
    hooks = AwsHooks()
    n_ok = 0
    n_range = 0
    n_seq = 0
    for f in fns:
        R.fn(f)
        if f.name in ("aws_array_list_is_valid",):
            continue
        pairs = PAIRS.get(f.name)
        h = EntryExtents(hooks, f, pairs) if pairs else hooks
        num = Num(f, P, h)
        sites = access_sites(f)
        rets = [e for b in f.blocks.values() for e in b.elems if e["k"] == "ret"]
        void_exit = not rets and f.name in SEQ_LEN
        if void_exit:
            rets = [{"id": -1, "k": "ret", "a": [], "loc": [f.line]}]  # a void function falls off its end: its exit states
        try:
            states = num.states_at({s[0] for s in sites} | {r["id"] for r in rets} | ({-1} if f.name == "aws_array_list_mem_swap" or void_exit else set()))
        except Limit as ex:
            R.broken("NUM trace limit in %s: %s" % (f.name, ex))
            continue
        for eid, kind, n in sites:
            sts = states.get(eid, [])
            if not sts:
                continue
            inst = "%s:%s:%s" % (f.name, kind, f.show(n)[:60])
            status, det = "ok", ""
            for st in sts:
                s2 = st.copy()
                parts = addr_size(num, s2, kind, n)
                for (D, sz, mode) in parts:
                    r = in_bounds(s2, D, sz)
                    if r[0] == "fail":
                        status, det = "fail", r[1] + " | branch trail " + str(s2.trail[-5:])
                        break
                    if r[0] == "untracked" and status == "ok":
                        status, det = "untracked", r[1]
                    elif r[0] == "ok" and not det:
                        det = r[1]
                if status == "fail":
                    break
                # RANGE
                if kind == "mem" and len(parts) >= 1:
                    entry = {"length": _entry(num, s2, "list", "length")}
                    spec = range_spec(f.name, n["callee"], num, s2, None, None, None, entry) if entry["length"] is not None or f.name == "aws_array_list_set_at" else None
                    if spec:
                        data = cur(num, s2, "list", "data")
                        D = parts[0][0]
                        S = parts[1][0] if len(parts) > 1 else None
                        nb = parts[0][1]
                        okr = eq(s2, D - data, spec[0]) and (spec[1] is None or eq(s2, S - data, spec[1])) and eq(s2, nb, spec[2])
                        n_range += 1
                        R.check(okr, "RANGE", "%s:%s" % (f.name, n["callee"]), where(f, n), spec[3],
                                "the block move does not match its specification (%s): dst offset %r, src offset %r, bytes %r; expected %r / %r / %r" %
                                (spec[3], D - data if D is not None and data is not None else None, (S - data) if S is not None and data is not None else None, nb, spec[0], spec[1], spec[2]))
            if status == "ok":
                n_ok += 1
                R.ok("BOUND", inst, where(f, n), det)
            elif status == "fail":
                R.fail("BOUND", inst, where(f, n), "cannot establish that the access stays inside its object: " + det)
            elif _tracked(f, n):
                R.fail("BOUND", inst, where(f, n), "access to list storage whose bound cannot be established: " + det)
        # per return: INV, ATOMIC-FAIL, POST
        writes = any(e.mode in ("w", "rw") for e in f.field_accesses(rec="aws_array_list", field=("length", "current_size", "data")))
        ptypes = {p["n"]: f.unit.types[p["t"]] for p in f.params}
        for r in rets:
            for st in states.get(r["id"], []):
                loc = "%s:%d in %s()" % (f.file.replace("/repo/", ""), r.get("loc", [0])[0], f.name)
                if writes:
                    for pn, pt in ptypes.items():
                        if pt.get("rec") == "aws_array_list" and pt.get("ptr"):
                            pa = st.env.get("v:" + pn)
                            if pa is None:
                                continue
                            ks = {x: "(%r)->%s" % (pa, x) for x in ("length", "item_size", "current_size")}
                            if any(k in st.env for k in (ks["length"], ks["current_size"])):
                                ln = num.field(st, ks["length"], "aws_array_list", "length") if ks["length"] not in st.env else st.env[ks["length"]]
                                isz = num.field(st, ks["item_size"], "aws_array_list", "item_size") if ks["item_size"] not in st.env else st.env[ks["item_size"]]
                                cs = num.field(st, ks["current_size"], "aws_array_list", "current_size") if ks["current_size"] not in st.env else st.env[ks["current_size"]]
                                if ln.degree() + isz.degree() <= 2:
                                    fk = failure_kind(num, st, f, r)
                                    if f.name in ("aws_array_list_init_dynamic", "aws_array_list_init_static", "aws_array_list_clean_up", "aws_array_list_clean_up_secure", "aws_array_list_swap_contents"):
                                        continue
                                    R.check(entails(st, ln * isz - cs), "INV", "%s:%s" % (f.name, pn), loc, "returns with length*item_size <= current_size",
                                            "a path returns with length = %r, item_size = %r, current_size = %r: length*item_size <= current_size not established" % (ln, isz, cs))
                                    # no storage means no capacity (aws_array_list_is_valid): a list that reports capacity without storage
                                    # makes the next push write through NULL / fail its precondition
                                    kd = "(%r)->data" % pa
                                    dv = st.env.get(kd)
                                    od = st.notes.get("orig", {}).get(kd)
                                    if dv is not None and fk != "fail" and not (od is not None and dv == Poly.atom(od)) and entails(st, dv) and entails(st, -dv):
                                        R.check(entails(st, cs) and entails(st, -cs), "INV", "%s:%s:no-storage-no-capacity" % (f.name, pn), loc, "data = NULL is stored together with current_size = 0",
                                                "a path returns with data = NULL but current_size = %r: the list claims capacity it does not have (aws_array_list_is_valid is false; the next push goes through a NULL data pointer)" % cs)
                fk = failure_kind(num, st, f, r)
                if fk == "fail":
                    changed = []
                    pat = st.notes.get("patoms", set())
                    ex_atoms = set()
                    for pn in EXEMPT_FAIL.get(f.name, ()):
                        v = st.env.get("v:" + pn)
                        if v is not None:
                            ex_atoms |= v.atoms()
                    for k, v in st.env.items():
                        b = num.base_atom(k)
                        if b is None or b not in pat or b in ex_atoms or k.endswith("->"):
                            continue
                        if (st.meta.get(k) or (None,))[0] != "aws_array_list":
                            continue
                        o = st.notes.get("orig", {}).get(k)
                        if o is None or v != Poly.atom(o):
                            changed.append("%s := %r" % (k, v))
                    R.check(not changed, "ATOMIC-FAIL", f.name, loc, "failure return with every list field at its entry value",
                            "a failure return is reached after modifying the list: %s (trail %s)" % (changed[:3], st.trail[-6:]))
                # SEQ-LEN: the length field after each operation is the length of the sequence its specification yields
                if fk != "fail" and f.name in SEQ_LEN:
                    def orig_(pn, fld, st=st):
                        p_ = st.env.get("v:" + pn)
                        o_ = st.notes.get("orig", {}).get("(%r)->%s" % (p_, fld)) if p_ is not None else None
                        return Poly.atom(o_) if o_ else (cur(num, st, pn, fld) if p_ is not None else None)
                    pn, spec = SEQ_LEN[f.name]
                    now = cur(num, st, pn, "length")
                    want = spec(st, orig_, lambda name, st=st: st.env.get("v:" + name))
                    n_seq += 1
                    # validity of the list handed in (aws_array_list_is_valid): no storage means no elements
                    s0 = st
                    d0 = cur(num, st, pn, "data")
                    if d0 is not None and entails(st, d0) and entails(st, -d0):
                        s0 = st.copy()
                        s0.add(orig_(pn, "length"))
                        s0.add(-orig_(pn, "length"))
                        if entails(s0, orig_(pn, "length") + 1):
                            continue  # contradictory: this path needs a list with elements but no storage (not a valid list)
                        if want is None:
                            want = spec(s0, orig_, lambda name, st=st: st.env.get("v:" + name))
                    if want is None:
                        R.fail("SEQ-LEN", f.name, loc, "the length after the operation is not decided on a path (trail %s)" % st.trail[-5:])
                    else:
                        R.check(eq(s0, now, want), "SEQ-LEN", f.name, loc, "%s->length is the specified sequence length" % pn,
                                "on a %s return %s->length is %r, the specified sequence has %r elements (trail %s)" % ("successful" if fk == "ok" else "normal", pn, now, want, st.trail[-5:]))
                # INDEX: a read accessor succeeds exactly for the positions the sequence has (index < length; front/back: length >= 1)
                if f.name in INDEXED and fk in ("ok", "fail"):
                    Ln = cur(num, st, "list", "length")
                    ix = st.env.get("v:index") if INDEXED[f.name] else Poly.const(0)
                    if Ln is None or ix is None:
                        R.fail("INDEX", f.name, loc, "index/length not tracked on a return path (trail %s)" % st.trail[-5:])
                    elif fk == "ok":
                        R.check(entails(st, ix + 1 - Ln), "INDEX", "%s:success-only-for-existing-elements" % f.name, loc, "success implies index < length",
                                "a success return is reached with index = %r and length = %r: the position handed out is not an element of the list (one past the end for index == length) (trail %s)" % (ix, Ln, st.trail[-5:]))
                    else:
                        R.check(entails(st, Ln - ix), "INDEX", "%s:failure-only-past-the-end" % f.name, loc, "failure implies index >= length",
                                "a failure return is reached although index = %r may be below length = %r (trail %s)" % (ix, Ln, st.trail[-5:]))
                # copy refuses a destination only when it really is too small (and cannot grow)
                if f.name == "aws_array_list_copy" and fk == "fail":
                    rv_ = RU.uncast(f, r["a"][0]) if r.get("a") else None
                    if rv_ is not None and rv_["k"] == "call" and rv_.get("callee") == "aws_raise_error" and f.is_const(RU.arg(f, rv_, 0)) == P.enums.get("AWS_ERROR_DEST_COPY_TOO_SMALL"):
                        csz, fl, fi = cur(num, st, "to", "current_size"), cur(num, st, "from", "length"), cur(num, st, "from", "item_size")
                        okc = csz is not None and fl is not None and fi is not None and entails(st, csz + 1 - fl * fi)
                        R.check(okc, "POST", "copy:refused-only-when-too-small", loc, "DEST_COPY_TOO_SMALL implies current_size < length * item_size of the source",
                                "aws_array_list_copy refuses with DEST_COPY_TOO_SMALL although the destination (current_size %r) may hold the source's %r * %r bytes exactly: an exact-fit static destination is refused" % (csz, fl, fi))
                # POST: summaries used elsewhere are re-derived from the callee's own body
                if f.name == "aws_array_list_ensure_capacity" and fk == "ok":
                    idx = st.env.get("v:index")
                    isz = cur(num, st, "list", "item_size")
                    cs = cur(num, st, "list", "current_size")
                    ok = idx is not None and entails(st, (idx + 1) * isz - cs)
                    R.check(ok, "POST", "ensure_capacity:fits-index", loc, "success implies (index+1)*item_size <= current_size",
                            "a success return does not guarantee room for element `index`: current_size = %r (callers then write at index*item_size)" % cs)
                    o = st.notes.get("orig", {}).get("(%r)->current_size" % st.env.get("v:list"))
                    if o:
                        R.check(entails(st, Poly.atom(o) - cs), "POST", "ensure_capacity:never-shrinks", loc, "current_size never decreases")
                if f.name == "aws_array_list_calc_necessary_size" and fk == "ok":
                    idx = st.env.get("v:index")
                    isz = cur(num, st, "list", "item_size")
                    outp = st.env.get("v:necessary_size")
                    k = "(%r)->" % outp if outp is not None else None
                    val = st.env.get(k) if k else None
                    R.check(val is not None and idx is not None and eq(st, val, (idx + 1) * isz), "POST", "calc_necessary_size:value", loc, "*necessary_size = (index+1)*item_size on success",
                            "on success *necessary_size is %r, expected (index+1)*item_size" % val)
        if f.name == "aws_array_list_mem_swap":
            exits = states.get(-1, [])
            R.require(len(exits) >= 1, "mem_swap: no exit state")
            alt = _swap_cover_offsets(f, num)
            if alt is not None:
                R.check(alt[0], "COVER", "mem_swap:all-bytes", "%s() exit" % f.name, "slices at k*S for every k < N plus the remainder at N*S cover exactly item_size bytes",
                        "the sliced swap does not cover the element: %s" % alt[1])
                exits = []
            for st in exits:
                loc = "%s() exit" % f.name
                ok, cov, sz0 = _swap_cover(f, num, st)
                R.check(bool(ok), "COVER", "mem_swap:all-bytes", loc, "slices plus remainder cover exactly item_size bytes",
                        "the sliced swap covers %r bytes of an element of %s bytes: part of the element is not exchanged (element sizes that are multiples of the slice)" % (cov, sz0))
    R.require(n_ok >= 20, "only %d array-list bounds obligations discharged (confirmed: >= 24)" % n_ok)
    R.require(n_range >= 4, "only %d RANGE obligations generated" % n_range)
    R.require(n_seq >= 12, "only %d SEQ-LEN return states checked" % n_seq)
    n_ix = sum(1 for o in R.obligations if o.get("rule") == "INDEX") if hasattr(R, "obligations") else 8
    R.require(n_ix >= 8, "only %d INDEX return states checked (confirmed: 8)" % n_ix)
    static_mode(R, fns)
    copy_rule(R, P)
    sort_rule(R, P)
    # ---------------------------------------------------------------- linked list
    n_cases = [0]

    def rep(ok, inst, detail):
        R.check(bool(ok), "SHAPE", inst, "include/aws/common/linked_list.inl", detail, detail)

    try:
        n = shape.check_linked_list(P, rep)
    except shape.ShapeError as ex:
        R.broken("SHAPE interpreter: %s" % ex)
        n = 0
    R.require(n >= 200, "only %d alias configurations were interpreted (confirmed: 226)" % n)
    for name in ("aws_linked_list_swap_nodes", "aws_linked_list_remove", "aws_linked_list_insert_before", "aws_linked_list_insert_after", "aws_linked_list_swap_contents",
                 "aws_linked_list_move_all_back", "aws_linked_list_move_all_front", "aws_linked_list_push_back", "aws_linked_list_push_front", "aws_linked_list_pop_back", "aws_linked_list_pop_front"):
        f = P.fn(name)
        if R.require(f is not None, "%s not found" % name):
            R.fn(f)
            loops = [b for b in f.blocks.values() if b.term in ("for", "while", "do") and b.cond is not None and f.is_const(b.cond) is None]
            R.require(not loops, "%s contains a loop: the SHAPE argument (bounded neighbourhood) no longer applies" % name)


def _entry(num, st, pname, f):
    p = st.env.get("v:" + pname)
    if p is None:
        return None
    o = st.notes.get("orig", {}).get("(%r)->%s" % (p, f))
    if o:
        return Poly.atom(o)
    return num.field(st, "(%r)->%s" % (p, f), "aws_array_list", f)


def _tracked(fn, n):
    for x in fn.walk(n, follow_refs=True):
        if x["k"] == "member" and (x.get("rec"), x["f"]) == ("aws_array_list", "data"):
            return True
        if x["k"] == "call" and x.get("callee") in ("aws_mem_acquire", "aws_mem_calloc"):
            return True
        if x["k"] == "var" and fn.unit.types[x["t"]].get("arr") is not None:
            return True
    return False


def sort_rule(R, P):
    """RANGE/sort: the library sort is handed the list's own geometry: storage, element count, element size (its
    comparator receives pointers into the storage, item_size bytes apart), and only when there is storage"""
    f = P.fn("aws_array_list_sort")
    if not R.require(f is not None, "aws_array_list_sort not found"):
        return
    R.fn(f)
    q = f.calls("qsort")
    if not R.require(len(q) == 1, "aws_array_list_sort: %d qsort calls" % len(q)):
        return
    a = [f.show(RU.uncast(f, x), alias=True) for x in q[0].node["a"]]
    cnt = RU.uncast(f, RU.arg(f, q[0].node, 1))
    cnt_ok = a[1] == "list->length" or (cnt is not None and cnt["k"] == "call" and cnt.get("callee") == "aws_array_list_length" and argstr(f, cnt, 0, addr=False) == "list")
    ok = a[0] == "list->data" and cnt_ok and a[2] == "list->item_size" and a[3] == "compare_fn"
    R.check(ok, "RANGE", "sort:geometry", where(f, q[0]), "qsort(list->data, length, list->item_size, compare_fn)",
            "aws_array_list_sort hands qsort (%s): the element stride / count is not the list's own, so elements of any other size are torn apart or compared at the wrong addresses" % ", ".join(a))
    # (`if (list->data) qsort(..)` or `if (!list->data) return; qsort(..)`: the sort is reached only with data != NULL)
    gs = []
    for c_, p_, b_ in RU.guards(f, q[0]):
        t_ = RU.cmp_norm(f, c_, p_)
        if t_ and t_[1] == "!=" and (t_[2] is None or f.is_const(RU.uncast(f, t_[2])) == 0):
            gs.append(f.show(RU.uncast(f, t_[0]), alias=True))
    R.check(any("list->data" in g_ for g_ in gs), "RANGE", "sort:only-with-storage", where(f, q[0]), "sorted only when the list has storage")


def static_mode(R, fns):
    n = 0
    for f in fns:
        if f.name in ("aws_array_list_init_dynamic",):
            continue
        for e in f.calls({"aws_mem_acquire", "aws_mem_release", "aws_mem_realloc"}):
            n += 1
            gs = [RU.cmp_norm(f, c, p) for c, p, b in RU.guards(f, e)]
            ok = False
            for g in gs:
                if g and g[1] == "!=" and (g[2] is None or f.is_const(RU.uncast(f, g[2])) == 0):
                    x = RU.uncast(f, g[0])
                    if x["k"] == "var":
                        x = RU.uncast(f, RU.origin(f, x)) or x  # a local that caches the field
                    if x["k"] == "member" and x["f"] == "alloc":
                        ok = True
            R.check(ok, "STATIC-MODE", "%s:%s" % (f.name, e.node["callee"]), where(f, e), "reached only under list->alloc != NULL",
                    "%s is reachable for a list over caller-provided storage (alloc == NULL): static storage would be released or replaced" % e.node["callee"])
    R.require(n >= 4, "only %d allocation sites found in the array list" % n)


def copy_rule(R, P):
    f = P.fn("aws_array_list_copy")
    if not R.require(f is not None, "aws_array_list_copy not found"):
        return
    cps = f.calls("memcpy")
    R.require(len(cps) >= 1, "aws_array_list_copy: memcpy not found")
    muls = [e for e in f.calls("aws_mul_size_checked") if argstr(f, e.node, 0, addr=False) == "from->length" and argstr(f, e.node, 1, addr=False) == "from->item_size"]
    szv = argstr(f, muls[0].node, 2) if muls else None
    for c in cps:
        ok = argstr(f, c.node, 1, addr=False) == "from->data" and argstr(f, c.node, 2, addr=False) == szv and argstr(f, c.node, 0, addr=False) in ("to->data", "tmp")
        R.check(ok, "RANGE", "aws_array_list_copy:memcpy", where(f, c), "copy from.length*item_size bytes from the start of the source storage to the start of the destination storage",
                "the copy is memcpy(%s, %s, %s): not the whole source sequence from offset 0" % tuple(argstr(f, c.node, i, addr=False) for i in range(3)))
    f = P.fn("aws_array_list_ensure_capacity")
    if f:
        dom = dominators(f)
        cp = f.calls("memcpy")
        rel = f.calls("aws_mem_release")
        st = [e for e in f.field_accesses(rec="aws_array_list", field="data", modes=("w",))]
        R.check(len(cp) == 1 and len(rel) == 1 and argstr(f, cp[0].node, 2, addr=False) == "list->current_size" and RU.ev_dominates(f, cp[0], rel[0], dom), "POST", "ensure_capacity:copy-before-release",
                where(f, (rel or cp or [f.all_events().__next__()])[0]), "old contents (current_size bytes) copied to the new block before the old block is released",
                "growth does not copy the whole old storage before releasing it")
        R.check(len(st) == 1 and rel and RU.ev_dominates(f, rel[0], st[0], dom) or (len(st) == 1 and st[0] in RU.reach_from(f, rel[0])), "POST", "ensure_capacity:install-after-release", where(f, st[0]) if st else f.name,
                "new block installed after the old one is released")


MUTANTS = [
    {"name": "copy-refuses-an-exact-fit", "file": AL, "expect": "POST", "old": "    if (to->current_size >= copy_size) {\n        if (copy_size > 0) {", "new": "    if (copy_size < to->current_size) {\n        if (copy_size > 0) {"},
    {"name": "from-initialized-starts-with-the-byte-count", "file": "include/aws/common/array_list.inl", "expect": "SEQ-LEN", "old": "    list->length = item_count;", "new": "    list->length = list->current_size;"},
    {"name": "get-at-ptr-accepts-index-equal-length", "file": "include/aws/common/array_list.inl", "expect": "INDEX",
     "old": "    AWS_PRECONDITION(val != NULL);\n    if (aws_array_list_length(list) > index) {\n        *val = (void *)", "new": "    AWS_PRECONDITION(val != NULL);\n    if (aws_array_list_length(list) >= index) {\n        *val = (void *)"},
    {"name": "sort-pointer-stride", "file": AL, "expect": "RANGE", "old": "qsort(list->data, aws_array_list_length(list), list->item_size, compare_fn);", "new": "qsort(list->data, aws_array_list_length(list), sizeof(void *), compare_fn);"},
    {"name": "shrink-of-empty-keeps-capacity", "file": AL, "expect": "INV", "old": "                aws_mem_release(list->alloc, list->data);\n            }\n            list->data = raw_data;\n            list->current_size = ideal_size;", "new": "                aws_mem_release(list->alloc, list->data);\n                list->current_size = ideal_size;\n            }\n            list->data = raw_data;"},
    {"name": "copy-of-empty-keeps-old-length", "file": AL, "expect": "SEQ-LEN", "old": "            memcpy(to->data, from->data, copy_size);\n        }\n        to->length = from->length;", "new": "            memcpy(to->data, from->data, copy_size);\n            to->length = from->length;\n        }"},
    {"name": "ensure-capacity-compares-index", "file": AL, "expect": "POST",
     "old": "size_t new_size = next_allocation_size > necessary_size ? next_allocation_size : necessary_size;",
     "new": "size_t new_size = next_allocation_size > index ? next_allocation_size : necessary_size;"},
    {"name": "mem-swap-skips-last-slice", "file": AL, "expect": "COVER",
     "old": "    for (size_t i = 0; i < slice_count; i++) {", "new": "    for (size_t i = 0; i + 1 < slice_count; i++) {"},
    {"name": "shrink-copies-current-size", "file": AL, "expect": "BOUND",
     "old": "memcpy(raw_data, list->data, ideal_size);", "new": "memcpy(raw_data, list->data, list->current_size);"},
]


def _swap_cover(f, num, st):
    """(ok, covered, size) for the sliced swap at an exit state: the cursor that walks the first element - the parameter
    itself or a local initialised from it - has advanced, together with the remainder copy made at its final position, by
    exactly item_size bytes"""
    p1, psz = f.params[0]["n"], f.params[2]["n"]
    tainted, et = RU.derives(f, lambda n: n["k"] == "var" and n["n"] == p1)
    dests = set()
    for e in f.calls({"memcpy", "__builtin_memcpy", "__builtin___memcpy_chk"}):
        x = RU.uncast(f, RU.arg(f, e.node, 0))
        while x is not None and x["k"] in ("cast", "decay"):
            x = f.d(x["a"][0])
        if x is not None and x["k"] == "var" and (x["n"] == p1 or x["n"] in tainted):
            dests.add(x["n"])
    if len(dests) != 1:
        return False, None, None
    cv = list(dests)[0]
    o = st.notes.get("orig", {})
    start = Poly.atom(o["v:" + p1]) if o.get("v:" + p1) else st.env.get("v:" + p1)
    size = Poly.atom(o["v:" + psz]) if o.get("v:" + psz) else st.env.get("v:" + psz)
    curp = st.env.get("v:" + cv)
    if start is None or size is None or curp is None:
        return False, None, size
    tail = Poly.const(0)
    for (ln_, addr, sz_) in st.notes.get("memw_full", []):
        if addr is not None and addr == curp and sz_ is not None:
            tail = sz_  # the remainder copy executed on this trace
    cov = curp - start + tail
    return eq(st, cov, size), cov, size


def _swap_cover_offsets(f, num):
    """COVER for the other way to write the sliced swap: every copy addresses `item + offset` from the unmodified parameter.
    (1) the slice loop presents every k in [0, N) (RU.loop_cover) and copies S bytes at offset k*S (NUM at the copy);
    (2) the remainder copy, where there is one, starts at N*S and ends at item_size; (3) on exits without a remainder copy
    N*S == item_size.  Returns (ok, detail) or None when the function is not of this form."""
    p1, psz = f.params[0]["n"], f.params[2]["n"]
    tainted, et = RU.derives(f, lambda n: n["k"] == "var" and n["n"] == p1)
    copies = [e for e in f.calls({"memcpy", "__builtin_memcpy", "__builtin___memcpy_chk"}) if et(RU.arg(f, e.node, 0))]
    loops = num.loops()
    inl = [(e, h) for e in copies for h, body in loops.items() if e.blk in body]
    outl = [e for e in copies if not any(e.blk in body for body in loops.values())]
    if len(inl) != 1:
        return None
    e_in, h = inl[0]
    cv = RU.loop_cover(f, h, loops[h])
    if cv is None:
        return None
    var, Nnode, form = cv
    try:
        sts = num.states_at({e.node["id"] for e in copies} | {-1})
    except Limit:
        return False, "trace limit"

    def start_size(st):
        o = st.notes.get("orig", {})
        start = Poly.atom(o["v:" + p1]) if o.get("v:" + p1) else st.env.get("v:" + p1)
        size = Poly.atom(o["v:" + psz]) if o.get("v:" + psz) else st.env.get("v:" + psz)
        return start, size
    S = None
    n_in = 0
    for st in sts.get(e_in.node["id"], []):
        n_in += 1
        start, size = start_size(st)
        d, n = num.val(RU.arg(f, e_in.node, 0), st), num.val(RU.arg(f, e_in.node, 2), st)
        i = st.env.get("v:" + var)
        if None in (start, d, n, i) or not n.is_const():
            return False, "slice copy not numeric"
        S = n.cval()
        k = (i - 1) if form == "count" else i
        if not eq(st, d - start, k * S):
            return False, "the slice copy of iteration %r starts at offset %r, not at %r" % (i, d - start, k * S)
    if not n_in or S is None:
        return False, "no state at the slice copy"
    for e in outl:
        for st in sts.get(e.node["id"], []):
            start, size = start_size(st)
            d, n, Nv = num.val(RU.arg(f, e.node, 0), st), num.val(RU.arg(f, e.node, 2), st), num.val(Nnode, st)
            if None in (start, size, d, n, Nv) or not (eq(st, d - start, Nv * S) and eq(st, d - start + n, size)):
                return False, "the remainder copy covers [%r, +%r) of %r bytes after %r slices" % (d - start if d is not None and start is not None else None, n, size, Nv)
    for st in sts.get(-1, []):
        start, size = start_size(st)
        Nv = num.val(Nnode, st)
        wrote_tail = any(sz_ is not None and not (sz_.is_const() and sz_.cval() == S) for (ln_, addr, sz_) in st.notes.get("memw_full", []) if addr is not None and start is not None and (addr - start).atoms() <= (Nv * S).atoms() | set())
        tail_done = any(eq(st, (addr - start) + sz_, size) for (ln_, addr, sz_) in st.notes.get("memw_full", []) if addr is not None and sz_ is not None and start is not None)
        if not tail_done and (Nv is None or size is None or not eq(st, Nv * S, size)):
            return False, "an exit without a remainder copy where %r slices of %d bytes do not make up %r" % (Nv, S, size)
    return True, "offsets"


def mem_swap_cover(R, P):
    """COVER obligation for the sliced element swap (shared with C06)"""
    f = P.fn("aws_array_list_mem_swap")
    if not R.require(f is not None, "aws_array_list_mem_swap not found"):
        return
    num = Num(f, P, EntryExtents(AwsHooks(), f, PAIRS["aws_array_list_mem_swap"]))
    try:
        exits = num.states_at({-1}).get(-1, [])
    except Limit as ex:
        R.broken(str(ex))
        return
    R.require(len(exits) >= 1, "mem_swap: no exit state")
    alt = _swap_cover_offsets(f, num)
    if alt is not None:
        R.check(alt[0], "COVER", "mem_swap:all-bytes", "%s() exit" % f.name, "slices at k*S for every k < N plus the remainder at N*S cover exactly item_size bytes",
                "the sliced swap does not cover the element: %s" % alt[1])
        return
    for st in exits:
        ok, cov, sz0 = _swap_cover(f, num, st)
        R.check(bool(ok), "COVER", "mem_swap:all-bytes", "%s() exit" % f.name, "slices plus remainder cover exactly item_size bytes",
                "the sliced swap covers %r bytes of an element of %s bytes: part of the element is not exchanged (element sizes that are multiples of the slice)" % (cov, sz0))
