"""ATOMIC-MAP (shared by C15 and C08): the library's atomic operations are what their names and memory-order arguments say.
Callers are decided on the orders they *write* (acquire load of the tail, release store of the head, ...); this rule
decides the layer below: aws_atomic_priv_xlate_order maps every aws_memory_order to the compiler order of the same name
(NUM, one run per enumerator), every aws_atomic_*_explicit performs the compiler builtin of its name on its own object
with the translation of its own order parameter(s), and every implicit-order function is its _explicit sibling with
seq_cst."""
from sa import rules as RU
from sa.num import Num, Poly, Limit, entails

GNU = "include/aws/common/atomics_gnu.inl"
DECIDED = ["ATOMIC-MAP: aws_atomic_priv_xlate_order maps each aws_memory_order to the compiler order of the same name; every aws_atomic_*_explicit performs the builtin of its name on its own object with the translation of its own order parameter(s); every implicit-order function is its _explicit sibling with seq_cst"]
COMPILER_ORDER = {"relaxed": 0, "consume": 1, "acquire": 2, "release": 3, "acq_rel": 4, "seq_cst": 5}  # __ATOMIC_* (GCC / clang ABI constants)
BUILTIN = {"load": "__atomic_load_n", "store": "__atomic_store_n", "exchange": "__atomic_exchange_n", "compare_exchange": "__atomic_compare_exchange_n",
           "fetch_add": "__atomic_fetch_add", "fetch_sub": "__atomic_fetch_sub", "fetch_or": "__atomic_fetch_or", "fetch_and": "__atomic_fetch_and", "fetch_xor": "__atomic_fetch_xor"}


class _OrderIs:
    def __init__(self, v):
        self.v = v

    def entry(self, num, st):
        p0 = num.fn.params[0]
        p = num.read({"k": "var", "n": p0["n"], "sc": "param", "t": p0["t"], "id": -1}, st)
        if p is not None:
            st.add(p - self.v)
            st.add(Poly.const(self.v) - p)


def _op_of(name):
    base = name[len("aws_atomic_"):]
    if base.endswith("_explicit"):
        base = base[:-len("_explicit")]
    for suf in ("_int", "_ptr"):
        if base.endswith(suf):
            base = base[:-len(suf)]
    return base


def atomics_map(R, P, rule="ATOMIC-MAP"):
    xl = P.fn("aws_atomic_priv_xlate_order")
    if not R.require(xl is not None, "aws_atomic_priv_xlate_order not found (atomics_gnu.inl not part of the analysed units?)"):
        return
    R.fn(xl)
    orders = {k[len("aws_memory_order_"):]: v for k, v in P.enums.items() if k.startswith("aws_memory_order_")}
    R.require(len(orders) >= 5, "enum aws_memory_order: only %d enumerators found" % len(orders))
    rets = [x for b in xl.blocks.values() for x in b.elems if x["k"] == "ret"]
    for nm, val in sorted(orders.items()):
        num = Num(xl, P, _OrderIs(val), max_paths=2000)
        try:
            sts = num.states_at({r["id"] for r in rets})
        except Limit as ex:
            R.broken(str(ex))
            return
        got = set()
        for r in rets:
            for st in sts.get(r["id"], []):
                rv = num.val(r["a"][0], st)
                got.add(rv.cval() if rv is not None and rv.is_const() else "?")
        want = COMPILER_ORDER.get(nm)
        R.check(got == {want}, rule, "order:%s" % nm, "%s in aws_atomic_priv_xlate_order()" % GNU, "aws_memory_order_%s is performed as __ATOMIC_%s (%s)" % (nm, nm.upper(), want),
                "aws_memory_order_%s is translated to compiler order %s, __ATOMIC_%s is %s: every acquire/release pairing written in the callers (ring buffer head/tail, reference counts, the scheduler's exit flag) is performed with another ordering than the source says" % (nm, sorted(got, key=str), nm.upper(), want))
    n = 0
    for name in sorted(P.fns):
        if not name.startswith("aws_atomic_") or name in ("aws_atomic_priv_xlate_order", "aws_atomic_init_int", "aws_atomic_init_ptr", "aws_atomic_thread_fence"):
            continue
        f = P.fn(name)
        op = _op_of(name)
        if op not in BUILTIN:
            continue
        R.fn(f)
        oparams = [p["n"] for p in f.params if "aws_memory_order" in f.unit.types[p["t"]].get("s", "")]
        if name.endswith("_explicit"):
            n += 1
            ats = [x for b in f.blocks.values() for e in b.elems for x in f.walk(e) if x["k"] == "atomic"]
            # (the `_n` builtins and their generic forms, which take the value through a pointer, are the same operation)
            generic = BUILTIN[op][:-2] if BUILTIN[op].endswith("_n") else BUILTIN[op]
            ok = len(ats) == 1 and ats[0].get("name") in (BUILTIN[op], generic)
            det = "%s" % [a.get("name") for a in ats]
            if ok:
                a = ats[0]["a"]
                pos = [1, 3] if op == "compare_exchange" else [1]
                used = []
                for i in pos:
                    x = RU.origin(f, f.d(a[i]))  # in place, or through a local that holds the translated order
                    used.append(f.show(RU.uncast(f, RU.arg(f, x, 0))) if x is not None and x["k"] == "call" and x.get("callee") == "aws_atomic_priv_xlate_order" else "<%s>" % f.show(x))
                obj = f.show(f.d(a[0]))
                ok = used == oparams and f.params[0]["n"] in obj
                det = "%s on %s with orders %s (parameters %s)" % (ats[0].get("name"), obj, used, oparams)
                if ok and op in ("store", "exchange", "fetch_add", "fetch_sub", "fetch_or", "fetch_and", "fetch_xor"):
                    ok = f.show(RU.uncast(f, f.d(a[2]))).lstrip("&") == f.params[1]["n"]
                    det += ", operand %s" % f.show(f.d(a[2]))
                if ok and op == "compare_exchange":
                    ok = f.show(RU.uncast(f, f.d(a[2]))) == f.params[1]["n"] and f.show(RU.uncast(f, f.d(a[4]))) == f.params[2]["n"] and f.is_const(f.d(a[5])) == 0
                    det += ", expected %s desired %s, strong" % (f.show(f.d(a[2])), f.show(f.d(a[4])))
            R.check(ok, rule, "%s:performs-its-name" % name, "%s in %s()" % (GNU, name), "%s(own object, translation of its own order parameter%s)" % (BUILTIN[op], "s: success, failure" if op == "compare_exchange" else ""),
                    "%s does not perform %s on its object with its own order parameters: %s" % (name, BUILTIN[op], det))
        else:
            sib = f.calls(name + "_explicit")
            ok = len(sib) == 1
            det = "%d calls of %s_explicit" % (len(sib), name)
            if ok:
                n += 1
                args = [f.show(RU.uncast(f, f.d(x))) for x in sib[0].node["a"]]
                np_ = len(f.params)
                ok = args[:np_] == [p["n"] for p in f.params] and all(x == "aws_memory_order_seq_cst" for x in args[np_:]) and len(args) > np_
                det = "%s_explicit(%s)" % (name, ", ".join(args))
            R.check(ok, rule, "%s:is-seq-cst-sibling" % name, "%s in %s()" % (GNU, name), "forwards its arguments to %s_explicit with seq_cst" % name,
                    "%s is not its _explicit sibling with sequentially consistent ordering: %s" % (name, det))
    R.require(n >= 20, "only %d atomic wrappers found (confirmed by reading: 13 explicit + 13 implicit)" % n)


MUTANTS = [
    {"name": "acquire-performed-relaxed", "file": GNU, "expect": "ATOMIC-MAP", "old": "        case aws_memory_order_acquire:\n            return __ATOMIC_ACQUIRE;", "new": "        case aws_memory_order_acquire:\n            return __ATOMIC_RELAXED;"},
    {"name": "release-store-translates-nothing", "file": GNU, "expect": "ATOMIC-MAP", "old": "    __atomic_store_n(&AWS_ATOMIC_VAR_PTRVAL(var), p, aws_atomic_priv_xlate_order(memory_order));", "new": "    (void)memory_order;\n    __atomic_store_n(&AWS_ATOMIC_VAR_PTRVAL(var), p, __ATOMIC_RELAXED);"},
    {"name": "cas-orders-swapped", "file": GNU, "expect": "ATOMIC-MAP", "old": "        aws_atomic_priv_xlate_order(order_success),\n        aws_atomic_priv_xlate_order(order_failure));", "new": "        aws_atomic_priv_xlate_order(order_failure),\n        aws_atomic_priv_xlate_order(order_success));"},
    {"name": "implicit-load-relaxed", "file": "include/aws/common/atomics.inl", "expect": "ATOMIC-MAP", "old": "    return aws_atomic_load_ptr_explicit(var, aws_memory_order_seq_cst);", "new": "    return aws_atomic_load_ptr_explicit(var, aws_memory_order_relaxed);"},
]
