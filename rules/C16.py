"""C16 - checked / saturating arithmetic and time-unit conversion (DESIGN.md section 4, C16; partial)."""
import os

from sa import rules as RU
from sa.awslib import AwsHooks, target_of, SIZE_MAX
from sa.facts import Program
from sa.num import Num, Poly, Limit, entails, MAXU
from sa.rules import argstr, where

DECIDED = [
    "SPEC(builtin variant, the one the build uses): each aws_{add,mul}_{u32,u64}_{checked,saturating} returns / stores exactly a OP b when it fits its own result type and reports overflow / the type's maximum otherwise - decided for all operand values by abstract interpretation with the overflow builtins' specification",
    "SPEC(sub, size_t dispatchers, min/max): subtraction fails iff a < b and otherwise yields a - b (saturating: 0); size_t forms forward both operands in order to the 64-bit form and inherit its specification; min/max return one of their operands and bound both",
    "SPEC(portable fallback): the overflow predicates of math.fallback.inl - division-free for add/sub, floor division by the second operand for mul (NUM: q*b <= MAX < q*b + b with product lemmas) - are exact for all operands",
    "ASM-FLAG: in the x86-64 assembly variants the arithmetic instruction matches the operation and width (add/mul, q for 64-bit, l for 32-bit) and the instruction that consumes the flags reads the carry flag for unsigned addition (setc/cmovc/jnc...; the overflow flag is the SIGNED overflow there) and carry or overflow for mul (CF = OF)",
    "SHIFT: in the portable bit scans (ctz) the mask `1 << idx` is at least as wide as the value it is and-ed with, so every bit of the value can be tested",
    "NARROW: every implicit integer conversion to a narrower type inside the arithmetic helpers (math*.inl, clock.inl) is of a value that provably fits (NUM)",
    "VARIANTS: the builtin, x86-64 assembly and portable variants define the same functions with identical signatures",
    "CONVERT: aws_timestamp_convert_u64 asserts non-zero frequencies before dividing, uses only saturating multiply/add on tick quantities, its one raw subtraction/multiplication cannot wrap (quotient lemma), and writes the remainder only under new < old and old % new == 0",
]
NOT_DECIDED = ["the assembly variants' data flow beyond the instruction / flag pairing and operand discipline", "the counts computed by the clz/ctz loops (only the mask widths) and the power-of-two bit tricks", "the numeric value of the conversion formula"]
ASSUMPTIONS = ["__builtin_{add,mul}_overflow store the wrapped result and return whether the mathematical result does not fit the pointee type (compiler documentation)"]

NAMES = ["aws_mul_u64_saturating", "aws_mul_u64_checked", "aws_mul_u32_saturating", "aws_mul_u32_checked", "aws_add_u64_checked", "aws_add_u64_saturating", "aws_add_u32_checked", "aws_add_u32_saturating"]


class MathHooks(AwsHooks):
    """uses the compiler builtins' specification; the aws_* 64/32-bit helpers are analysed from their own bodies, not summarised"""

    def call(self, num, st, e, args):
        c = e.get("callee")
        if c in ("__builtin_add_overflow", "__builtin_mul_overflow"):
            return self.builtin(num, st, e, args, "+" if "add" in c else "*")
        if c and (c.startswith("aws_add_u") or c.startswith("aws_mul_u") or c.startswith("aws_sub_u") or c.startswith("fb_")):
            if getattr(self, "use_summaries", False) and hasattr(self, "s_" + c.replace("fb_", "")):
                return getattr(self, "s_" + c.replace("fb_", ""))(num, st, e, args)
            return NotImplemented
        return AwsHooks.call(self, num, st, e, args)

    def builtin(self, num, st, e, args, op):
        a, b = args[0], args[1]
        tgt = target_of(num, st, e["a"][2])
        flag = num.fresh(st, "ovf", None, (0, 1))
        if tgt is None or a is None or b is None:
            return Poly.atom(flag)
        tt = num.ty(tgt)
        mx = MAXU.get(tt.get("w", 64), SIZE_MAX)
        R = Poly.atom(num.fresh(st, "res", tt))
        num.write(tgt, R, st)
        exact = a + b if op == "+" else a * b
        st.cond[flag] = {"z": [("cmp", "==", R, exact), ("cmp", "<=", exact, Poly.const(mx))], "nz": [("cmp", ">", exact, Poly.const(mx))]}
        return Poly.atom(flag)


def _div_guard(f, blk, pair, dom):
    """is block blk reached only under `pair[0] % pair[1] == 0` (tested directly, negated, or through a local holding it)?"""
    class _E:
        pass
    ev_ = _E()
    ev_.blk = blk
    for c_, p_, b_ in RU.guards(f, ev_, dom):
        t = RU.cmp_norm(f, c_, p_)
        if not (t and t[1] == "==" and (t[2] is None or f.is_const(t[2]) == 0)):
            continue
        x = RU.uncast(f, t[0])
        srcs = [x]
        if x is not None and x["k"] == "var":
            for e2 in f.all_events():
                if e2.kind == "decl":
                    for v in e2.node["vars"]:
                        if v["n"] == x["n"] and v.get("init") is not None:
                            srcs.append(RU.uncast(f, v["init"]))
        for s_ in srcs:
            if s_ is not None and s_["k"] == "bin" and s_["op"] == "%":
                o2 = [RU.uncast(f, a) for a in s_["a"]]
                if all(o is not None and o["k"] == "var" for o in o2) and (f.canon(o2[0]["n"]), f.canon(o2[1]["n"])) == pair:
                    return True
    # the same test written as a product: `(a / b) * b == a` (the quotient directly or through a single-assignment local)
    for c_, p_, b_ in RU.guards(f, ev_, dom):
        if _is_product_test(f, c_, p_, pair):
            return True
    return False


def _is_quotient(f, n, pair):
    n = RU.uncast(f, n)
    if n is not None and n["k"] == "var" and n["n"] in f.aliases():
        n = RU.uncast(f, f.aliases()[n["n"]])
    if n is None or n["k"] != "bin" or n["op"] != "/":
        return False
    o = [RU.uncast(f, a) for a in n["a"]]
    return all(x is not None and x["k"] == "var" for x in o) and (f.canon(o[0]["n"]), f.canon(o[1]["n"])) == pair


def _is_product_test(f, cond, pol, pair):
    t = RU.cmp_norm(f, cond, pol)
    if not t or t[1] != "==" or t[2] is None:
        return False
    for prod, whole in ((t[0], t[2]), (t[2], t[0])):
        prod, whole = RU.uncast(f, prod), RU.uncast(f, whole)
        if prod is None or whole is None or whole["k"] != "var" or f.canon(whole["n"]) != pair[0] or prod["k"] != "bin" or prod["op"] != "*":
            continue
        for q, d in ((prod["a"][0], prod["a"][1]), (prod["a"][1], prod["a"][0])):
            d = RU.uncast(f, d)
            if d is not None and d["k"] == "var" and f.canon(d["n"]) == pair[1] and _is_quotient(f, q, pair):
                return True
    return False


def _lt_guard(f, ev, lo, hi, dom):
    """is ev reached only under lo < hi (written either way round, or as a negated >=)?"""
    for c_, p_, b_ in RU.guards(f, ev, dom):
        t = RU.cmp_norm(f, c_, p_)
        if not t or t[2] is None:
            continue
        l, r = RU.uncast(f, t[0]), RU.uncast(f, t[2])
        if l is None or r is None or l["k"] != "var" or r["k"] != "var":
            continue
        ln_, rn_ = f.canon(l["n"]), f.canon(r["n"])
        if (t[1] == "<" and (ln_, rn_) == (lo, hi)) or (t[1] == ">" and (ln_, rn_) == (hi, lo)):
            return True
    return False


def spec_check(R, P, f, op, kind, rule, tag, hooks=None, allow_undecided=False):
    """verify one helper against its specification on every return state"""
    hooks = hooks or MathHooks()
    num = Num(f, P, hooks)
    rets = [e for b in f.blocks.values() for e in b.elems if e["k"] == "ret"]
    try:
        sts = num.states_at({r["id"] for r in rets})
    except Limit as ex:
        R.broken(str(ex))
        return
    rt = f.rettype()
    ptypes = [f.unit.types[p["t"]] for p in f.params]
    w = (ptypes[0].get("w") or 64)
    mx = MAXU[w]
    n = 0
    for r in rets:
        base_states = []
        for st0 in sts.get(r["id"], []):
            rv0 = num.val(r["a"][0], st0)
            if kind == "checked" and rv0 is not None and not rv0.is_const():
                # the result is a callee's status: decide both outcomes
                base_states.extend(num.assume_cmp("==", rv0, Poly.const(0), st0.copy()))
                base_states.extend(num.assume_cmp("!=", rv0, Poly.const(0), st0.copy()))
            else:
                base_states.append(st0)
        for st in base_states:
            a, b = st.env.get("v:" + f.params[0]["n"]), st.env.get("v:" + f.params[1]["n"])
            if a is None:
                a = num.read({"k": "var", "n": f.params[0]["n"], "sc": "param", "t": f.params[0]["t"], "id": -1}, st)
            if b is None:
                b = num.read({"k": "var", "n": f.params[1]["n"], "sc": "param", "t": f.params[1]["t"], "id": -1}, st)
            exact = a + b if op == "+" else (a * b if op == "*" else a - b)
            lo_ok = entails(st, -exact) if op == "-" else True
            fits = entails(st, exact - mx) and lo_ok
            over = entails(st, Poly.const(mx + 1) - exact) if op != "-" else entails(st, exact + 1)
            rv = num.val(r["a"][0], st)
            loc = "%s:%d in %s()" % (f.file.replace("/repo/", "").split("/include/")[-1], r["loc"][0], f.name)
            n += 1
            if kind == "checked":
                out = st.env.get("v:" + f.params[2]["n"])
                stored = st.env.get("(%r)->" % out) if out is not None else None
                if rv is not None and (rv.is_const() and rv.cval() == 0 or (entails(st, rv) and entails(st, -rv))):
                    ok = fits and stored is not None and entails(st, stored - exact) and entails(st, exact - stored)
                    if not ok and allow_undecided and not over:
                        R.notes.append("%s: success path not decided (%s)" % (f.name, tag))
                        continue
                    R.check(ok, rule, "%s:%s:success-is-exact" % (tag, f.name), loc, "success: the exact result fits and is stored",
                            "a success return does not guarantee that *r holds the exact result (fits=%s, stored=%r, exact=%r)" % (fits, stored, exact))
                else:
                    okf = over and rv is not None and (rv.is_const() and rv.cval() != 0 or entails(st, rv + 1))
                    if not okf and allow_undecided and not fits:
                        R.notes.append("%s: failure path not decided (%s)" % (f.name, tag))
                        continue
                    R.check(okf, rule, "%s:%s:failure-iff-overflow" % (tag, f.name), loc, "failure: the exact result does not fit",
                            "failure is reported on a path where the exact result %r may fit (or the error value is not an error)" % exact)
            elif kind == "saturating":
                sat = Poly.const(0) if op == "-" else Poly.const(mx)
                if op == "-":
                    over = entails(st, exact)  # a <= b: the result saturates at 0 (and equals the exact result when a == b)
                ok = rv is not None and ((fits and entails(st, rv - exact) and entails(st, exact - rv)) or (over and rv == sat))
                if not ok and allow_undecided and not fits and not over:
                    R.notes.append("%s: path not decided (%s)" % (f.name, tag))
                    continue
                R.check(ok, rule, "%s:%s:exact-or-saturated" % (tag, f.name), loc, "returns the exact result when it fits, else %r" % sat,
                        "returns %r where the exact result is %r (fits=%s, overflows=%s, saturation value %r)" % (rv, exact, fits, over, sat))
    R.require(n >= 2, "%s: fewer than two return states analysed" % f.name)
    return n


def analyse(ctx, replace=None, only=None):
    R = ctx.R
    P = ctx.program(["source/math.c"], "ship", replace=replace)
    for nm in NAMES:
        f = P.fn(nm)
        if not R.require(f is not None and f.file.endswith("math.gcc_overflow.inl"), "%s from math.gcc_overflow.inl not found (the build's variant)" % nm):
            continue
        R.fn(f)
        spec_check(R, P, f, "+" if "_add_" in nm else "*", "checked" if nm.endswith("checked") else "saturating", "SPEC", "builtin")
        # the builtin used matches the operation and takes the function's own operands in order
        bc = f.calls({"__builtin_add_overflow", "__builtin_mul_overflow"})
        R.check(len(bc) == 1 and ("add" in bc[0].node["callee"]) == ("_add_" in nm) and [argstr(f, bc[0].node, i, addr=False) for i in (0, 1)] == ["a", "b"], "SPEC", "builtin:%s:uses-own-operands" % nm,
                where(f, bc[0]) if bc else nm, "%s(a, b, ..)" % (bc[0].node["callee"] if bc else "?"))
    for nm, op, kind in (("aws_sub_u64_checked", "-", "checked"), ("aws_sub_u32_checked", "-", "checked"), ("aws_sub_u64_saturating", "-", "saturating"), ("aws_sub_u32_saturating", "-", "saturating")):
        f = P.fn(nm)
        if R.require(f is not None, "%s not found" % nm):
            R.fn(f)
            spec_check(R, P, f, op, kind, "SPEC", "math.inl")
    # size_t dispatchers: analysed with the 64-bit helpers' summaries (which the checks above justify)
    h = MathHooks()
    h.use_summaries = True
    for nm, op, kind in (("aws_add_size_checked", "+", "checked"), ("aws_mul_size_checked", "*", "checked"), ("aws_sub_size_checked", "-", "checked"),
                         ("aws_add_size_saturating", "+", "saturating"), ("aws_mul_size_saturating", "*", "saturating"), ("aws_sub_size_saturating", "-", "saturating")):
        f = P.fn(nm)
        if R.require(f is not None, "%s not found" % nm):
            R.fn(f)
            cs = [e for e in f.calls() if e.node.get("callee", "").startswith("aws_") and "u64" in e.node["callee"]]
            if not cs:
                # not a dispatcher: the body computes on size_t itself and answers to the specification directly
                spec_check(R, P, f, op, kind, "SPEC", "size_t-direct")
                continue
            if kind == "checked":
                spec_check(R, P, f, op, kind, "SPEC", "size_t", hooks=h)
            for r_ in f.returns():
                v = RU.uncast(f, r_.node["a"][0])
                R.check(v is not None and v["k"] == "call" and v.get("callee") == nm.replace("size", "u64"), "SPEC", "size_t:%s:returns-64bit-result" % nm, where(f, r_), "returns the 64-bit helper's result unchanged")
            cs = [e for e in f.calls() if e.node.get("callee", "").startswith("aws_") and "u64" in e.node["callee"]]
            want = nm.replace("size", "u64")
            R.check(len(cs) == 1 and cs[0].node["callee"] == want and [argstr(f, cs[0].node, i, addr=False) for i in (0, 1)] == ["a", "b"], "SPEC", "size_t:%s:forwards" % nm, where(f, cs[0]) if cs else nm,
                    "forwards (a, b) to %s" % want, "does not forward (a, b) in order to %s" % want)
    minmax(R, P)
    narrowing(R, P)
    builtin_zero_guard(R, P)
    fallback(ctx, R, replace)
    convert(R, P)


def builtin_zero_guard(R, P):
    """SPEC(clz/ctz, builtin variant): __builtin_clz* / __builtin_ctz* are undefined for 0; every call is reached only when the
    argument is known non-zero (the zero case returns the bit width explicitly), and the size_t forms forward to the guarded
    64/32-bit forms."""
    n = 0
    for f in P.by_key.values():
        if not f.file.endswith("math.gcc_builtin.inl"):
            continue
        for e in f.all_events():
            if e.kind != "call" or not (e.node.get("callee") or "").startswith(("__builtin_clz", "__builtin_ctz")):
                continue
            n += 1
            arg = f.show(RU.uncast(f, e.node["a"][0]))
            gs = [RU.cmp_norm(f, c_, p_) for c_, p_, b_ in RU.guards(f, e)]
            okg = any(g and g[1] == "!=" and (g[2] is None or f.is_const(g[2]) == 0) and f.show(RU.uncast(f, g[0])) == arg for g in gs)
            R.fn(f)
            R.check(okg, "SPEC", "builtin:%s:zero-handled-before-%s" % (f.name, e.node["callee"]), "include/aws/common/math.gcc_builtin.inl:%d in %s()" % (e.node.get("loc", [0])[0], f.name), "%s(%s) is reached only for a non-zero argument" % (e.node["callee"], arg),
                    "%s(%s) can be called with 0, for which the builtin is undefined: %s(0) no longer returns the bit width (and differs from the other variants)" % (e.node["callee"], arg, f.name))
    R.require(n >= 4, "only %d clz/ctz builtin calls found in math.gcc_builtin.inl" % n)
    for nm in ("aws_clz_size", "aws_ctz_size"):
        f = P.fn(nm)
        if R.require(f is not None, "%s not found" % nm):
            cs = [e.node["callee"] for e in f.all_events() if e.kind == "call" and e.node.get("callee")]
            R.check(cs in ([nm.replace("_size", "_u64")], [nm.replace("_size", "_u32")]), "SPEC", "builtin:%s:forwards-to-fixed-width" % nm, "%s()" % nm, "forwards to %s" % cs, "%s calls %s instead of the guarded fixed-width form" % (nm, cs))


NARROW_FILES = ("math.inl", "math.gcc_overflow.inl", "math.gcc_builtin.inl", "math.fallback.inl", "math.gcc_x64_asm.inl", "clock.inl")


def narrowing(R, P, files=None, floor=4, hooks=None, rule="NARROW"):
    """NARROW: no implicit integer conversion in the arithmetic helpers drops bits: wherever a wider value is implicitly converted
    to a narrower integer type (a narrower local, parameter or result), the value provably fits the narrower type (NUM at the
    conversion, all operand values).  Explicit casts are the author's stated truncation and are not this rule's business."""
    n_sites = 0
    for f in sorted((f for f in P.by_key.values() if getattr(f, "blocks", None) and any(f.file.endswith("/" + x) for x in (files or NARROW_FILES))), key=lambda f: (f.file, f.line)):
        sites, seen = [], set()
        for b in f.blocks.values():
            for el in b.elems:
                for n in f.walk(el):
                    if n["k"] != "cast" or n.get("ck") != "IntegralCast" or not n.get("impl") or n["id"] in seen:
                        continue
                    seen.add(n["id"])
                    t = f.unit.types[n["t"]]
                    ft = f.unit.types[n["ft"]] if n.get("ft", -1) >= 0 else {}
                    if "w" in t and "w" in ft and t["w"] < ft["w"] and f.is_const(n["a"][0]) is None:
                        sites.append((el, n, t, ft))
        if not sites:
            continue
        R.fn(f)
        if hooks is None:
            h = MathHooks()
            h.use_summaries = True
        else:
            h = hooks
        num = Num(f, P, h)
        try:
            sts = num.states_at({el["id"] for el, _, _, _ in sites})
        except Limit as ex:
            R.broken("NARROW %s: %s" % (f.name, ex))
            continue
        for el, n, t, ft in sites:
            lo, hi = num.trange(t)
            ok, why, k = True, "", 0
            for st in sts.get(el["id"], []):
                k += 1
                v = num.val(f.d(n["a"][0]), st)
                if v is None or not (entails(st, v - hi) and entails(st, Poly.const(lo) - v)):
                    ok, why = False, "%r" % (v,)
                    break
            n_sites += 1
            R.check(ok and k >= 1, rule, "%s:%s" % (f.name, f.show(n)[:50]), "%s:%d in %s()" % (f.file.replace("/repo/", ""), n.get("loc", [0])[0], f.name),
                    "the %d-bit value fits the %d-bit type it is converted to" % (ft["w"], t["w"]),
                    "a %d-bit value (%s) is implicitly converted to a %d-bit type and is not known to fit: the upper bits are dropped (for operands at or above 2^%d the helper computes on a different number)" % (ft["w"], why or "no state", t["w"], t["w"]))
    R.require(n_sites >= floor, "only %d implicit narrowing conversions examined (floor %d)" % (n_sites, floor))


def minmax(R, P):
    n = 0
    for f in list(P.by_key.values()):
        if not f.file.endswith("math.inl") or not (f.name.startswith("aws_min_") or f.name.startswith("aws_max_")):
            continue
        n += 1
        R.fn(f)
        num = Num(f, P, MathHooks())
        rets = [e for b in f.blocks.values() for e in b.elems if e["k"] == "ret"]
        sts = num.states_at({r["id"] for r in rets})
        is_min = "_min_" in f.name
        flt = "flt" in str(f.rettype()) or f.rettype().get("flt")
        if f.rettype().get("flt"):
            continue
        for r in rets:
            for st in sts.get(r["id"], []):
                a, b = st.env.get("v:a"), st.env.get("v:b")
                rv = num.val(r["a"][0], st)
                if a is None or b is None or rv is None:
                    R.fail("SPEC", "minmax:%s" % f.name, where(f, r), "operands or result not numeric")
                    continue
                if is_min:
                    ok = entails(st, rv - a) and entails(st, rv - b) and (rv == a or rv == b)
                else:
                    ok = entails(st, a - rv) and entails(st, b - rv) and (rv == a or rv == b)
                R.check(ok, "SPEC", "minmax:%s" % f.name, "%s:%d" % ("include/aws/common/math.inl", r["loc"][0]), "returns an operand that bounds both",
                        "%s returns %r for operands %r, %r" % (f.name, rv, a, b))
    R.require(n >= 10, "only %d min/max helpers found" % n)


def fallback(ctx, R, replace):
    """the portable and assembly variants, compiled as a synthetic unit with renamed symbols"""
    names = NAMES
    src = os.path.join(ctx.ex.dir, "math_variants_%d.c" % os.getpid())  # forked self-check workers share ex.dir
    pre_inc = None
    for k, v in (replace or {}).items():
        if k.startswith("include/"):
            pre_inc = [v[: -len(k)] + "include"]
    with open(src, "w") as f:
        f.write("#include <aws/common/common.h>\n#include <aws/common/math.h>\n")
        for pref, hdr in (("fb_", "math.fallback.inl"), ("asm_", "math.gcc_x64_asm.inl")):
            for n in names + (["aws_clz_u32", "aws_clz_i32", "aws_clz_u64", "aws_clz_i64", "aws_clz_size", "aws_ctz_u32", "aws_ctz_i32", "aws_ctz_u64", "aws_ctz_i64", "aws_ctz_size"] if pref == "fb_" else []):
                f.write("#define %s %s%s\n" % (n, pref, n.replace("aws_", "", 1) if False else n))
            if pref == "fb_":
                for nm_, ty_ in (("clz_u32", "uint32_t"), ("clz_i32", "int32_t"), ("clz_u64", "uint64_t"), ("clz_i64", "int64_t"), ("clz_size", "size_t"),
                                 ("ctz_u32", "uint32_t"), ("ctz_i32", "int32_t"), ("ctz_u64", "uint64_t"), ("ctz_i64", "int64_t"), ("ctz_size", "size_t")):
                    f.write("static inline size_t fb_aws_%s(%s n);\n" % (nm_, ty_))
            f.write("#include <aws/common/%s>\n" % hdr)
            for n in names + (["aws_clz_u32", "aws_clz_i32", "aws_clz_u64", "aws_clz_i64", "aws_clz_size", "aws_ctz_u32", "aws_ctz_i32", "aws_ctz_u64", "aws_ctz_i64", "aws_ctz_size"] if pref == "fb_" else []):
                f.write("#undef %s\n" % n)
    outs = ctx.ex.extract([src], "ship", main_only=False, pre_inc=pre_inc)
    P2 = Program()
    P2.add(outs[src])
    R.units.append("synthetic: math.fallback.inl + math.gcc_x64_asm.inl (symbols renamed)")
    for nm in names:
        fb, asm, ship = P2.fn("fb_" + nm), P2.fn("asm_" + nm), P2.fn(nm)
        if not R.require(fb is not None and asm is not None and ship is not None, "variant of %s not found (fallback=%s asm=%s builtin=%s)" % (nm, fb is not None, asm is not None, ship is not None)):
            continue
        sig = lambda f: (f.unit.types[f.ret]["c"], [f.unit.types[p["t"]]["c"] for p in f.params])
        R.check(sig(fb) == sig(asm) == sig(ship), "VARIANTS", "signature:%s" % nm, "include/aws/common/math.*.inl", "identical signature in all three variants %s" % (sig(ship),),
                "signatures differ: builtin %s, asm %s, fallback %s" % (sig(ship), sig(asm), sig(fb)))
        R.fn(fb)
        op = "+" if "_add_" in nm else "*"
        spec_check(R, P2, fb, op, "checked" if nm.endswith("checked") else "saturating", "SPEC", "fallback")
        asms = [e for e in asm.all_events() if e.kind == "asm"]
        R.check(len(asms) >= 1, "VARIANTS", "asm-variant-is-asm:%s" % nm, "math.gcc_x64_asm.inl", "assembly variant present (instruction semantics not analysed)")
        for e in asms:
            early_clobber(R, asm, e, nm)
            asm_fixed_registers(R, asm, e, nm)
            asm_flags(R, asm, e, nm)
    shift_widths(R, P2)


def shift_widths(R, P2):
    """bit scans of the portable variant: a mask `1 << idx` that is and-ed with the scanned value must be at least as wide
    as that value, otherwise its upper bits can never be tested (and the scan stops early or never)"""
    n = 0
    for f in P2.fns.values():
        if not f.name.startswith("fb_"):
            continue
        for b in f.blocks.values():
            nodes = [y for el in b.elems for y in f.walk(el)] + ([y for y in f.walk(f.d(b.cond), follow_refs=True)] if b.cond is not None else [])
            for x in nodes:
                if x["k"] != "bin" or x["op"] != "&":
                    continue
                sides = [f.d(x["a"][0]), f.d(x["a"][1])]
                for i in (0, 1):
                    s = sides[i]
                    while s is not None and s["k"] == "cast":
                        s = f.d(s["a"][0])
                    o = sides[1 - i]
                    while o is not None and o["k"] == "cast" and o.get("impl", True):
                        o = f.d(o["a"][0])
                    if s is None or o is None or s["k"] != "bin" or s["op"] != "<<" or f.is_const(s["a"][1]) is not None or f.is_const(s["a"][0]) is None:
                        continue
                    ws, wo = f.ty(s).get("w"), f.ty(o).get("w")
                    n += 1
                    R.fn(f)
                    R.check(ws is not None and wo is not None and ws >= wo, "SHIFT", "%s:mask-as-wide-as-value" % f.name, "include/aws/common/math.fallback.inl:%d in %s()" % ((s.get("loc") or [0])[0], f.name.replace("fb_", "")),
                            "the %s-bit mask %s covers the %s-bit value %s" % (ws, f.show(s), wo, f.show(o)),
                            "the mask %s is %s bits wide but the value it scans (%s) has %s: the upper bits are never tested and the variants disagree" % (f.show(s), ws, f.show(o), wo))
    R.require(n >= 2, "only %d bit-scan masks found in the portable variant" % n)


CARRY = {"c", "nc", "b", "nb", "ae", "nae"}
OVERFLOW = {"o", "no"}


def asm_flags(R, f, e, nm):
    """ASM-FLAG: instruction / flag pairing of the assembly helpers (x86 semantics: unsigned add overflow is CF; after
    mul CF = OF = upper half non-zero; OF after add is the signed overflow, ZF/SF say nothing about overflow)"""
    import re
    lines = [l.strip() for l in e.node.get("asm", "").split("\n") if l.strip()]
    ops = [re.split(r"\s+", l)[0] for l in lines]
    op = "add" if "_add_" in nm else "mul"
    w = "q" if "u64" in nm else "l"
    arith = [o for o in ops if re.match(r"^(add|adc|sub|mul|imul|lea|inc|dec|shl|sal)", o)]
    loc = "include/aws/common/math.gcc_x64_asm.inl:%d in %s()" % (e.node.get("loc", [0])[0], nm)
    R.check(arith == [op + w], "ASM-FLAG", "instruction:%s" % nm, loc, "one `%s%s`" % (op, w), "the arithmetic instructions are %s, expected one `%s%s` (operation / operand width of %s)" % (arith, op, w, nm))
    cons = []
    for o in ops:
        m = re.match(r"^(set|cmov|j)([a-z]+)$", o)
        if m and m.group(2) not in ("mp",):
            cons.append((o, m.group(2)))
    allowed = CARRY if op == "add" else (CARRY | OVERFLOW)
    bad = [o for o, cc in cons if cc not in allowed]
    if "saturating" in nm:
        # the value substituted on overflow is the type's maximum: all ones over the operand's full width
        width = 64 if "u64" in nm else 32
        sat = []
        for x in e.node.get("inputs", []):
            cv = f.is_const(x)
            if cv is not None:
                sat.append(cv & (2 ** 64 - 1) if cv < 0 else cv)
        imm = [int(m_, 16) for m_ in re.findall(r"\$0x([0-9A-Fa-f]+)", e.node.get("asm", ""))]
        want = 2 ** width - 1
        vals = sat + imm
        R.check(bool(vals) and all(v == want for v in vals), "ASM-FLAG", "saturation-value:%s" % nm, loc, "the value moved in on overflow is 0x%X" % want,
                "the saturation value of %s is %s, the maximum of its type is 0x%X: on overflow the assembly variant returns another value than the other variants" % (nm, [hex(v) for v in vals], want))
    # nothing between the arithmetic instruction and the instruction that reads its flags may rewrite them (xor/and/or/test/
    # cmp/add/sub/inc/dec/neg/shifts all do; mov, lea, set*, cmov*, j* do not)
    FLAGW = r"^(xor|and|or|test|cmp|add|adc|sub|sbb|inc|dec|neg|not|shl|sal|shr|sar|rol|ror|mul|imul|div|idiv|bt)"
    ai = [i for i, o in enumerate(ops) if o in arith]
    ci = [i for i, o in enumerate(ops) if any(o == c_[0] for c_ in cons)]
    between = [ops[i] for i in range(ai[0] + 1, ci[0])] if ai and ci and ci[0] > ai[0] else []
    clob = [o for o in between if re.match(FLAGW, o) and not re.match(r"^not", o)]
    R.check(not clob and (not ai or not ci or ci[0] > ai[0]), "ASM-FLAG", "flags-intact:%s" % nm, loc, "no instruction rewrites the flags between `%s` and the instruction that reads them" % (arith[0] if arith else "?"),
            "%s rewrites the flags between the arithmetic instruction and `%s`: the overflow is never seen (an overflowing multiply reports success with the wrapped product)" % (clob, cons[0][0] if cons else "?"))
    R.check(len(cons) == 1 and not bad, "ASM-FLAG", "flag:%s" % nm, loc, "the flags are consumed once, by `%s` (%s)" % (cons[0][0] if cons else "?", "carry" if op == "add" else "carry = overflow after mul"),
            "the overflow of an unsigned %s is read with %s: for an unsigned add the carry flag is the overflow (the overflow flag is the signed overflow: MAX + 1 is accepted and 0x7f..f + 1 refused)" % (op, [o for o, cc in cons]))


def asm_fixed_registers(R, f, e, nm):
    """operand discipline, second half: a hard register the template names (or an instruction uses implicitly: one-operand mul
    reads rax and writes rdx:rax) must be tied to an operand by its constraint letter or be declared clobbered - otherwise the
    compiler may keep the operand elsewhere (the template then updates the wrong register) or a live value there."""
    import re
    n = e.node
    fam = {"a": ("rax", "eax", "ax", "al", "ah"), "b": ("rbx", "ebx", "bx", "bl", "bh"), "c": ("rcx", "ecx", "cx", "cl", "ch"), "d": ("rdx", "edx", "dx", "dl", "dh"),
           "S": ("rsi", "esi", "si", "sil"), "D": ("rdi", "edi", "di", "dil")}
    of = {r_: k for k, rs in fam.items() for r_ in rs}
    used = {}
    for l in n.get("asm", "").split("\n"):
        for r_ in re.findall(r"%%?([a-z]{2,3})\b", l):
            if r_ in of:
                used.setdefault(of[r_], l.strip())
        m = re.match(r"^\s*(mul|div)[bwlq]?\s+[^,]+$", l)
        if m:
            used.setdefault("a", l.strip())
            used.setdefault("d", l.strip())
    pinned = set()
    for c_ in n.get("constraints", []):
        pinned |= {ch for ch in c_ if ch in fam}
    clob = {of[c_.lstrip("%")] for c_ in n.get("clobbers", []) if c_.lstrip("%") in of}
    bad = sorted((k, l) for k, l in used.items() if k not in pinned and k not in clob)
    R.check(not bad, "VARIANTS", "asm-fixed-registers:%s" % nm, "include/aws/common/math.gcc_x64_asm.inl:%d in %s()" % (n.get("loc", [0])[0], nm),
            "every hard register of the template (%s) is tied to an operand or clobbered" % (sorted(used) or "none"),
            "the template uses %s but no operand is constrained to that register and it is not clobbered (constraints %s): when the compiler keeps the operand in another register the instruction updates the wrong one (a saturating add then returns the wrapped sum)" %
            (["%%%s in `%s`" % (fam[k][0], l) for k, l in bad], n.get("constraints", [])))


def early_clobber(R, f, e, nm):
    """operand discipline of a multi-instruction asm: an output written by an earlier instruction than one that still reads
    a register input must be early-clobber (&), otherwise the compiler may give both the same register"""
    import re
    n = e.node
    names, cons = n.get("names", []), n.get("constraints", [])
    n_out = len(n.get("outputs", []))
    if not names or len(names) != len(cons):
        return
    info = {nm_: (i < n_out, cons[i]) for i, nm_ in enumerate(names) if nm_}
    lines = [l for l in n.get("asm", "").split("\n") if l.strip()]
    first_write = {}
    for i, l in enumerate(lines):
        ops = re.findall(r"%[a-z]?\[(\w+)\]", l)
        if not ops:
            continue
        dst = ops[-1]
        if dst in info and info[dst][0] and dst not in first_write:
            first_write[dst] = i
    bad = []
    for out, wi in first_write.items():
        if "&" in info[out][1]:
            continue
        for j in range(wi + 1, len(lines)):
            ops = re.findall(r"%[a-z]?\[(\w+)\]", lines[j])
            srcs = ops[:-1] if len(ops) > 1 else []
            for s_ in srcs:
                if s_ in info and not info[s_][0] and ("r" in info[s_][1]) and s_ != out:
                    bad.append((out, info[out][1], s_, info[s_][1], lines[j].strip()))
    R.check(not bad, "VARIANTS", "asm-early-clobber:%s" % nm, "include/aws/common/math.gcc_x64_asm.inl:%d in %s()" % (n.get("loc", [0])[0], nm),
            "every output written before a later read of a register input is early-clobber",
            "output operand %s is written before a later instruction reads register input %s and is not early-clobber: the compiler may assign both the same register (then the saturating add returns a wrong value)" %
            (["[%s] \"%s\"" % (b[0], b[1]) for b in bad][:2], ["[%s] \"%s\" in `%s`" % (b[2], b[3], b[4]) for b in bad][:2]))


def convert(R, P):
    f = P.fn("aws_timestamp_convert_u64")
    if not R.require(f is not None, "aws_timestamp_convert_u64 not found"):
        return
    R.fn(f)
    h = MathHooks()
    h.use_summaries = True
    num = Num(f, P, h)
    rets = [e for b in f.blocks.values() for e in b.elems if e["k"] == "ret"]
    sts = num.states_at({r["id"] for r in rets})
    n = 0
    for r in rets:
        for st in sts.get(r["id"], []):
            n += 1
            R.check(not st.notes.get("wrapped"), "CONVERT", "no-wrapping-arithmetic", "include/aws/common/clock.inl:%d" % r["loc"][0], "every raw +,-,* on tick quantities is exact on this path",
                    "raw arithmetic that may wrap on the way to the result: %s" % st.notes.get("wrapped", [])[:3])
    R.require(n >= 1, "aws_timestamp_convert_u64: no return state")
    # every result is the saturating sum of the two parts: a return of anything else (a constant, the ticks) answers for
    # some operands with a number that was not computed from them
    for r_ in f.returns():
        v_ = RU.origin(f, r_.node["a"][0]) if r_.node.get("a") else None
        v_ = RU.uncast(f, v_) if v_ is not None else None
        R.check(v_ is not None and v_["k"] == "call" and v_.get("callee") == "aws_add_u64_saturating", "CONVERT", "returns-the-saturating-sum:line%d" % r_.node.get("loc", [0])[0], where(f, r_),
                "the result is aws_add_u64_saturating(whole part, fractional part)", "aws_timestamp_convert_u64 returns %s here, not the saturating sum of the whole and the fractional part" % (f.show(r_.node["a"][0]) if r_.node.get("a") else "nothing"))
    muls = f.calls("aws_mul_u64_saturating")
    adds = f.calls("aws_add_u64_saturating")
    R.check(len(muls) == 2 and len(adds) == 1, "CONVERT", "saturating-helpers", "%s()" % f.name, "whole and fractional parts use saturating multiply, the sum saturating add",
            "expected 2 saturating multiplies and 1 saturating add, found %d / %d" % (len(muls), len(adds)))
    fa = f.calls("aws_fatal_assert")
    divs = []
    for b in f.blocks.values():
        for el in b.elems:
            for nd in f.walk(el):
                if nd["k"] == "bin" and nd["op"] in ("/", "%"):
                    divs.append(nd)
    # the assertion's failing arm is noreturn: every division must be unreachable from entry without passing the test
    from sa.cfg import dominators
    dom = dominators(f)
    tests = [b.id for b in f.blocks.values() if b.cond is not None and "frequency > 0" in f.show(b.cond)]
    okd = len(divs) >= 4 and len(fa) >= 1 and len(tests) >= 2
    for nd in divs:
        blk = num.elem_of.get(nd["id"], (None,))[0]
        okd = okd and blk is not None and all(t in dom.get(blk, ()) for t in tests)
    # a quotient of the two frequencies is exact only when one divides the other: every `freq / freq` is guarded by the
    # divisibility test of the same pair (otherwise the ratio is truncated before it is applied: 3 MHz -> ns uses 333, not 333.3)
    params = {"old_frequency", "new_frequency"}
    for nd in divs:
        if nd["op"] != "/":
            continue
        ops = [RU.uncast(f, a) for a in nd["a"]]
        if not all(o is not None and o["k"] == "var" and f.canon(o["n"]) in params for o in ops):
            continue
        pair = (f.canon(ops[0]["n"]), f.canon(ops[1]["n"]))
        blk = num.elem_of.get(nd["id"], (None,))[0]
        # a quotient kept in a single-assignment local is `applied` where the local is used: those uses carry the obligation
        # (the divisibility test written as `q * b == a` is itself such a use and needs no guard)
        holder = [k for k, v in f.aliases().items() if v is not None and RU.uncast(f, v) is nd]
        if holder:
            okg, nuse = True, 0
            for b2 in f.blocks.values():
                cond_is_test = b2.cond is not None and (_is_product_test(f, b2.cond, True, pair) or _is_product_test(f, b2.cond, False, pair))
                for el in b2.elems:
                    if el["k"] == "decl" and any(v["n"] == holder[0] for v in el["vars"]):
                        continue
                    for u in f.walk(el):
                        if u["k"] == "var" and u["n"] == holder[0]:
                            nuse += 1
                            in_test = cond_is_test and any(x is u for x in f.walk(f.d(b2.cond)))
                            okg = okg and (in_test or _div_guard(f, b2.id, pair, dom))
            okg = okg and nuse >= 1
        else:
            okg = _div_guard(f, blk, pair, dom)
        R.check(okg, "CONVERT", "frequency-ratio-only-when-exact:%s/%s" % pair, "include/aws/common/clock.inl:%d" % nd.get("loc", [0])[0], "`%s / %s` is computed only under `%s %% %s == 0`" % (pair + pair),
                "`%s / %s` is computed without the divisibility test of that pair: for frequencies that are not multiples of each other the truncated ratio is applied to the ticks (2999999 ticks at 3 MHz convert to 998999667 ns instead of 999999666)" % pair)
    R.check(okd, "CONVERT", "frequencies-asserted-before-division", "%s()" % f.name, "both frequencies are asserted non-zero before any division (%d divisions)" % len(divs),
            "a division by a frequency is not dominated by the non-zero assertion")
    st_rem = [e for e in f.all_events() if e.kind == "access" and e.node["k"] == "un" and e.node["op"] == "deref" and e.mode == "w" and f.show(e.node["a"][0]) == "remainder"]
    ok = len(st_rem) == 2
    gs = []
    for e in st_rem:
        g = [f.show(f.d(c)) + ("" if p else " [false]") for c, p, b in RU.guards(f, e, dom)]
        gs.append(g)
    ok = ok and any(_lt_guard(f, e, "new_frequency", "old_frequency", dom) and _div_guard(f, e.blk, ("old_frequency", "new_frequency"), dom) for e in st_rem)
    # every return has passed the `remainder != NULL` block: no fast path leaves *remainder unwritten
    rt = [b.id for b in f.blocks.values() if b.cond is not None and f.show(RU.uncast(f, (RU.cmp_norm(f, b.cond, True) or (None,))[0]) if RU.cmp_norm(f, b.cond, True) else None) == "remainder"]
    okr = bool(rt) and all(rt[0] in dom.get(r_.blk, ()) for r_ in f.returns())
    R.check(okr, "CONVERT", "remainder-written-on-every-path", "%s()" % f.name, "the `remainder != NULL` block (which zeroes *remainder) dominates every return",
            "a return of aws_timestamp_convert_u64 is reached without passing the block that initialises *remainder: for that case (equal frequencies) the caller's remainder keeps a stale value")
    R.check(ok, "CONVERT", "remainder-rule", "%s()" % f.name, "remainder zeroed, then set only when new < old and old % new == 0", "the remainder rule's guards are %s" % gs)
    vals = []
    for e in st_rem:
        for b in f.blocks.values():
            for el in b.elems:
                for nd in f.walk(el):
                    if nd["k"] == "bin" and nd["op"] == "=" and f.d(nd["a"][0]) is e.node:
                        rhs = RU.uncast(f, nd["a"][1])
                        txt = f.show(rhs)
                        if rhs["k"] == "bin" and rhs["op"] == "%":
                            dv = RU.uncast(f, rhs["a"][1])
                            if dv["k"] == "var":
                                for ev in f.all_events():
                                    if ev.kind == "decl":
                                        for v in ev.node["vars"]:
                                            if v["n"] == dv["n"] and v.get("init"):
                                                txt = "(%s %% %s)" % (f.show(rhs["a"][0]), f.show(v["init"]))
                        vals.append(txt)
    ratio_ok = any(v.replace(" ", "") == "(ticks%(old_frequency/new_frequency))" for v in vals) and "0" in vals
    R.check(ratio_ok, "CONVERT", "remainder-value", "%s()" % f.name, "remainder = ticks % (old_frequency / new_frequency)",
            "the remainder stored is %s, not ticks modulo the frequency ratio" % [v for v in vals if v != "0"])


MUTANTS = [
    {"name": "ctz64-int-mask", "file": "include/aws/common/math.fallback.inl", "expect": "SHIFT", "old": "        if (n & (1ULL << idx)) {", "new": "        if (n & (1 << idx)) {"},
    {"name": "asm-mul-saturates-to-32-bit-ones", "file": "include/aws/common/math.gcc_x64_asm.inl", "expect": "ASM-FLAG", "old": "[saturate] \"rm\"(~0LL)\n            : /* clobbers: cc */ \"cc\");\n    (void)rdx;", "new": "[saturate] \"rm\"(~0U)\n            : /* clobbers: cc */ \"cc\");\n    (void)rdx;"},
    {"name": "convert-fast-path-skips-remainder", "file": "include/aws/common/clock.inl", "expect": "CONVERT", "old": "    AWS_FATAL_ASSERT(old_frequency > 0 && new_frequency > 0);\n", "new": "    AWS_FATAL_ASSERT(old_frequency > 0 && new_frequency > 0);\n    if (old_frequency == new_frequency) {\n        return ticks;\n    }\n"},
    {"name": "clz-size-calls-the-builtin-directly", "file": "include/aws/common/math.gcc_builtin.inl", "expect": "SPEC", "old": "AWS_STATIC_IMPL size_t aws_clz_size(size_t n) {\n#if SIZE_BITS == 64\n    return aws_clz_u64(n);\n#else\n    return aws_clz_u32(n);\n#endif", "new": "AWS_STATIC_IMPL size_t aws_clz_size(size_t n) {\n    return __builtin_clzl(n);"},
    {"name": "fraction-scaled-by-truncated-ratio", "file": "include/aws/common/clock.inl", "expect": "CONVERT", "old": "    uint64_t new_ticks_remainder_part = aws_mul_u64_saturating(old_remainder, new_frequency) / old_frequency;", "new": "    uint64_t new_ticks_remainder_part = (new_frequency >= old_frequency) ? aws_mul_u64_saturating(old_remainder, new_frequency / old_frequency) : aws_mul_u64_saturating(old_remainder, new_frequency) / old_frequency;"},
    {"name": "asm-add-reads-signed-overflow", "file": "include/aws/common/math.gcc_x64_asm.inl", "expect": "ASM-FLAG", "old": "    __asm__(\"addq %[argb], %[arga]\\n\" /* [arga] = [arga] + [argb] */\n            \"setc %[flag]\\n\"", "new": "    __asm__(\"addq %[argb], %[arga]\\n\" /* [arga] = [arga] + [argb] */\n            \"seto %[flag]\\n\""},
    {"name": "fallback-mul-refuses-exact-quotient", "file": "include/aws/common/math.fallback.inl", "expect": "SPEC", "old": "AWS_STATIC_IMPL int aws_mul_u64_checked(uint64_t a, uint64_t b, uint64_t *r) {\n    if (a > 0 && b > 0 && a > (UINT64_MAX / b))", "new": "AWS_STATIC_IMPL int aws_mul_u64_checked(uint64_t a, uint64_t b, uint64_t *r) {\n    if (b > 0 && a >= (UINT64_MAX / b))"},
    {"name": "asm-saturation-register-not-pinned", "file": "include/aws/common/math.gcc_x64_asm.inl", "expect": "VARIANTS", "old": '[arg2] "+a"(b)', "new": '[arg2] "+&r"(b)'},
    {"name": "power-of-two-test-through-a-32-bit-local", "file": "include/aws/common/math.inl", "expect": "NARROW", "old": "    return x && (!(x & (x - 1)));", "new": "    const uint32_t rest = x & (x - 1);\n    return x && !rest;"},
    {"name": "asm-mul-flags-cleared-before-seto", "file": "include/aws/common/math.gcc_x64_asm.inl", "expect": "ASM-FLAG", "old": "\"seto %[flag]\\n\"", "new": "\"xorl %%edx, %%edx\\n\"\n            \"seto %[flag]\\n\""},
    {"name": "convert-short-cut-on-the-wrong-operand", "file": "include/aws/common/clock.inl", "expect": "CONVERT", "old": "    uint64_t old_remainder = ticks - old_seconds_elapsed * old_frequency;", "new": "    if (ticks == UINT64_MAX) {\n        return UINT64_MAX;\n    }\n    uint64_t old_remainder = ticks - old_seconds_elapsed * old_frequency;"},
    {"name": "asm-output-not-early-clobber", "file": "include/aws/common/math.gcc_x64_asm.inl", "expect": "VARIANTS", "old": '[arg2] "+&r"(b)', "new": '[arg2] "+r"(b)'},
    {"name": "remainder-modulo-old-frequency", "file": "include/aws/common/clock.inl", "expect": "CONVERT", "old": "*remainder = ticks % frequency_ratio;", "new": "*remainder = ticks % old_frequency;"},
    {"name": "u64-saturates-to-u32-max", "file": "include/aws/common/math.gcc_overflow.inl", "expect": "SPEC",
     "old": "AWS_STATIC_IMPL uint64_t aws_add_u64_saturating(uint64_t a, uint64_t b) {\n    uint64_t res;\n\n    if (__builtin_add_overflow(a, b, &res)) {\n        res = UINT64_MAX;",
     "new": "AWS_STATIC_IMPL uint64_t aws_add_u64_saturating(uint64_t a, uint64_t b) {\n    uint64_t res;\n\n    if (__builtin_add_overflow(a, b, &res)) {\n        res = UINT32_MAX;"},
    {"name": "mul-checked-uses-add", "file": "include/aws/common/math.gcc_overflow.inl", "expect": "SPEC",
     "old": "AWS_STATIC_IMPL int aws_mul_u32_checked(uint32_t a, uint32_t b, uint32_t *r) {\n    if (__builtin_mul_overflow(a, b, r)) {", "new": "AWS_STATIC_IMPL int aws_mul_u32_checked(uint32_t a, uint32_t b, uint32_t *r) {\n    if (__builtin_add_overflow(a, b, r)) {"},
    {"name": "sub-checked-le", "file": "include/aws/common/math.inl", "expect": "SPEC",
     "old": "AWS_STATIC_IMPL int aws_sub_u64_checked(uint64_t a, uint64_t b, uint64_t *r) {\n    if (a < b) {", "new": "AWS_STATIC_IMPL int aws_sub_u64_checked(uint64_t a, uint64_t b, uint64_t *r) {\n    if (a <= b) {"},
    {"name": "fallback-add-off-by-one", "file": "include/aws/common/math.fallback.inl", "expect": "SPEC",
     "old": "AWS_STATIC_IMPL int aws_add_u64_checked(uint64_t a, uint64_t b, uint64_t *r) {\n    if ((b > 0) && (a > (UINT64_MAX - b)))", "new": "AWS_STATIC_IMPL int aws_add_u64_checked(uint64_t a, uint64_t b, uint64_t *r) {\n    if ((b > 0) && (a >= (UINT64_MAX - b)))"},
    {"name": "size-dispatch-swapped-width", "file": "include/aws/common/math.inl", "expect": "SPEC",
     "old": "    return aws_mul_u64_checked(a, b, (uint64_t *)r);", "new": "    return aws_add_u64_checked(a, b, (uint64_t *)r);"},
    {"name": "convert-raw-multiply", "file": "include/aws/common/clock.inl", "expect": "CONVERT",
     "old": "uint64_t new_ticks_whole_part = aws_mul_u64_saturating(old_seconds_elapsed, new_frequency);", "new": "uint64_t new_ticks_whole_part = old_seconds_elapsed * new_frequency;"},
    {"name": "max-returns-min", "file": "include/aws/common/math.inl", "expect": "SPEC",
     "old": "AWS_STATIC_IMPL uint64_t aws_max_u64(uint64_t a, uint64_t b) {\n    return a > b ? a : b;", "new": "AWS_STATIC_IMPL uint64_t aws_max_u64(uint64_t a, uint64_t b) {\n    return a < b ? a : b;"},
]
