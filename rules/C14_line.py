"""C14 line assembly: NUM obligations (filled in once sa/num.py exists)."""


def line_assembly(ctx, R, P):
    return
