"""C14 line assembly: NUM obligations on aws_format_standard_log_line and its caller (DESIGN.md section 4, C14 LINE).

For ALL formatted lengths (every possible (v)snprintf result, truncated or not) and all buffer sizes:
  LINE/bound       every (v)snprintf destination window, the timestamp window and the final newline / terminator stores lie
                   inside the total_length bytes of the line buffer;
  LINE/contiguous  after each (v)snprintf + advance the index is exactly on that write's terminator (start + min(result,
                   window-1)): the text so far is contiguous and the next write (or the newline) overwrites the terminator,
                   so the line contains no NUL and is not stepped past its end;
  LINE/reported    amount_written == index of the newline + 1 <= total_length;
  LINE/room        the caller hands over a buffer of at least total_length bytes.
"""
from sa import rules as RU
from sa.awslib import AwsHooks, in_bounds
from sa.bounds import access_sites, addr_size
from sa.num import Num, Poly, Limit, State, entails
from sa.rules import where

FILE = "source/log_formatter.c"
F = "aws_format_standard_log_line"


class LineHooks(AwsHooks):
    def entry(self, num, st):
        if num.fn.name != F:
            return
        p = num.fn.params[0]
        fd = num.read({"k": "var", "n": p["n"], "sc": "param", "t": p["t"], "id": -1}, st)
        base = num.base_of(st, fd)
        buf = num.field(st, base + "log_line_buffer", "aws_logging_standard_formatting_data", "log_line_buffer")
        tot = num.field(st, base + "total_length", "aws_logging_standard_formatting_data", "total_length")
        st.extent[list(buf.t)[0][0]] = tot
        st.add(Poly.const(1) - buf)
        st.add(tot - 2 ** 32)  # the caller computes total_length from ints (checked at the call: LINE/room)

    def call(self, num, st, e, args):
        c = e.get("callee") or ""
        if c in ("snprintf", "vsnprintf"):
            fmt = RU.uncast(num.fn, e["a"][2]) if len(e["a"]) > 2 else None
            while fmt is not None and fmt["k"] in ("decay", "cast"):
                fmt = num.fn.d(fmt["a"][0])
            if fmt is not None and fmt["k"] == "str" and "%" not in fmt["v"] and len(e["a"]) == 3:
                r = Poly.const(len(fmt["v"]))  # no conversions: the result is the literal's length
            else:
                r = Poly.atom(num.fresh(st, "printed", None, (-1, 2 ** 31 - 1)))
            num.cell_store(st, args[0])
            st.notes["last_write"] = (args[0], args[1], r, e.get("loc", [0])[0])
            return r
        if c == "aws_date_time_to_utc_time_str" and len(args) >= 3 and args[2] is not None:
            base = self._cbase(num, st, e, 2, args)
            ln = num.field(st, base + "len", "aws_byte_buf", "len")
            cap = num.field(st, base + "capacity", "aws_byte_buf", "capacity")
            outs = []
            s1 = st.copy()
            nl = Poly.atom(num.fresh(s1, "timestamp_len", None, (0, 2 ** 63)))
            s1.add(ln - nl)
            s1.add(nl - cap)
            s1.env[base + "len"] = nl
            s1.notes.pop("last_write", None)
            num.cell_store(s1, s1.env.get(base + "buffer"))
            s1.vals[e["id"]] = Poly.const(0)
            outs.append(s1)
            s2 = st.copy()
            s2.vals[e["id"]] = Poly.const(-1)
            outs.append(s2)
            return outs
        if c in ("aws_log_level_to_string", "aws_thread_id_t_to_string"):
            num.havoc_call(e, st)
            outs = []
            for rv in (0, -1):
                s = st.copy()
                s.vals[e["id"]] = Poly.const(rv)
                outs.append(s)
            return outs
        if c in ("aws_date_time_init_now", "aws_thread_current_thread_id"):
            num.havoc_call(e, st)
            t = num.ty(e)
            return Poly.atom(num.fresh(st, c, t)) if ("w" in t or t.get("ptr")) else None
        return AwsHooks.call(self, num, st, e, args)


def private_buffers(R, P):
    """LINE/private-buffer: every caller of aws_format_standard_log_line assembles the line in storage that belongs to this
    call alone - an automatic array or a block allocated in the call - because formatting runs before (outside) any lock:
    a static or global line buffer is shared by all threads that log at the same time."""
    n = 0
    for g in P.by_key.values():
        cs = g.calls(F)
        if not cs or g.name == F:
            continue
        R.fn(g)
        bufs = []
        for b in g.blocks.values():
            for el in b.elems:
                for x in g.walk(el):
                    if x["k"] == "init" and "fields" in x:
                        for fld, a in zip(x["fields"], x.get("a", [])):
                            if fld == "log_line_buffer":
                                bufs.append(a)
                    if x["k"] == "bin" and x["op"] == "=" and (g.d(x["a"][0]) or {}).get("k") == "member" and g.d(x["a"][0])["f"] == "log_line_buffer":
                        bufs.append(x["a"][1])
        if not R.require(bool(bufs), "%s: the line buffer handed to %s not found" % (g.name, F)):
            continue
        for a in bufs:
            n += 1
            shared = sorted({x["n"] for x in g.walk(a, follow_refs=True) if x["k"] == "var" and x.get("sc") in ("slocal", "global")})
            R.check(not shared, "LINE", "private-buffer:%s" % g.name, where(g, cs[0]), "the line is assembled in storage private to the call (%s)" % g.show(a)[:50],
                    "the line is assembled in %s, which has static storage and is shared by every thread that logs: concurrent calls format into the same bytes before the lock is taken (torn, merged or NUL-containing lines)" % shared)
    R.require(n >= 2, "only %d callers of %s found (confirmed: default formatter, no-alloc logger)" % (n, F))


def private_state(R, P):
    """LINE/private-state: the line formatter runs before (outside) every lock, on any thread that logs: each mutable
    variable with static storage it touches is thread-local (the cached thread-id text belongs to the calling thread)."""
    f = P.fn(F)
    if f is None:
        return
    seen, bad = set(), []
    for b in f.blocks.values():
        for el in list(b.elems) + ([b.cond] if b.cond is not None else []):
            for x in f.walk(el):
                if x["k"] == "var" and x.get("sc") in ("global", "slocal") and x["n"] not in seen:
                    seen.add(x["n"])
                    g = P.globals.get(x["n"]) or {}
                    t = f.unit.types[x["t"]] if x.get("t", -1) >= 0 else {}
                    if g.get("const") or t.get("fnptr") or x.get("sc") == "global" and not g:
                        continue
                    if not g.get("tls"):
                        bad.append(x["n"])
    R.check(not bad and any((P.globals.get(n_) or {}).get("tls") for n_ in seen), "LINE", "private-state:%s" % F, "%s in %s()" % (FILE, F), "the mutable static-storage variables the formatter uses are thread-local (%s)" % sorted(n_ for n_ in seen if (P.globals.get(n_) or {}).get("tls")),
            "the line formatter reads and writes %s, which has static storage and is not thread-local: every thread that logs shares it without a lock (each line carries the thread id of whichever thread filled the cache first)" % bad)


def line_assembly(ctx, R, P):
    private_buffers(R, P)
    private_state(R, P)
    f = P.fn(F)
    if not R.require(f is not None, "%s not found" % F):
        return
    R.fn(f)
    hooks = LineHooks()
    num = Num(f, P, hooks, max_paths=40000)
    sites = access_sites(f)
    adv = []
    for b in f.blocks.values():
        for el in b.elems:
            if el["k"] == "bin" and el["op"] in ("=", "+="):
                lhs = f.d(el["a"][0])
                if lhs is not None and lhs["k"] == "un" and lhs["op"] == "deref":
                    # a store through the out-parameter of an expanded helper that was handed &current_index
                    tgt = RU.see_bound(f, f.d(lhs["a"][0]))
                    tgt = RU.strip_addr(f, tgt) if tgt is not None else None
                    if tgt is not None and f.show(tgt) == "current_index":
                        adv.append(el)
                elif lhs is not None and f.show(lhs) == "current_index":
                    adv.append(el)
    rets = [x for b in f.blocks.values() for x in b.elems if x["k"] == "ret"]
    R.require(len(adv) >= 6, "only %d index updates found in %s" % (len(adv), F))
    try:
        sts = num.states_at({s[0] for s in sites} | {r["id"] for r in rets}, after_ids={a["id"] for a in adv})
    except Limit as ex:
        R.broken("NUM trace limit in %s: %s" % (F, ex))
        return
    n = 0
    for eid, kind, nd in sites:
        txt = f.show(nd)
        if not ("log_line_buffer" in txt or (kind == "mem" and nd.get("callee") in ("snprintf", "vsnprintf"))):
            continue
        ok, det, cnt = True, "", 0
        for st in sts.get(eid, []):
            s2 = st.copy()
            for (D, sz, mode) in addr_size(num, s2, kind, nd):
                cnt += 1
                r = in_bounds(s2, D, sz)
                if r[0] != "ok":
                    ok, det = False, r[1] + " | branch trail " + str(s2.trail[-5:])
        n += 1
        R.check(ok and cnt > 0, "LINE", "bound:%s:line%d" % (kind, (nd.get("loc") or [0])[0]), where(f, nd), "inside the line buffer for every formatted length (%d states)" % cnt,
                "a write of the log line can leave the total_length bytes of its buffer: %s" % det)
    R.require(n >= 7, "only %d line-buffer accesses analysed" % n)
    # contiguity after each (v)snprintf + advance
    for a in adv:
        okc, det, cnt = True, "", 0
        for st in sts.get(("after", a["id"]), []):
            lw = st.notes.get("last_write")
            if lw is None or lw[0] is None or lw[1] is None:
                continue
            dest, win, r, line = lw
            if abs(line - a["loc"][0]) > 12:
                continue
            buf = [v for k, v in st.env.items() if k.endswith("log_line_buffer")]
            cur = st.env.get("v:current_index")
            if not buf or cur is None:
                okc, det = False, "index not tracked"
                continue
            if entails(st, r + 1):  # a negative result is an error path
                continue
            i = dest - buf[0]
            cnt += 1
            if entails(st, win) and entails(st, -win):
                want = i  # an empty window: nothing is written
            elif entails(st, r - win + 1):
                want = i + r
            elif entails(st, win - r):
                want = i + win - 1
            else:
                okc, det = False, "neither `fits` nor `truncated` is decided on a path (result %r, window %r)" % (r, win)
                continue
            if not (entails(st, cur - want) and entails(st, want - cur)):
                okc, det = False, "after the write at line %d (start %r, window %r, result %r) the index is %r, not on the terminator %r" % (line, i, win, r, cur, want)
        if cnt:
            R.check(okc, "LINE", "contiguous:line%d" % a["loc"][0], "%s:%d in %s()" % (FILE, a["loc"][0], F), "the index lands on the terminator of the text just written in all %d states (no NUL inside the line, never past the window)" % cnt,
                    "the log line can contain a NUL or skip bytes: %s" % det)
    # reported length
    okr, det, cnt = True, "", 0
    for r in rets:
        for st in sts.get(r["id"], []):
            rv = num.val(r["a"][0], st)
            if not (rv is not None and rv.is_const() and rv.cval() == 0):
                continue
            aw = [v for k, v in st.env.items() if k.endswith("amount_written")]
            tot = [v for k, v in st.env.items() if k.endswith(")->total_length")]
            cur = st.env.get("v:current_index")
            cnt += 1
            if len(aw) != 1 or len(tot) != 1 or cur is None or not (entails(st, aw[0] - cur - 1) and entails(st, cur + 1 - aw[0]) and entails(st, aw[0] - tot[0])):
                okr, det = False, "amount_written %s, index %r, total %s" % (aw, cur, tot)
    R.check(okr and cnt > 0, "LINE", "reported-length", "%s()" % F, "amount_written is the newline's index + 1 and at most total_length (%d success states)" % cnt, "the reported line length is wrong: %s" % det)
    # the caller's buffer
    # literal characters of the line's format strings (everything but the conversions) + the newline
    LIT, prints_subject = 1, False
    import re as _re
    for e_ in f.calls({"snprintf"}):
        fm = RU.uncast(f, e_.node["a"][2]) if len(e_.node["a"]) > 2 else None
        while fm is not None and fm["k"] in ("decay", "cast"):
            fm = f.d(fm["a"][0])
        if fm is not None and fm["k"] == "str":
            LIT += len(_re.sub(r"%[-0-9.lzhjt]*[a-zA-Z]", "", fm["v"]))
            if len(e_.node["a"]) > 3 and "subject_name" in f.show(e_.node["a"][3]):
                prints_subject = True
    R.require(LIT >= 10 and prints_subject, "line formatter: format literals / subject piece not found (%d literal characters)" % LIT)
    g = P.fn("s_default_aws_log_formatter_format")
    if R.require(g is not None, "s_default_aws_log_formatter_format not found"):
        R.fn(g)

        class CallerHooks(AwsHooks):
            def call(self, num2, st, e, args):
                c = e.get("callee") or ""
                if c == "vsnprintf":
                    r_ = Poly.atom(num2.fresh(st, "needed", None, (-1, 2 ** 30)))
                    st.notes["needed"] = r_
                    return r_
                if c == "strlen":
                    r_ = Poly.atom(num2.fresh(st, "subject_len", None, (0, 2 ** 20)))  # ASSUMED: registered subject names are short
                    st.notes["subject_len"] = r_
                    return r_
                if c == F:
                    fd = args[0]
                    base = num2.base_of(st, fd) if fd is not None else None
                    buf = st.env.get(base + "log_line_buffer") if base else None
                    tot = st.env.get(base + "total_length") if base else None
                    # the buffer is the flexible `bytes` member of the aws_string just allocated: room = allocation - offset
                    rs = st.env.get("v:raw_string")
                    ok = False
                    if buf is not None and tot is not None and rs is not None and len(rs.t) == 1:
                        ext = st.extent.get(list(rs.t)[0][0])
                        off = num2.field_off({"rec": "aws_string", "f": "bytes"})
                        ok = ext is not None and off is not None and entails(st, tot + off - ext) and entails(st, tot - 2 ** 32)
                    num2.__dict__.setdefault("room", []).append((e, ok, repr(buf), repr(tot)))
                    # completeness: room for every variable-length piece plus the literal characters of the line
                    nd, sl = st.notes.get("needed"), st.notes.get("subject_len")
                    want = Poly.const(LIT)
                    if nd is not None:
                        want = want + nd
                    if sl is not None:
                        want = want + sl
                    sn = st.env.get("v:subject_name")
                    no_name = sn is not None and entails(st, sn) and entails(st, -sn)  # a NULL name prints nothing
                    okc = tot is not None and nd is not None and (sl is not None or not prints_subject or no_name) and entails(st, want - tot)
                    num2.__dict__.setdefault("complete", []).append((e, okc, repr(tot), repr(want)))
                    return Poly.atom(num2.fresh(st, "format", num2.ty(e)))
                return AwsHooks.call(self, num2, st, e, args)
        n2 = Num(g, P, CallerHooks(), max_paths=20000)
        try:
            n2.states_at({-1})
        except Limit as ex:
            R.broken(str(ex))
        room = getattr(n2, "room", [])
        R.check(bool(room) and all(ok for e, ok, b, t in room), "LINE", "room", where(g, room[0][0]) if room else g.name, "the formatter is handed a buffer of at least total_length bytes (%d states)" % len(room),
                "the line buffer handed to the formatter is shorter than total_length: %s" % [(b, t) for e, ok, b, t in room if not ok][:2])
        comp = getattr(n2, "complete", [])
        R.check(bool(comp) and all(ok for e, ok, t, w in comp), "LINE", "complete", where(g, comp[0][0]) if comp else g.name,
                "total_length covers the formatted message, the subject name and the %d literal characters of the line for every message and subject length (%d states): the allocating formatter does not cut these off" % (LIT, len(comp)),
                "the line is sized without one of its variable-length pieces (total_length %s, needed at least %s): long subject names or messages are truncated by the default formatter" % ((comp[0][2], comp[0][3]) if comp else ("?", "?")))
