"""C19 - date-time formatting / parsing: tables, field mapping, offsets and epoch views (DESIGN.md section 4, C19)."""
from sa import rules as RU
from sa.cfg import Typestate, dominators, ev_dominates
from sa.extract import library_units
from sa.num import Num, Poly, Limit, State, entails
from sa.rules import argstr, where
from rules import C04

FILE = "source/date_time.c"
MONTHS = ["jan", "feb", "mar", "apr", "may", "jun", "jul", "aug", "sep", "oct", "nov", "dec"]

DECIDED = [
    "MONTH-TABLE: every month key is built from its own three-letter abbreviation, and the RFC 822 month lookup returns for the key of the k-th month of the year the index k (0-based, matching struct tm and strftime's %b), -1 otherwise",
    "FIELD-MAP: the ISO 8601 reader fills tm_year/tm_mon/tm_mday/tm_hour/tm_min/tm_sec from 4/2/2/2/2/2 digits in that order with year-1900 and month-1, the digit reader accumulates decimal digits, and the calendar accessors undo exactly those adjustments (tm_year+1900, tm_mon unchanged as the 0-based enum) and read the field their name says from the view (local / UTC) the flag selects",
    "OFFSET: for all parsed digits, the ISO offset is sign*(3600*hh + 60*mm) with the sign of the '+'/'-' read, the RFC 822 numeric zone gives the same expression with the sign of tz[0], and the instant stored is the calendar conversion minus that offset; UTC conversion (timegm) is used whenever a zone or offset was given (NUM)",
    "FORMAT-TABLE: the strftime patterns are the RFC 822 / ISO 8601 extended / basic, long / date-only ones, each formatting function maps each format constant to the pattern of that format and length and reads the broken-down view its name says; the parser dispatches each format constant to the parser of that format and auto-detection tries ISO 8601 first, then RFC 822",
    "UNITS: the epoch views convert `timestamp` from seconds and `milliseconds` from milliseconds into the unit the accessor's name says; the constructors store the quotient in seconds and the remainder in milliseconds",
    "FIELD-MAP/rfc822: every digit the RFC 822 state machine consumes is added to a field of the parsed time (found D22, fixed); text the ISO 8601 parser accepted is converted as UTC; the RFC 822 zone digits are decimal",
    "FORMAT-TABLE/date-only: each parser has an accepting exit before any time-of-day field for the date-only text its family's formatter emits (ISO 8601: yes; RFC 822: known finding D23)",
    "UNITS/nanos: the nanosecond view's factor and result width cover the property's range to year 9999 (they do not: known finding D24)",
    "ZONES: the UTC designators accepted are z, ut, utc, gmt (case-insensitive) and signed four-digit offsets",
]
NOT_DECIDED = ["the calendar arithmetic itself (delegated to timegm / gmtime_r / strftime of the C library)", "round-trip equality of formatted text", "the RFC 822 state machine's field positions (only its month table, zone handling and memory safety, C04)"]
ASSUMPTIONS = list(C04.ASSUMPTIONS)


def _lit(f, n):
    n = RU.uncast(f, n)
    while n is not None and n["k"] in ("decay", "cast"):
        n = f.d(n["a"][0])
    return n["v"] if n is not None and n["k"] == "str" else None


def month_table(R, P):
    ini = P.fn("s_check_init_str_to_int")
    g = P.fn("get_month_number_from_str")
    if not R.require(ini is not None and g is not None, "month table functions not found"):
        return
    R.fn(ini)
    R.fn(g)
    keys = {}
    chars, shifts = {}, {}
    for b in ini.blocks.values():
        for el in b.elems:
            for x in ini.walk(el):
                loc = x.get("loc") or [0, 0]
                if x["k"] == "index":
                    ci = ini.is_const(x["a"][1])
                    if ci is not None and 32 < ci < 127:
                        chars.setdefault(loc[0], []).append(((-b.id, b.elems.index(el)), chr(ci)))
                if x["k"] == "bin" and x["op"] == "=":
                    l = ini.d(x["a"][0])
                    if l is not None and l["k"] == "var" and l["n"].startswith("s_"):
                        keys[l["n"]] = loc[0]
                        shifts[l["n"]] = [ini.is_const(y["a"][1]) for y in ini.walk(x["a"][1]) if y["k"] == "bin" and y["op"] == "<<"]
    # (tolower is a statement-expression macro and the literal's characters are folded into its table subscripts: the
    # characters of one key appear, in order of their column, on that key's source line)
    def seq(ln):
        out = []
        for pos, ch in sorted(chars.get(ln, [])):  # evaluation order: clang numbers CFG blocks downwards from the entry
            if not out or out[-1] != ch:
                out.append(ch)
        return "".join(out)
    built = {k: seq(ln) for k, ln in keys.items()}
    bad = [k for k in keys if built[k] != k[2:] or shifts.get(k) not in ([0, 8, 16], [8, 16])]  # (the first character may be written without `<< 0`)
    R.check(len(keys) >= 14 and not bad, "MONTH-TABLE", "keys-built-from-own-name", "%s()" % ini.name, "each of the %d keys packs the three letters of its own abbreviation at bits 0, 8, 16" % len(keys),
            "keys %s are not built from their own three letters (%s)" % (bad, {k: built[k] for k in bad}))
    # lookup: comparison with s_<mon> returns its calendar index
    got = {}
    for b in g.blocks.values():
        if b.cond is None:
            continue
        c = g.d(b.cond)
        c = RU.uncast(g, c)
        if c is None or c["k"] != "bin" or c["op"] != "==":
            continue
        names = [x["n"] for x in g.walk(c, follow_refs=True) if x["k"] == "var" and x["n"].startswith("s_")]
        other = [x["n"] for x in g.walk(c, follow_refs=True) if x["k"] == "var" and not x["n"].startswith("s_")]
        if len(names) != 1 or other != ["comp_val"]:
            continue
        # the value returned on the true edge
        tb = b.succ[0]
        rets = [el for el in g.blocks[tb].elems if el["k"] == "ret"] if tb is not None else []
        if rets:
            got[names[0][2:]] = g.is_const(RU.uncast(g, rets[0]["a"][0]))
    if not got:
        # the same lookup as a table walk: a local array initialised {s_jan, ..., s_dec}, scanned upwards from 0, returning
        # the position of the first element equal to the key
        for b in g.blocks.values():
            for el in b.elems:
                if el["k"] == "decl":
                    for v in el["vars"]:
                        i_ = g.d(v.get("init")) if v.get("init") is not None else None
                        if i_ is not None and i_["k"] == "init" and all((g.d(a) or {}).get("k") == "var" and g.d(a)["n"].startswith("s_") for a in i_["a"]):
                            arr, order = v["n"], [g.d(a)["n"][2:] for a in i_["a"]]
                            for b2 in g.blocks.values():
                                c2 = RU.uncast(g, b2.cond) if b2.cond is not None else None
                                if c2 is None or c2["k"] != "bin" or c2["op"] != "==":
                                    continue
                                ix = [x for x in c2["a"] if (RU.uncast(g, x) or {}).get("k") == "index"]
                                kv = [x for x in c2["a"] if (RU.uncast(g, x) or {}).get("k") == "var" and RU.uncast(g, x)["n"] == "comp_val"]
                                if len(ix) != 1 or len(kv) != 1:
                                    continue
                                ixn = RU.uncast(g, ix[0])
                                base = RU.uncast(g, ixn["a"][0])
                                while base is not None and base["k"] in ("decay", "cast"):
                                    base = g.d(base["a"][0])
                                iv = RU.uncast(g, ixn["a"][1])
                                tb = b2.succ[0]
                                rets = [x for x in g.blocks[tb].elems if x["k"] == "ret"] if tb is not None else []
                                if base is not None and base["k"] == "var" and base["n"] == arr and iv is not None and iv["k"] == "var" and rets and g.show(RU.uncast(g, rets[0]["a"][0])) == iv["n"]:
                                    # the index variable starts at 0 and is only incremented by one
                                    init0 = [vv.get("init") for e2 in g.all_events() if e2.kind == "decl" for vv in e2.node["vars"] if vv["n"] == iv["n"]]
                                    steps = [x["op"] for bb in g.blocks.values() for e3 in bb.elems for x in g.walk(e3) if x["k"] == "un" and x["op"] in ("pre++", "post++", "pre--", "post--") and (g.d(x["a"][0]) or {}).get("n") == iv["n"]]
                                    asg = [1 for bb in g.blocks.values() for e3 in bb.elems for x in g.walk(e3) if x["k"] == "bin" and x["op"] in ("=", "+=", "-=") and (g.d(x["a"][0]) or {}).get("n") == iv["n"]]
                                    if init0 and init0[0] is not None and g.is_const(RU.uncast(g, init0[0])) == 0 and steps and all(s_ in ("pre++", "post++") for s_ in steps) and not asg:
                                        got = {m: k for k, m in enumerate(order)}
    want = {m: i for i, m in enumerate(MONTHS)}
    R.check(got == want, "MONTH-TABLE", "lookup-returns-calendar-index", "%s()" % g.name, "jan..dec map to 0..11", "the month lookup maps %s" % {k: v for k, v in got.items() if want.get(k) != v} if got else "no month comparisons found")
    fall = [r for r in g.returns() if g.is_const(RU.uncast(g, r.node["a"][0])) == -1]
    R.check(len(fall) >= 2, "MONTH-TABLE", "unknown-month-is-minus-one", "%s()" % g.name, "anything else (or fewer than three characters) gives -1")
    cv = [e for e in g.all_events() if e.kind == "decl" and any(v["n"] == "comp_val" for v in e.node["vars"])]
    okc = False
    if cv:
        ln = cv[0].line
        ix, names = set(), set()
        for b in g.blocks.values():
            for el in b.elems:
                for x in g.walk(el):
                    if (x.get("loc") or [0])[0] == ln:
                        if x["k"] == "index" and g.is_const(x["a"][1]) is not None:
                            ix.add(g.is_const(x["a"][1]))
                        if x["k"] == "var":
                            names.add(x["n"])
        okc = sorted(ix) == [0, 1, 2] and {"time_string", "start_index"} <= names
    R.check(okc, "MONTH-TABLE", "lookup-key-from-three-characters", where(g, cv[0]) if cv else g.name, "the key compared is packed from the three characters at start_index the same way")


def field_map(R, P):
    f = P.fn("s_parse_iso_8601")
    rd = P.fn("s_read_n_digits")
    if not R.require(f is not None and rd is not None, "ISO 8601 parser not found"):
        return
    R.fn(f)
    R.fn(rd)
    # decided on the values (NUM): the k-th group of digits read has the width ISO 8601 gives it, and at every accepting
    # return the struct tm holds year-1900, month-1, day, hour, minute, second of the groups read so far - whether a group is
    # read straight into its field or into a local first, adjusted in place or on assignment
    class _IsoHooks(C04.ParserHooks):
        def call(self, num_, st, e, args):
            if e.get("callee") == "s_read_n_digits" and len(e.get("a", [])) == 3:
                d_ = Poly.atom(num_.fresh(st, "digits", None, (0, 9999)))
                tgt = num_.fn.d(e["a"][2])
                while tgt is not None and tgt["k"] == "cast":
                    tgt = num_.fn.d(tgt["a"][0])
                if tgt is not None and tgt["k"] == "un" and tgt["op"] == "addr":
                    num_.write(num_.fn.d(tgt["a"][0]), d_, st)
                w_ = args[1].cval() if args[1] is not None and args[1].is_const() else None
                st.notes["reads"] = tuple(st.notes.get("reads", ())) + ((w_, d_),)
                return Poly.atom(num_.fresh(st, "read_ok", None, (0, 1)))
            return C04.ParserHooks.call(self, num_, st, e, args)
    numi = Num(f, P, _IsoHooks(), max_paths=30000)
    retsi = [x for b in f.blocks.values() for x in b.elems if x["k"] == "ret"]
    try:
        stsi = numi.states_at({r_["id"] for r_ in retsi})
    except Limit as ex:
        R.broken(str(ex))
        stsi = {}
    widths = [4, 2, 2, 2, 2, 2, 2, 2]
    fields = [("tm_year", 1900), ("tm_mon", 1), ("tm_mday", 0), ("tm_hour", 0), ("tm_min", 0), ("tm_sec", 0)]
    n_acc, badw, badf = 0, None, None
    for r_ in retsi:
        for st in stsi.get(r_["id"], []):
            rv = numi.val(r_["a"][0], st) if r_.get("a") else None
            if rv is None or not rv.is_const() or rv.cval() != 1:
                continue
            rd_ = st.notes.get("reads", ())
            n_acc += 1
            if [w for w, d in rd_] != widths[:len(rd_)] or len(rd_) < 3:
                badw = [w for w, d in rd_]
            for k_, (fld, adj) in enumerate(fields):
                if k_ >= len(rd_):
                    break
                v_ = [x for key_, x in st.env.items() if key_.endswith("->" + fld) and not key_.startswith("&")]
                want = rd_[k_][1] - adj
                if len(v_) != 1 or not (entails(st, v_[0] - want) and entails(st, want - v_[0])):
                    badf = "%s holds %r for the digits %r (expected digits - %d)" % (fld, v_, rd_[k_][1], adj)
    R.require(n_acc >= 3, "s_parse_iso_8601: only %d accepting return states" % n_acc)
    R.check(badw is None, "FIELD-MAP", "iso8601:field-order-and-widths", "%s()" % f.name, "year(4) month day hour minute second then the offset's hours and minutes (2 digits each)", "the ISO 8601 reader reads digit groups of widths %s" % badw)
    R.check(badf is None, "FIELD-MAP", "iso8601:struct-tm-adjustments", "%s()" % f.name, "year - 1900 and month - 1, the other fields as read (%d accepting states)" % n_acc, "the struct tm is filled wrongly: %s" % badf)
    # digit accumulation val = val*10 + (c - '0') under isdigit
    acc = None
    for b in rd.blocks.values():
        for el in b.elems:
            if el["k"] == "bin" and el["op"] == "=" and rd.show(rd.d(el["a"][0])) == "val":
                acc = (el, rd.show(rd.d(el["a"][1])))
    okacc = acc is not None and acc[1].replace(" ", "") in ("((val*10)+(c-48))", "((val*10)+((int)c-48))")
    if acc is not None and okacc:
        ev = [e for e in rd.all_events() if e.node is acc[0] or (e.kind == "access" and e.blk == rd.elem_blk(acc[0]) if hasattr(rd, "elem_blk") else False)]
    gd = False
    if acc is not None:
        for b in rd.blocks.values():
            if acc[0] in b.elems:
                e0 = [e for e in rd.all_events() if e.blk == b.id]
                if e0:
                    gd = any((RU.cond_call(rd, c)[0] or {}).get("callee") == "aws_isdigit" and pol != RU.cond_call(rd, c)[1] for c, pol, bb in RU.guards(rd, e0[0]))
    R.check(okacc and gd, "FIELD-MAP", "digits-accumulate-decimal", "%s()" % rd.name, "val = val*10 + (c - '0') under aws_isdigit(c)", "the digit reader computes %s" % (acc[1] if acc else None))
    # accessors
    acc_want = {"aws_date_time_year": ("tm_year", 1900), "aws_date_time_month": ("tm_mon", 0), "aws_date_time_month_day": ("tm_mday", 0), "aws_date_time_day_of_week": ("tm_wday", 0), "aws_date_time_hour": ("tm_hour", 0),
                "aws_date_time_minute": ("tm_min", 0), "aws_date_time_second": ("tm_sec", 0), "aws_date_time_dst": ("tm_isdst", 0)}
    for name, (fld, add) in sorted(acc_want.items()):
        a = P.fn(name)
        if not R.require(a is not None, "%s not found" % name):
            continue
        R.fn(a)
        rets = a.returns()
        flds = {x["f"] for r in rets for x in a.walk(r.node, follow_refs=True) if x["k"] == "member" and x.get("rec") == "tm"}
        adds = [a.is_const(x["a"][1]) for r in rets for x in a.walk(r.node, follow_refs=True) if x["k"] == "bin" and x["op"] in ("+", "-")]
        sel = [b for b in a.blocks.values() if b.cond is not None and a.show(b.cond).strip("()") == "local_time"]
        srcs = sorted({x["f"] for b in a.blocks.values() for el in b.elems for x in a.walk(el) if x["k"] == "member" and x.get("rec") == "aws_date_time"})
        R.check(flds == {fld} and (adds == ([add] if add else [])) and len(sel) == 1 and srcs == ["gmt_time", "local_time"], "FIELD-MAP", "%s:reads-%s" % (name, fld), "%s()" % name,
                "returns %s%s of the view selected by local_time" % (fld, " + %d" % add if add else ""), "%s returns %s with adjustments %s from %s" % (name, sorted(flds), adds, srcs))


def rfc822_digits(R, P):
    """FIELD-MAP/rfc822: the state machine consumes one character per step; a digit it consumes belongs to a numeric
    field, so every branch taken because the character is a digit adds it to a field of the parsed time (the sibling
    branches all do: field = field*10 + (c - '0')) - a digit that only switches the state is lost from its field"""
    from sa.cfg import edges
    f = P.fn("s_parse_rfc_822")
    if not R.require(f is not None, "s_parse_rfc_822 not found"):
        return
    R.fn(f)
    n, bad = 0, []
    for bid, b in sorted(f.blocks.items()):
        if b.cond is None:
            continue
        cc, neg = RU.cond_call(f, b.cond)
        if cc is None or cc.get("callee") != "aws_isdigit":
            continue
        for succ, cnd, pol in edges(f, bid):
            if pol is not (not neg):
                continue
            n += 1
            acc = []
            for el in f.blocks[succ].elems:
                if el["k"] == "bin" and el["op"] in ("=", "+=") and (f.d(el["a"][0]) or {}).get("k") == "member" and f.d(el["a"][0]).get("rec") == "tm":
                    lhs = f.show(f.d(el["a"][0]))
                    rhs = f.show(f.d(el["a"][1])).replace(" ", "")
                    if rhs in ("((%s*10)+(c-48))" % lhs, "((%s*10)+((int)c-48))" % lhs, "(c-48)", "((int)c-48)"):
                        acc.append(lhs)
            if not acc:
                st_ = [f.show(el)[:50] for el in f.blocks[succ].elems if el["k"] == "bin" and el["op"] == "="]
                bad.append("line %d: a digit is consumed with only %s" % ((f.d(b.cond) or {}).get("loc", [0])[0], st_))
    R.check(not bad and n >= 6, "FIELD-MAP", "rfc822:every-digit-consumed-is-accumulated", "%s()" % f.name, "%d digit branches each add the digit to a field of the parsed time" % n,
            "the RFC 822 state machine drops a digit (%s): `15 Oct 2020 ...` (no week day) is read as day 5, `1 Jan` as day 0" % "; ".join(bad[:2]))


class OffHooks(C04.ParserHooks):
    def call(self, num, st, e, args):
        c = e.get("callee")
        if c in ("aws_timegm", "mktime", "strtol"):
            a = Poly.atom(num.fresh(st, c, None, (None, None)))
            st.notes.setdefault("libcalls", {})[e["id"]] = (c, a)
            st.notes["libcalls"] = dict(st.notes["libcalls"])
            return a
        return C04.ParserHooks.call(self, num, st, e, args)


def offsets(R, P):
    f = P.fn("s_parse_iso_8601")
    if R.require(f is not None, "s_parse_iso_8601 not found"):
        num = Num(f, P, C04.ParserHooks(), max_paths=30000)
        rets = [x for b in f.blocks.values() for x in b.elems if x["k"] == "ret"]
        try:
            sts = num.states_at({r["id"] for r in rets})
        except Limit as ex:
            R.broken(str(ex))
            sts = {}
        n_ok, bad, nz = 0, None, 0
        for r in rets:
            for st in sts.get(r["id"], []):
                rv = num.val(r["a"][0], st)
                if rv is None or not rv.is_const() or rv.cval() != 1:
                    continue
                off = [v for k, v in st.env.items() if k.endswith(")->") and "seconds_offset" in k]
                if len(off) != 1:
                    bad = "offset not tracked"
                    continue
                h, m, neg = st.env.get("v:hours_offset"), st.env.get("v:minutes_offset"), st.env.get("v:negative_offset")
                if h is None or m is None:
                    if not (off[0].is_const() and off[0].cval() == 0):
                        bad = "a path without an offset stores %r" % off[0]
                    else:
                        nz += 1
                    continue
                c = st.env.get("v:c")
                sgn = None
                if c is not None and entails(st, c - 45) and entails(st, Poly.const(45) - c):
                    sgn = -1
                elif c is not None and entails(st, c - 43) and entails(st, Poly.const(43) - c):
                    sgn = 1
                want = (h * 3600 + m * 60) * (sgn or 0)
                if sgn is None or not (entails(st, off[0] - want) and entails(st, want - off[0])):
                    bad = "offset %r for sign character %r, hours %r, minutes %r" % (off[0], c, h, m)
                else:
                    n_ok += 1
        R.check(n_ok >= 2 and nz >= 2 and bad is None, "OFFSET", "iso8601:offset-value", "%s()" % f.name, "sign*(3600*hh+60*mm) with the sign of the character read (%d states), 0 without an offset (%d states)" % (n_ok, nz),
                "the ISO 8601 offset is wrong: %s" % bad)
    g = P.fn("aws_date_time_init_from_str_cursor")
    if not R.require(g is not None, "aws_date_time_init_from_str_cursor not found"):
        return
    R.fn(g)
    num = Num(g, P, OffHooks(), max_paths=30000)
    # the statement dt->timestamp -= seconds_offset
    sub = None
    for b in g.blocks.values():
        for el in b.elems:
            if el["k"] == "bin" and el["op"] in ("-=", "+=") and g.show(g.d(el["a"][1])) == "seconds_offset":
                l_ = g.d(el["a"][0])
                if g.show(l_) == "dt->timestamp":
                    sub = el
                elif l_ is not None and l_["k"] == "var" and l_.get("sc") == "local":
                    # applied to a local that then becomes dt->timestamp (an expanded helper computes the instant)
                    for b2 in g.blocks.values():
                        for el2 in b2.elems:
                            if el2["k"] == "bin" and el2["op"] == "=" and g.show(g.d(el2["a"][0])) == "dt->timestamp" and g.show(g.d(el2["a"][1]), alias=True) == l_["n"]:
                                sub = el
    if not R.require(sub is not None, "the offset application to dt->timestamp not found"):
        return
    R.check(sub["op"] == "-=", "OFFSET", "init_from_str:offset-subtracted", "%s:%d in %s()" % (FILE, sub["loc"][0], g.name), "the offset (east positive) is subtracted from the UTC conversion of the local fields",
            "the zone offset is added instead of subtracted: +hh:mm zones move the instant the wrong way")
    try:
        sts = num.states_at({sub["id"]})
    except Limit as ex:
        R.broken(str(ex))
        return
    n_tz, n_all, bad = 0, 0, None
    iso_call = g.calls("s_parse_iso_8601")
    n_iso, bad_iso = 0, None
    for st in sts.get(sub["id"], []):
        n_all += 1
        so = st.env.get("v:seconds_offset")
        tsv = num.val(g.d(sub["a"][0]), st)
        ts = [tsv] if tsv is not None else []
        lib = st.notes.get("libcalls", {})
        conv = [a for (c, a) in lib.values() if c in ("aws_timegm", "mktime")]
        which = [c for (c, a) in lib.values() if c in ("aws_timegm", "mktime")]
        if len(ts) != 1 or len(conv) != 1 or ts[0] != conv[0]:
            bad = "timestamp %s / conversions %s not tracked" % (ts, which)
            continue
        ua = [v for k, v in st.env.items() if k.endswith(")->utc_assumed")]
        if which == ["mktime"] and iso_call:
            # ISO 8601 text without a designator is UTC: the local-time conversion is never used after the ISO parser accepted
            rv = st.vals.get(iso_call[0].node["id"])
            n_iso += rv is not None
            if rv is not None and not (entails(st, -rv) and entails(st, rv)):
                bad_iso = "mktime (local time) converts the fields on a path where s_parse_iso_8601 accepted the text"
        if which == ["mktime"]:
            # local conversion only when no zone and no offset
            if so is None or not (entails(st, so) and entails(st, -so)) or (ua and not (entails(st, ua[0]) and entails(st, -ua[0]))):
                bad = "mktime is used although a zone/offset was given (offset %r)" % so
        if so is None:
            continue  # set by a parser through its out-parameter (its value is decided where it is computed)
        hm = [a for (c, a) in sorted(lib.values(), key=lambda x: repr(x[1])) if c == "strtol"]
        if len(hm) == 2:
            n_tz += 1
            tz0 = [v for k, v in st.env.items() if k.endswith(")->tz[0]") or k.endswith(")->tz.0")]
            want_p = hm[0] * 3600 + hm[1] * 60
            pos = entails(st, so - want_p) and entails(st, want_p - so)
            negv = entails(st, so + want_p) and entails(st, -want_p - so)
            if not (pos or negv):
                bad = "RFC 822 offset is %r for hours %r minutes %r" % (so, hm[0], hm[1])
            st.notes["rfc_sign"] = "neg" if negv and not pos else "pos"
    R.check(n_all >= 4 and bad is None, "OFFSET", "init_from_str:offset-applied", "%s:%d in %s()" % (FILE, sub["loc"][0], g.name),
            "the stored instant is the calendar conversion minus the offset; timegm whenever a zone or offset was given (%d states, %d with an RFC 822 numeric zone = +-(3600*hh+60*mm))" % (n_all, n_tz),
            "offset handling in aws_date_time_init_from_str_cursor is wrong: %s" % bad)
    R.require(n_tz >= 2, "RFC 822 numeric-zone paths not found (%d)" % n_tz)
    R.require(len(iso_call) == 1 and n_iso >= 1, "no local-time path that went through the ISO 8601 parser (%d call(s), %d state(s))" % (len(iso_call), n_iso))
    R.check(bad_iso is None, "OFFSET", "init_from_str:iso8601-is-utc", "%s()" % g.name, "text accepted by the ISO 8601 parser is converted as UTC (%d local-time state(s) all have the ISO parser rejecting)" % n_iso,
            "%s: an ISO 8601 timestamp without an offset is read in the machine's local zone (dt->utc_assumed is not set on the ISO path)" % bad_iso)
    # the RFC 822 zone digits are decimal
    st_ = g.calls("strtol")
    bases = [g.is_const(RU.arg(g, e.node, 2)) for e in st_]
    R.check(len(st_) == 2 and bases == [10, 10], "OFFSET", "init_from_str:zone-digits-decimal", where(g, st_[0]) if st_ else g.name, "both zone fields are converted with base 10",
            "the RFC 822 zone digits are converted with base %s: with base 0 a leading zero selects octal, so +0800 / +0930 lose their hours / minutes (08, 09 are not octal numbers)" % bases)
    # the sign of the RFC 822 offset follows tz[0] == '-': one negation `V = -V` of the variable that carries the offset
    # (whatever it is called, also inside an expanded helper), reached exactly under tz[0] == '-', not modified afterwards,
    # and V is what ends up subtracted from the timestamp
    offv = g.show(g.d(sub["a"][1]))
    negs = []
    for b in g.blocks.values():
        for el in b.elems:
            if el["k"] == "bin" and el["op"] == "=":
                l_, r_ = g.d(el["a"][0]), RU.uncast(g, el["a"][1])
                if l_ is not None and l_["k"] == "var" and r_ is not None and r_["k"] == "un" and r_["op"] == "-":
                    x_ = RU.uncast(g, r_["a"][0])
                    if x_ is not None and x_["k"] == "var" and x_["n"] == l_["n"]:
                        negs.append((b, el, l_["n"]))
    okn = len(negs) == 1
    if okn:
        e0 = [e for e in g.all_events() if e.blk == negs[0][0].id][0]
        gs = [RU.cmp_norm(g, c_, pol) for c_, pol, bb in RU.guards(g, e0)]
        okn = any(x is not None and x[2] is not None and "tz[0]" in g.show(x[0]) and x[1] == "==" and g.is_const(RU.uncast(g, x[2])) == 45 for x in gs)
        tainted, et = RU.derives(g, lambda n_: n_["k"] == "var" and n_["n"] == negs[0][2])
        okn = okn and (negs[0][2] == offv or offv in tainted)
    R.check(okn, "OFFSET", "init_from_str:rfc822-sign", "%s()" % g.name, "the RFC 822 offset is negated exactly when tz[0] is '-' and not changed afterwards",
            "the RFC 822 numeric zone's sign handling is not `negate the whole offset iff tz[0] == '-'`")
    if negs:
        # nothing adds to the offset after the negation
        later = []
        e0 = [e for e in g.all_events() if e.blk == negs[0][0].id][-1]
        for e in RU.reach_from(g, e0):
            if e.kind == "access" and e.mode in ("rw",) and e.node["k"] == "var" and e.node["n"] in (negs[0][2], offv) and e.blk != negs[0][0].id:
                later.append(e)
            if e.kind == "access" and e.mode == "w" and e.node["k"] == "var" and e.node["n"] == negs[0][2] and e.blk != negs[0][0].id:
                later.append(e)
        R.check(not later, "OFFSET", "init_from_str:offset-final-after-sign", "%s()" % g.name, "the offset is not modified after its sign has been applied", "the offset is modified after the sign was applied (at line %s)" % [e.line for e in later])


def appends_to_buffer(R, P):
    """FORMAT-TABLE/appends: the formatter writes behind what the output buffer already holds and advances its length by what
    strftime wrote (NUM, every successful return: len_after == len_before + result, the write position is buffer + len_before
    and the bound handed to strftime is capacity - len_before) - a date appended to a header line or a second date in the
    same buffer must come out whole."""
    f = P.fn("s_date_to_str")
    if not R.require(f is not None, "s_date_to_str not found"):
        return
    from sa.awslib import AwsHooks

    class H(AwsHooks):
        def call(self, num, st, e, args):
            if e.get("callee") == "strftime":
                r = num.fresh(st, "written", None, (0, 2 ** 62))
                st.notes["strftime"] = (r, args[0], args[1])
                if args[1] is not None:
                    st.add(Poly.atom(r) - args[1])  # strftime returns at most max - 1 (0 when the result does not fit)
                return Poly.atom(r)
            return AwsHooks.call(self, num, st, e, args)
    num = Num(f, P, H(), max_paths=4000)
    rets = [x for b in f.blocks.values() for x in b.elems if x["k"] == "ret"]
    try:
        sts = num.states_at({r["id"] for r in rets})
    except Limit as ex:
        R.broken(str(ex))
        return
    ok, det, n = True, "", 0
    for r in rets:
        for st in sts.get(r["id"], []):
            rv = num.val(r["a"][0], st) if r.get("a") else None
            if rv is None or not rv.is_const() or rv.cval() != 0:
                continue
            n += 1
            sf = st.notes.get("strftime")
            lens = [(k, v) for k, v in st.env.items() if (st.meta.get(k) or (None, None))[:2] == ("aws_byte_buf", "len")]
            if sf is None or len(lens) != 1:
                ok, det = False, "no strftime call / output length on a successful path"
                continue
            k, L1 = lens[0]
            a0 = (st.notes.get("orig") or {}).get(k)
            L0 = Poly.atom(a0) if a0 else None
            R_ = Poly.atom(sf[0])
            if L0 is None or not (entails(st, L1 - L0 - R_) and entails(st, L0 + R_ - L1)):
                ok, det = False, "the length becomes %r (before: %r, written: %r)" % (L1, L0, R_)
                continue
            bufk = k[:-len("len")] + "buffer"
            cap = st.env.get(k[:-len("len")] + "capacity")
            bv = st.env.get(bufk)
            if sf[1] is None or bv is None or not (entails(st, sf[1] - bv - L0) and entails(st, bv + L0 - sf[1])):
                ok, det = False, "strftime writes at %r, not at buffer + len" % (sf[1],)
            elif sf[2] is None or cap is None or not entails(st, sf[2] + L0 - cap):
                ok, det = False, "strftime may write %r bytes where capacity - len are left" % (sf[2],)
    R.check(ok and n >= 1, "FORMAT-TABLE", "formatted-date-is-appended", "%s()" % f.name, "written behind the existing content, length advanced by the bytes written (%d states)" % n,
            "the formatted date is not appended properly: %s - in a buffer that already holds text the reported slice is a truncated date (or the text before it is lost)" % det)


def auto_detect(R, P):
    """FORMAT-TABLE/parse:auto-detect-tries-both: with AWS_DATE_FORMAT_AUTO_DETECT every path through the parse dispatch on
    which the ISO 8601 parser did not succeed reaches the RFC 822 parser (NUM, the format parameter fixed to AUTO_DETECT, the
    two parsers' verdicts symbolic) - whatever the text looks like: an RFC 822 date without its optional week day starts with
    a digit."""
    f = P.fn("aws_date_time_init_from_str_cursor")
    auto = P.enums.get("AWS_DATE_FORMAT_AUTO_DETECT")
    if not R.require(f is not None and auto is not None and len(f.params) >= 3, "parse dispatch / AWS_DATE_FORMAT_AUTO_DETECT not found"):
        return
    from sa.awslib import AwsHooks
    fmtp = [p_["n"] for p_ in f.params if "aws_date_format" in (f.unit.types[p_["t"]] or {}).get("s", "")]
    if not R.require(len(fmtp) == 1, "parse dispatch: the format parameter not found"):
        return

    class H(AwsHooks):
        def entry(self, num, st):
            st.env["v:" + fmtp[0]] = Poly.const(auto)
            if hasattr(AwsHooks, "entry"):
                AwsHooks.entry(self, num, st)

        def call(self, num, st, e, args):
            c = e.get("callee")
            if c in ("s_parse_iso_8601", "s_parse_rfc_822"):
                a = num.fresh(st, "parsed", None, (0, 1))
                st.notes["iso" if "iso" in c else "rfc"] = a
                AwsHooks.call(self, num, st, e, args)
                return Poly.atom(a)
            return AwsHooks.call(self, num, st, e, args)
    num = Num(f, P, H(), max_paths=20000)
    try:
        sts = num.states_at({-1}).get(-1, [])
    except Limit as ex:
        R.broken(str(ex))
        return
    ok, det = True, ""
    for st in sts:
        iso, rfc = st.notes.get("iso"), st.notes.get("rfc")
        iso_ok = iso is not None and entails(st, Poly.const(1) - Poly.atom(iso))
        if iso is not None and not iso_ok and rfc is None:
            ok, det = False, "trail %s" % (st.trail[-6:],)
    R.check(ok and len(sts) >= 2, "FORMAT-TABLE", "parse:auto-detect-tries-both", "%s()" % f.name, "with auto-detection a text the ISO 8601 parser does not accept always reaches the RFC 822 parser (%d states)" % len(sts),
            "with AWS_DATE_FORMAT_AUTO_DETECT a path returns without the RFC 822 parser having been tried although the ISO 8601 parser did not succeed (%s): auto-detection and the explicit format disagree for such texts" % det)


def parse_dispatch(R, P):
    """FORMAT-TABLE/parse:dispatch: which parser an explicit format reaches.  NUM with the format parameter fixed to each
    constant in turn, the two parsers' verdicts symbolic: ISO_8601 and ISO_8601_BASIC reach the ISO 8601 parser on every
    path that gets past the argument checks and never the RFC 822 parser; RFC822 reaches the RFC 822 parser and never the
    ISO one (auto-detection: parse:auto-detect-tries-both) - whether written as if-chains, a switch, or flags."""
    f = P.fn("aws_date_time_init_from_str_cursor")
    if not R.require(f is not None and len(f.params) >= 3, "parser dispatch not found"):
        return
    from sa.awslib import AwsHooks
    fmtp = [p_["n"] for p_ in f.params if "aws_date_format" in (f.unit.types[p_["t"]] or {}).get("s", "")]
    if not R.require(len(fmtp) == 1, "parse dispatch: the format parameter not found"):
        return
    want = {"AWS_DATE_FORMAT_ISO_8601": ("iso",), "AWS_DATE_FORMAT_ISO_8601_BASIC": ("iso",), "AWS_DATE_FORMAT_RFC822": ("rfc",)}
    bad, total = [], 0
    for cname, parsers in sorted(want.items()):
        cv = P.enums.get(cname)
        if not R.require(cv is not None, "%s not found" % cname):
            continue

        class H(AwsHooks):
            def entry(self, num, st, cv=cv):
                st.env["v:" + fmtp[0]] = Poly.const(cv)
                if hasattr(AwsHooks, "entry"):
                    AwsHooks.entry(self, num, st)

            def call(self, num, st, e, args):
                c = e.get("callee")
                if c in ("s_parse_iso_8601", "s_parse_rfc_822"):
                    st.notes["iso" if "iso" in c else "rfc"] = True
                    AwsHooks.call(self, num, st, e, args)
                    return Poly.atom(num.fresh(st, "parsed", None, (0, 1)))
                return AwsHooks.call(self, num, st, e, args)
        num = Num(f, P, H(), max_paths=20000)
        try:
            sts = num.states_at({-1}).get(-1, [])
        except Limit as ex:
            R.broken(str(ex))
            continue
        reached = 0
        for st in sts:
            total += 1
            called = {k for k in ("iso", "rfc") if st.notes.get(k)}
            if called - set(parsers):
                bad.append("%s also reaches the %s parser" % (cname, sorted(called - set(parsers))))
            if called & set(parsers):
                reached += 1
        if not reached:
            bad.append("%s never reaches the %s parser" % (cname, parsers[0]))
        elif any(not ({k for k in ("iso", "rfc") if st.notes.get(k)}) and (lambda rv: rv is not None and rv.is_const() and rv.cval() == 0)(None) for st in sts):
            pass
    R.check(not bad and total >= 3, "FORMAT-TABLE", "parse:dispatch", "%s()" % f.name, "ISO formats go to the ISO 8601 parser only, RFC 822 to the RFC 822 parser only (%d states)" % total,
            "an explicit format reaches the wrong parser: %s" % "; ".join(bad[:3]))


def format_table(R, P):
    fm = {"RFC822_DATE_FORMAT_STR_MINUS_Z": "%a, %d %b %Y %H:%M:%S GMT", "RFC822_DATE_FORMAT_STR_WITH_Z": "%a, %d %b %Y %H:%M:%S %Z", "RFC822_SHORT_DATE_FORMAT_STR": "%a, %d %b %Y",
          "ISO_8601_LONG_DATE_FORMAT_STR": "%Y-%m-%dT%H:%M:%SZ", "ISO_8601_SHORT_DATE_FORMAT_STR": "%Y-%m-%d", "ISO_8601_LONG_BASIC_DATE_FORMAT_STR": "%Y%m%dT%H%M%SZ", "ISO_8601_SHORT_BASIC_DATE_FORMAT_STR": "%Y%m%d"}
    got = {k: ((P.globals.get(k) or {}).get("init") or {}).get("str") for k in fm}
    R.check(got == fm, "FORMAT-TABLE", "patterns", FILE, "the seven strftime patterns are the RFC 822 / ISO 8601 ones", "strftime patterns differ: %s" % {k: v for k, v in got.items() if fm[k] != v})
    table = {
        "aws_date_time_to_utc_time_str": ("gmt_time", {"AWS_DATE_FORMAT_RFC822": "RFC822_DATE_FORMAT_STR_MINUS_Z", "AWS_DATE_FORMAT_ISO_8601": "ISO_8601_LONG_DATE_FORMAT_STR", "AWS_DATE_FORMAT_ISO_8601_BASIC": "ISO_8601_LONG_BASIC_DATE_FORMAT_STR"}),
        "aws_date_time_to_local_time_str": ("local_time", {"AWS_DATE_FORMAT_RFC822": "RFC822_DATE_FORMAT_STR_WITH_Z", "AWS_DATE_FORMAT_ISO_8601": "ISO_8601_LONG_DATE_FORMAT_STR", "AWS_DATE_FORMAT_ISO_8601_BASIC": "ISO_8601_LONG_BASIC_DATE_FORMAT_STR"}),
        "aws_date_time_to_utc_time_short_str": ("gmt_time", {"AWS_DATE_FORMAT_RFC822": "RFC822_SHORT_DATE_FORMAT_STR", "AWS_DATE_FORMAT_ISO_8601": "ISO_8601_SHORT_DATE_FORMAT_STR", "AWS_DATE_FORMAT_ISO_8601_BASIC": "ISO_8601_SHORT_BASIC_DATE_FORMAT_STR"}),
        "aws_date_time_to_local_time_short_str": ("local_time", {"AWS_DATE_FORMAT_RFC822": "RFC822_SHORT_DATE_FORMAT_STR", "AWS_DATE_FORMAT_ISO_8601": "ISO_8601_SHORT_DATE_FORMAT_STR", "AWS_DATE_FORMAT_ISO_8601_BASIC": "ISO_8601_SHORT_BASIC_DATE_FORMAT_STR"}),
    }
    vals = {v: k for k, v in P.enums.items() if k.startswith("AWS_DATE_FORMAT_")}
    for name, (view, mp) in sorted(table.items()):
        f = P.fn(name)
        if not R.require(f is not None, "%s not found" % name):
            continue
        R.fn(f)
        # typestate over (case label taken, pattern last stored in a local): the pattern handed to s_date_to_str in each
        # case - written in the case itself, or chosen there into a local and formatted after the switch
        stores = {}
        for b in f.blocks.values():
            for el in b.elems:
                for x in f.walk(el):
                    if x["k"] == "bin" and x["op"] == "=":
                        l_, r_ = f.d(x["a"][0]), RU.uncast(f, x["a"][1])
                        while r_ is not None and r_["k"] in ("cast", "decay"):
                            r_ = RU.uncast(f, r_["a"][0])
                        if l_ is not None and l_["k"] == "var" and r_ is not None and r_["k"] == "var" and r_["n"] in fm:
                            stores[id(l_)] = (l_["n"], r_["n"])

        def tr_(e, s_):
            if e.kind == "access" and e.mode == "w" and id(e.node) in stores:
                return (s_[0], stores[id(e.node)])
            if e.kind == "decl":
                for v in e.node["vars"]:
                    r_ = RU.uncast(f, v["init"]) if v.get("init") is not None else None
                    while r_ is not None and r_["k"] in ("cast", "decay"):
                        r_ = RU.uncast(f, r_["a"][0])
                    if r_ is not None and r_["k"] == "var" and r_["n"] in fm:
                        return (s_[0], (v["n"], r_["n"]))
            return s_

        def edge_(cond, pol, s_, fn, b):
            if isinstance(pol, tuple) and pol[0] == "case":
                return (pol[1], s_[1])
            if isinstance(pol, tuple) and pol[0] == "default":
                return ("default", s_[1])
            return s_
        ts_ = Typestate(f, (None, None), tr_, edge_)
        got = {}
        for e in f.calls("s_date_to_str"):
            a1 = RU.uncast(f, RU.arg(f, e.node, 1))
            while a1 is not None and a1["k"] in ("cast", "decay"):
                a1 = RU.uncast(f, a1["a"][0])
            for (case_, pat_) in ts_.before.get(e.pos, set()):
                if a1 is not None and a1["k"] == "var" and a1["n"] in fm:
                    pn = a1["n"]
                elif a1 is not None and a1["k"] == "var" and pat_ is not None and pat_[0] == a1["n"]:
                    pn = pat_[1]
                else:
                    pn = f.show(a1) if a1 is not None else None
                key = vals.get(case_, case_)
                val = (pn, argstr(f, e.node, 0))
                got[key] = val if got.get(key, val) == val else ("several", got[key], val)
        want = {k: (v, "dt->" + view) for k, v in mp.items()}
        R.check(got == want, "FORMAT-TABLE", "%s:dispatch" % name, "%s()" % name, "each format constant uses its own pattern on dt->%s" % view, "%s dispatches %s" % (name, got))
    parse_dispatch(R, P)


def date_only_accepted(R, P):
    """FORMAT-TABLE/date-only: every date-only pattern the formatter can emit is text its own parser accepts: the parser of
    that family has an accepting exit that is reached before any time-of-day field is read.  (Property: `full or
    date-only ... and parsing the result returns the same instant to the format's resolution`.)"""
    f = P.fn("s_parse_iso_8601")
    if R.require(f is not None, "s_parse_iso_8601 not found"):
        dom = dominators(f)
        hour = [e for e in f.calls("s_read_n_digits") if argstr(f, e.node, 2).endswith("tm_hour")]
        day = [e for e in f.calls("s_read_n_digits") if argstr(f, e.node, 2).endswith("tm_mday")]
        acc = [r for r in f.returns() if r.node["a"] and f.is_const(r.node["a"][0]) == 1 and hour and day and ev_dominates(f, day[0], r, dom) and r not in RU.reach_from(f, hour[0])]
        R.check(len(acc) >= 1, "FORMAT-TABLE", "date-only-accepted:iso8601", "%s()" % f.name, "the ISO 8601 parser accepts text that ends after the day (before the hour is read)",
                "the ISO 8601 parser has no accepting exit between the day and the hour: the library's own `%Y-%m-%d` / `%Y%m%d` output is rejected")
    g = P.fn("s_parse_rfc_822")
    if R.require(g is not None, "s_parse_rfc_822 not found"):
        R.fn(g)
        states = {k: v for k, v in P.enums.items() if k.startswith("ON_")}
        accepted = set()
        for r in g.returns():
            for x in g.walk(r.node, follow_refs=True):
                if x["k"] == "bin" and x["op"] in ("!=", "==") and g.show(RU.uncast(g, g.d(x["a"][0]))) == "state":
                    v = g.is_const(x["a"][1])
                    accepted |= {k for k, kv in states.items() if kv == v}
        R.require(bool(accepted) and "ON_HOUR" in states, "s_parse_rfc_822: the accepting condition on `state` was not found")
        early = {k for k in accepted if states[k] <= states.get("ON_HOUR", -1)}
        R.check(bool(early), "FORMAT-TABLE", "date-only-accepted:rfc822", "%s:%d in %s()" % (FILE, g.returns()[-1].line if g.returns() else 0, g.name), "the RFC 822 parser accepts text that ends after the year (%s)" % sorted(early),
                "the RFC 822 parser accepts only in state %s (after seconds and zone): the date-only text the library's own formatter emits for RFC 822 (RFC822_SHORT_DATE_FORMAT_STR, `Thu, 15 Oct 2020`) is rejected with AWS_ERROR_INVALID_DATE_STR, with the explicit format and with auto-detection" % sorted(accepted))


def nanos_range(R, P):
    """UNITS/nanos: the nanosecond view can represent every instant of the property's range (to 9999-12-31T23:59:59.999Z)
    - decided from the conversion factor the code uses and the width of the result type"""
    f = P.fn("aws_date_time_as_nanos")
    if not R.require(f is not None, "aws_date_time_as_nanos not found"):
        return
    per = P.enums.get("AWS_TIMESTAMP_NANOS")
    w = f.rettype().get("w")
    R.require(per is not None and w is not None, "AWS_TIMESTAMP_NANOS / the result width of aws_date_time_as_nanos not found")
    if per is None or w is None:
        return
    last = 253402300799  # 9999-12-31T23:59:59Z
    limit = (2 ** w - 1) // per
    import time
    R.check(last * per + 999 * (per // 1000) < 2 ** w, "UNITS", "as_nanos:representable-through-9999", "%s()" % f.name, "seconds * %d fits the %d-bit result for every instant to 9999" % (per, w),
            "aws_date_time_as_nanos returns a %d-bit count of 1/%d s: instants after epoch second %d (%s) do not fit; the seconds term saturates at the maximum and the milliseconds term is then added with wrap-around, so the nanosecond view disagrees with the seconds / milliseconds views (year 3000, .500: as_nanos = 499999999)" % (w, per, limit, time.strftime("%Y-%m-%dT%H:%M:%SZ", time.gmtime(limit))))


def units(R, P):
    want = {
        "aws_date_time_as_nanos": [("dt->timestamp", "AWS_TIMESTAMP_SECS", "AWS_TIMESTAMP_NANOS"), ("dt->milliseconds", "AWS_TIMESTAMP_MILLIS", "AWS_TIMESTAMP_NANOS")],
        "aws_date_time_as_millis": [("dt->timestamp", "AWS_TIMESTAMP_SECS", "AWS_TIMESTAMP_MILLIS")],
        "aws_date_time_init_epoch_millis": [("ms_since_epoch", "AWS_TIMESTAMP_MILLIS", "AWS_TIMESTAMP_SECS")],
        "aws_date_time_init_now": [("current_time_ns", "AWS_TIMESTAMP_NANOS", "AWS_TIMESTAMP_MILLIS")],
    }
    for name, exp in sorted(want.items()):
        f = P.fn(name)
        if not R.require(f is not None, "%s not found" % name):
            continue
        R.fn(f)
        got = sorted((f.show(RU.uncast(f, RU.arg(f, c.node, 0))), f.show(RU.arg(f, c.node, 1)), f.show(RU.arg(f, c.node, 2))) for c in f.calls("aws_timestamp_convert"))
        R.check(got == sorted(exp), "UNITS", "%s:conversions" % name, "%s()" % name, "converts %s" % exp, "%s converts %s" % (name, got))
    f = P.fn("aws_date_time_as_millis")
    if f is not None:
        r = f.returns()
        txt = f.show(r[0].node) if r else ""
        okm = False
        if r and r[0].node.get("a"):
            top = RU.origin(f, r[0].node["a"][0], r[0])
            if top is not None and top["k"] == "bin" and top["op"] == "+":
                ops = [RU.origin(f, a_, r[0]) for a_ in top["a"]]
                kinds = sorted(("conv" if (o_ is not None and o_["k"] == "call" and o_.get("callee") == "aws_timestamp_convert") else "ms" if (o_ is not None and o_["k"] == "member" and o_["f"] == "milliseconds") else "?") for o_ in ops)
                okm = kinds == ["conv", "ms"]
        R.check(okm, "UNITS", "as_millis:adds-milliseconds", "%s()" % f.name, "the result is the converted seconds plus the milliseconds field as it is (through whatever temporaries)", "milliseconds are added as they are")
    f = P.fn("aws_date_time_as_epoch_secs")
    if R.require(f is not None, "aws_date_time_as_epoch_secs not found"):
        txt = f.show(f.returns()[0].node)
        R.check("dt->timestamp" in txt and "dt->milliseconds / 1000" in txt.replace("(double)", "").replace("1000.0", "1000") and "+" in txt, "UNITS", "as_epoch_secs:seconds-plus-millis-over-1000", "%s()" % f.name, "timestamp + milliseconds/1000")
    f = P.fn("aws_date_time_init_epoch_millis")
    if f is not None:
        conv = f.calls("aws_timestamp_convert")
        ts = f.field_accesses(rec="aws_date_time", field="timestamp", modes=("w",))
        ms = f.field_accesses(rec="aws_date_time", field="milliseconds", modes=("w",))
        ok = len(conv) == 1 and len(ts) == 1 and len(ms) == 1
        if ok:
            # roles: the remainder is the variable the conversion writes through its last argument; the timestamp is the
            # conversion's result and the milliseconds field that remainder, each possibly through a temporary / a cast
            rem = argstr(f, conv[0].node, 3)
            rhs = {}
            for b in f.blocks.values():
                for el in b.elems:
                    if el["k"] == "bin" and el["op"] == "=":
                        l_ = f.d(el["a"][0])
                        if l_ is not None and l_["k"] == "member" and l_.get("rec") == "aws_date_time":
                            rhs[l_["f"]] = el["a"][1]
            t_src = RU.origin(f, rhs.get("timestamp")) if rhs.get("timestamp") is not None else None
            m_src = RU.uncast(f, rhs.get("milliseconds")) if rhs.get("milliseconds") is not None else None
            ok = t_src is conv[0].node and m_src is not None and m_src["k"] == "var" and m_src["n"] == rem
        R.check(ok, "UNITS", "init_epoch_millis:quotient-and-remainder", "%s()" % f.name, "timestamp gets the quotient in seconds, milliseconds the remainder")


def zones(R, P):
    f = P.fn("is_utc_time_zone")
    if not R.require(f is not None, "is_utc_time_zone not found"):
        return
    R.fn(f)
    consts = set()
    for b in f.blocks.values():
        if b.cond is None:
            continue
        for x in f.walk(f.d(b.cond), follow_refs=True):
            if x["k"] == "bin" and x["op"] in ("==", "<"):
                c = f.is_const(RU.uncast(f, x["a"][1]))
                if c is not None:
                    consts.add((x["op"], c))
    for b in f.blocks.values():
        for el in b.elems:
            for x in f.walk(el):
                if x["k"] == "bin" and x["op"] == "==":
                    c = f.is_const(RU.uncast(f, x["a"][1]))
                    if c is not None:
                        consts.add(("==", c))
    need = {("==", ord("z")), ("==", 5), ("==", ord("+")), ("==", ord("-")), ("==", 2), ("==", ord("u")), ("==", ord("t")), ("<", 3)}
    names = {x["n"] for b in f.blocks.values() for el in ([f.d(b.cond)] if b.cond is not None else []) + b.elems for x in f.walk(el, follow_refs=True) if x["k"] == "var" and x["n"].startswith("s_")}
    R.check(need <= consts and {"s_utc", "s_gmt"} <= names, "ZONES", "designators", "%s()" % f.name, "z, ut, utc, gmt (lower-cased) and a sign followed by four characters are UTC-relative zones",
            "the zone test compares %s / keys %s" % (sorted(consts - need), sorted(names)))


def delegation(R, P):
    """OFFSET/calendar: the conversion from broken-down UTC time to an instant is the C library's (aws_timegm returns
    timegm(t) unchanged).  A conversion written out by hand is only accepted if it applies the Gregorian century rule
    (the year enters through / or % by 100 and by 400 as well as by 4): one without it is a day late from 2100-03-01 on."""
    f = P.fn("aws_timegm")
    if not R.require(f is not None, "aws_timegm not found (source/posix/time.c not analysed)"):
        return
    R.fn(f)
    tg = f.calls({"timegm", "timegm64", "_mkgmtime"})
    direct = False
    for r_ in f.returns():
        v = RU.uncast(f, r_.node["a"][0]) if r_.node["a"] else None
        while v is not None and v["k"] == "cast":
            v = f.d(v["a"][0])
        if v is not None and v["k"] in ("call", "ref") and tg and (f.d(v) or v).get("id") == tg[0].node["id"]:
            direct = True
    if tg and direct:
        R.ok("OFFSET", "aws_timegm:delegates-to-timegm", "aws_timegm()", "returns the C library's timegm(t) unchanged")
        return
    divs = set()
    for b in f.blocks.values():
        for el in b.elems:
            for x in f.walk(el, follow_refs=True):
                if x["k"] == "bin" and x["op"] in ("/", "%") and f.is_const(x["a"][1]) is not None:
                    divs.add(f.is_const(x["a"][1]))
    R.check({4, 100, 400} <= divs or {100, 400} <= divs, "OFFSET", "aws_timegm:delegates-to-timegm", "aws_timegm()", "own day count with the Gregorian century rule (divisors %s)" % sorted(divs),
            "aws_timegm no longer returns timegm(t) and its own day count divides the year only by %s: without the /100 and /400 corrections every date from 2100-03-01 on converts to an instant one or more days late" % sorted(divs))


def fraction_digits(R, P):
    """FIELD-MAP/fraction: the optional fractional seconds of ISO 8601 may have any number of digits: the digit scan is left
    only at the end of the text or at the first non-digit (never after a fixed count), and the cursor advances by all of them"""
    f = P.fn("s_skip_optional_fractional_seconds")
    if not R.require(f is not None, "s_skip_optional_fractional_seconds not found"):
        return
    R.fn(f)
    from sa.cfg import edges
    loops = Num(f, P, None).loops()
    if not R.require(len(loops) == 1, "fraction scan: expected one loop"):
        return
    (h, body), = loops.items()
    bad = []
    for b in body:
        for s_, c_, p_ in edges(f, b):
            if s_ in body or c_ is None or not isinstance(p_, bool):
                continue
            # a way out of the scan is either "not a digit" or "end of the text" (a position compared with the cursor's
            # length) - never a count compared with a constant
            cc, neg = RU.cond_call(f, c_)
            if cc is not None and cc.get("callee") == "aws_isdigit":
                continue
            g_ = RU.cmp_norm(f, c_, p_)
            sides = [g_[0], g_[2]] if g_ and g_[2] is not None else []
            has_len = any(x["k"] == "member" and x["f"] == "len" and x.get("rec") == "aws_byte_cursor" for s2 in sides for x in f.walk(f.d(s2), follow_refs=True))
            isdig = any(x["k"] == "call" and x.get("callee") == "aws_isdigit" for x in f.walk(f.d(c_), follow_refs=True))
            if not has_len and not isdig:
                bad.append(f.show(f.d(c_))[:60])
    adv = f.calls("aws_byte_cursor_advance")
    # the amount skipped is computed from a variable the scan steps once per digit (a count or an end index)
    stepped = set()
    for b in body:
        for el in f.blocks[b].elems:
            for x in f.walk(el):
                if (x["k"] == "un" and x["op"] in ("post++", "pre++")) or (x["k"] == "bin" and x["op"] == "+="):
                    t_ = f.d(x["a"][0])
                    if t_ is not None and t_["k"] == "var":
                        stepped.add(t_["n"])
    okadv = any(any(RU.uses_var(f, RU.arg(f, e.node, 1), v_) for v_ in stepped) for e in adv)
    R.check(not bad and okadv, "FIELD-MAP", "iso8601:fraction-any-number-of-digits", "%s in %s()" % (FILE, f.name), "the fraction scan stops only at the end of the text or at a non-digit, and all its digits are skipped",
            "the fractional-seconds scan is left on %s: timestamps with more fraction digits than that (microseconds, nanoseconds) are rejected as invalid dates" % bad)


def tm_conventions(R, P):
    """FIELD-MAP/struct-tm conventions at every use: tm_year counts years since 1900 and tm_mon months since January.
    Every plain read of tm_year in date_time.c is therefore adjusted by + 1900 before it is used as a calendar year
    (leap-year tests, comparisons, output); building the field (x = x*10 + digit, -= 1900) is not a use."""
    n, bad = 0, []
    for f in P.functions_in(FILE):
        adjusted, building = set(), set()
        reads = []
        for b in f.blocks.values():
            for el in list(b.elems) + ([b.cond] if b.cond is not None else []):
                for x in f.walk(el):
                    if x["k"] == "bin" and x["op"] == "+":
                        for i in (0, 1):
                            o = RU.uncast(f, x["a"][i])
                            while o is not None and o["k"] == "cast":
                                o = f.d(o["a"][0])
                            if o is not None and o["k"] == "member" and o["f"] == "tm_year" and f.is_const(x["a"][1 - i]) == 1900:
                                adjusted.add(o["id"])
                    if x["k"] == "bin" and x["op"] in ("=", "+=", "-=", "*="):
                        l = f.d(x["a"][0])
                        if l is not None and l["k"] == "member" and l["f"] == "tm_year":
                            building.add(l["id"])
                            for y in f.walk(x["a"][1], follow_refs=True):
                                if y["k"] == "member" and y["f"] == "tm_year":
                                    building.add(y["id"])
                    if x["k"] == "member" and x["f"] == "tm_year":
                        reads.append(x)
        addr = set()
        for b in f.blocks.values():
            for el in b.elems:
                for x in f.walk(el):
                    if x["k"] == "un" and x["op"] == "addr":
                        o = f.d(x["a"][0])
                        if o is not None and o["k"] == "member" and o["f"] == "tm_year":
                            addr.add(o["id"])
        for x in reads:
            if x["id"] in building or x["id"] in addr:
                continue
            n += 1
            if x["id"] not in adjusted:
                bad.append("%s:%d in %s()" % (FILE, x.get("loc", [0])[0], f.name))
    R.check(n >= 1 and not bad, "FIELD-MAP", "tm_year-read-as-calendar-year-only-plus-1900", FILE, "every plain read of tm_year is adjusted by + 1900 (%d reads)" % n,
            "tm_year (years since 1900) is used without the + 1900 adjustment at %s: a calendar rule applied to it (leap years: %% 400) is shifted - 29 February 2000 is treated as impossible" % bad)


def timestamp_width(R, P):
    """UNITS/width: the seconds stored into aws_date_time.timestamp keep their 64 bits on the way from where they were computed:
    no conversion (written out or implicit) to an integer type narrower than 64 bits lies between (seen through single-assignment
    locals) - a 32-bit stop-over wraps every instant after 2106-02-07.  And a date text handed over as a byte buffer is read
    up to its length, not up to the capacity of the storage it happens to sit in."""
    n = 0
    for f in sorted((g for g in P.by_key.values() if getattr(g, "blocks", None) and g.file.endswith(FILE)), key=lambda g: g.line):
        for e in f.field_accesses(rec="aws_date_time", field="timestamp", modes=("w",)):
            asg = None
            for b in f.blocks.values():
                for el in b.elems:
                    if el["k"] == "bin" and el["op"] == "=" and f.d(el["a"][0]) is e.node:
                        asg = el
            if asg is None:
                continue
            n += 1
            bad, seen, work = [], set(), [asg["a"][1]]
            while work:
                x0 = work.pop()
                for x in f.walk(f.d(x0) if isinstance(x0, dict) and x0.get("k") == "ref" else x0, follow_refs=True):
                    if x["k"] == "cast" and x.get("ck") == "IntegralCast":
                        t = f.unit.types[x["t"]]
                        ft = f.unit.types[x["ft"]] if x.get("ft", -1) >= 0 else {}
                        if "w" in t and "w" in ft and t["w"] < 64 and ft["w"] >= 64 and f.is_const(x["a"][0]) is None:
                            bad.append(f.show(x)[:60])
                    if x["k"] == "var" and x.get("sc") == "local" and x["n"] not in seen:
                        seen.add(x["n"])
                        for b2 in f.blocks.values():
                            for el2 in b2.elems:
                                if el2["k"] == "decl":
                                    work.extend(v2["init"] for v2 in el2["vars"] if v2["n"] == x["n"] and v2.get("init") is not None)
                                elif el2["k"] == "bin" and el2["op"] == "=" and (f.d(el2["a"][0]) or {}).get("k") == "var" and f.d(el2["a"][0])["n"] == x["n"]:
                                    work.append(el2["a"][1])
            R.check(not bad, "UNITS", "timestamp-keeps-64-bits:%s:line%d" % (f.name, asg.get("loc", [0])[0]), where(f, e), "no narrowing on the way into dt->timestamp",
                    "the seconds stored into dt->timestamp pass through %s: instants after 2106-02-07T06:28:15Z wrap around to 1970" % bad)
    R.require(n >= 3, "only %d stores to aws_date_time.timestamp found" % n)
    h = P.fn("aws_date_time_init_from_str_cursor")
    if h is not None:
        # whether a text is a date is decided by its characters: no instant is refused for its value (the epoch itself, and
        # wall-clock fields that denote it before the offset is applied, are dates like any other)
        dom = dominators(h)
        for r_ in h.returns():
            v_ = RU.uncast(h, r_.node["a"][0]) if r_.node.get("a") else None
            if v_ is None or not ((v_["k"] == "call" and v_.get("callee") == "aws_raise_error") or (h.is_const(v_) not in (None, 0))):
                continue
            bad = [h.show(h.d(c_))[:60] for c_, p_, b_ in RU.guards(h, r_, dom) if any(x["k"] == "member" and x.get("rec") == "aws_date_time" and x["f"] == "timestamp" for x in h.walk(h.d(c_), follow_refs=True))]
            R.check(not bad, "UNITS", "no-instant-refused-for-its-value:line%d" % r_.node.get("loc", [0])[0], where(h, r_), "this failure does not depend on the computed instant",
                    "the parser refuses a text because of the value of the instant it denotes (%s): 1970-01-01T00:00:00Z and every text whose wall-clock fields are the epoch are rejected" % bad)
    g = P.fn("aws_date_time_init_from_str")
    if R.require(g is not None, "aws_date_time_init_from_str not found"):
        rd = sorted({e.node["f"] for e in g.field_accesses(rec="aws_byte_buf") if e.mode in ("r", "rw")})
        R.check("capacity" not in rd, "UNITS", "text-is-the-buffers-length", "%s()" % g.name, "the date text is the buffer's first len bytes (fields read: %s)" % rd,
                "aws_date_time_init_from_str reads the buffer's capacity: the bytes behind the text (up to the storage's capacity) are parsed as part of the date, so text formatted into a larger output buffer does not read back")


def analyse(ctx, replace=None, only=None):
    R = ctx.R
    units_ = [u for u in library_units(ctx.ex.repo) if "external" not in u]
    P = ctx.program(units_, "ship", replace=replace)
    if not R.require(P.fn("aws_date_time_init_from_str_cursor") is not None, "%s not analysed" % FILE):
        return
    month_table(R, P)
    field_map(R, P)
    rfc822_digits(R, P)
    tm_conventions(R, P)
    fraction_digits(R, P)
    delegation(R, P)
    offsets(R, P)
    format_table(R, P)
    appends_to_buffer(R, P)
    auto_detect(R, P)
    date_only_accepted(R, P)
    nanos_range(R, P)
    units(R, P)
    timestamp_width(R, P)
    zones(R, P)


MUTANTS = [
    {"name": "epoch-millis-through-32-bit-seconds", "file": FILE, "expect": "UNITS", "old": "    dt->timestamp =\n        (time_t)aws_timestamp_convert(ms_since_epoch, AWS_TIMESTAMP_MILLIS, AWS_TIMESTAMP_SECS, &milliseconds);", "new": "    uint32_t seconds =\n        (uint32_t)aws_timestamp_convert(ms_since_epoch, AWS_TIMESTAMP_MILLIS, AWS_TIMESTAMP_SECS, &milliseconds);\n    dt->timestamp = (time_t)seconds;"},
    {"name": "date-text-up-to-the-capacity", "file": FILE, "expect": "UNITS", "old": "    struct aws_byte_cursor date_cursor = aws_byte_cursor_from_buf(date_str);", "new": "    struct aws_byte_cursor date_cursor = aws_byte_cursor_from_array(date_str->buffer, date_str->capacity);"},
    {"name": "iso-date-only-rejected", "file": FILE, "expect": "FORMAT-TABLE", "old": "    /* ISO8601 supports date only with no time portion */\n    if (str.len == 0) {\n        return true;\n    }\n", "new": ""},
    {"name": "first-day-digit-dropped", "file": FILE, "expect": "FIELD-MAP", "old": "                    state = ON_MONTH_DAY;\n                    parsed_time->tm_mday = parsed_time->tm_mday * 10 + (c - '0');\n", "new": "                    state = ON_MONTH_DAY;\n"},
    {"name": "iso-path-not-utc", "file": FILE, "expect": "OFFSET", "old": "            dt->utc_assumed = true;\n            successfully_parsed = true;\n        }\n    }\n\n    if (fmt == AWS_DATE_FORMAT_RFC822", "new": "            successfully_parsed = true;\n        }\n    }\n\n    if (fmt == AWS_DATE_FORMAT_RFC822"},
    {"name": "zone-digits-base-0", "file": FILE, "expect": "OFFSET", "old": "long hour = strtol(hour_str, NULL, 10);", "new": "long hour = strtol(hour_str, NULL, 0);"},
    {"name": "jun-jul-swapped", "file": FILE, "expect": "MONTH-TABLE", "old": "    if (s_jun == comp_val) {\n        return 5;", "new": "    if (s_jul == comp_val) {\n        return 5;"},
    {"name": "key-from-wrong-name", "file": FILE, "expect": "MONTH-TABLE", "old": "        s_sep = STR_TRIPLET_TO_INDEX(\"sep\");", "new": "        s_sep = STR_TRIPLET_TO_INDEX(\"set\");"},
    {"name": "fraction-scan-stops-after-three-digits", "file": FILE, "expect": "FIELD-MAP", "old": "    for (size_t i = 1; i < str->len; ++i) {\n        if (aws_isdigit(str->ptr[i])) {\n            ++num_digits;", "new": "    for (size_t i = 1; i < str->len && num_digits < 3; ++i) {\n        if (aws_isdigit(str->ptr[i])) {\n            ++num_digits;"},
    {"name": "timegm-by-hand-without-century-rule", "file": "source/posix/time.c", "expect": "OFFSET", "old": "time_t aws_timegm(struct tm *const t) {\n    return timegm(t);\n}", "new": "time_t aws_timegm(struct tm *const t) {\n    int64_t year = (int64_t)t->tm_year + 1900;\n    int64_t month = (int64_t)t->tm_mon + 1;\n    if (month <= 2) {\n        year -= 1;\n        month += 12;\n    }\n    int64_t days = 365 * year + year / 4 + (153 * (month - 3) + 2) / 5 + (t->tm_mday - 1) - 719483;\n    return (time_t)(days * 86400 + (int64_t)t->tm_hour * 3600 + (int64_t)t->tm_min * 60 + t->tm_sec);\n}"},
    {"name": "leap-test-on-tm-year", "file": FILE, "expect": "FIELD-MAP", "old": "    if (dt->utc_assumed || seconds_offset) {\n        dt->timestamp = aws_timegm(&parsed_time);", "new": "    if (parsed_time.tm_mon == 1 && parsed_time.tm_mday == 29 && parsed_time.tm_year % 400 != 0 && parsed_time.tm_year % 100 == 0) {\n        return aws_raise_error(AWS_ERROR_INVALID_DATE_STR);\n    }\n    if (dt->utc_assumed || seconds_offset) {\n        dt->timestamp = aws_timegm(&parsed_time);"},
    {"name": "month-not-zero-based", "file": FILE, "expect": "FIELD-MAP", "old": "    parsed_time->tm_mon -= 1;\n", "new": ""},
    {"name": "year-accessor-off", "file": FILE, "expect": "FIELD-MAP", "old": "    return (uint16_t)(time->tm_year + 1900);", "new": "    return (uint16_t)(time->tm_year + 1970);"},
    {"name": "iso-offset-sign-inverted", "file": FILE, "expect": "OFFSET", "old": "(negative_offset ? -1 : 1);", "new": "(negative_offset ? 1 : -1);"},
    {"name": "iso-offset-minutes-as-seconds", "file": FILE, "expect": "OFFSET", "old": "(time_t)(hours_offset * 3600 + minutes_offset * 60) *", "new": "(time_t)(hours_offset * 3600 + minutes_offset) *"},
    {"name": "rfc822-minutes-after-sign", "file": FILE, "expect": "OFFSET", "old": "                    seconds_offset = (time_t)(hour * 3600 + min * 60);\n\n                    if (dt->tz[0] == '-') {\n                        seconds_offset = -seconds_offset;\n                    }",
     "new": "                    seconds_offset = (time_t)(hour * 3600);\n\n                    if (dt->tz[0] == '-') {\n                        seconds_offset = -seconds_offset;\n                    }\n                    seconds_offset += (time_t)(min * 60);"},
    {"name": "offset-added-not-subtracted", "file": FILE, "expect": "OFFSET", "old": "    dt->timestamp -= seconds_offset;", "new": "    dt->timestamp += seconds_offset;"},
    {"name": "basic-format-uses-extended-pattern", "file": FILE, "expect": "FORMAT-TABLE", "old": "        case AWS_DATE_FORMAT_ISO_8601_BASIC:\n            return s_date_to_str(&dt->gmt_time, ISO_8601_LONG_BASIC_DATE_FORMAT_STR, output_buf);", "new": "        case AWS_DATE_FORMAT_ISO_8601_BASIC:\n            return s_date_to_str(&dt->gmt_time, ISO_8601_LONG_DATE_FORMAT_STR, output_buf);"},
    {"name": "utc-str-from-local-view", "file": FILE, "expect": "FORMAT-TABLE", "old": "            return s_date_to_str(&dt->gmt_time, RFC822_DATE_FORMAT_STR_MINUS_Z, output_buf);", "new": "            return s_date_to_str(&dt->local_time, RFC822_DATE_FORMAT_STR_MINUS_Z, output_buf);"},
    {"name": "nanos-from-micros", "file": FILE, "expect": "UNITS", "old": "aws_timestamp_convert((uint64_t)dt->milliseconds, AWS_TIMESTAMP_MILLIS, AWS_TIMESTAMP_NANOS, NULL);", "new": "aws_timestamp_convert((uint64_t)dt->milliseconds, AWS_TIMESTAMP_MICROS, AWS_TIMESTAMP_NANOS, NULL);"},
    {"name": "gmt-not-a-zone", "file": FILE, "expect": "ZONES", "old": "        if (comp_val == s_utc || comp_val == s_gmt) {", "new": "        if (comp_val == s_utc) {"},
]
for _m in MUTANTS:
    _m.setdefault("scope", None)
