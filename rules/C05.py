"""C05 - base64 / hex / UTF-8 codecs: exact lengths, canonical alphabets, well-formedness, dispatch agreement (DESIGN.md section 4, C05)."""
from sa import rules as RU
from sa.awslib import in_bounds
from sa.bounds import access_sites, addr_size
from sa.cfg import Typestate, dominators, ev_dominates
from sa.extract import library_units
from sa.num import Num, Poly, Limit, State, entails, feasible
from sa.rules import argstr, where
from rules import C04

ENC = "source/encoding.c"
AVX = "source/arch/intel/encoding_avx2.c"
RFC4648 = "ABCDEFGHIJKLMNOPQRSTUVWXYZabcdefghijklmnopqrstuvwxyz0123456789+/"

DECIDED = [
    "TABLES: the base64 encoding table is the RFC 4648 alphabet; the decoding table inverts it exactly (DEC[ENC[i]] == i for i < 64), maps '=' to the padding sentinel and every other byte to the invalid marker; the hex digit table is lower-case 0-9a-f and the hex digit reader returns 10+(c-'a'), 10+(c-'A'), c-'0' on exactly those ranges and fails otherwise (NUM on its body)",
    "LENGTHS: for all input lengths the length predictors return exactly 4*ceil(n/3) / 2n / ceil(n/2) / 3*(n/4) minus the trailing '=' count, or fail on overflow; on every success path of the portable encoders and of hex decode the number of bytes written equals the length reported (write cursor == reported length at return), and the '=' padding is stored at the last one / two positions written",
    "REPORTED<=WRITTEN: on every success path of the portable base64 decoder the reported length does not exceed the highest offset stored in the final block plus one, for all inputs (NUM with the alphabet tables and memory cells)",
    "WELL-FORMED: the portable base64 decoder succeeds only when the length is a multiple of 4, no body character is padding or invalid (allow_sentinel is 0 for all but the last two characters), padding is trailing ('x=' followed by a non-'=' is rejected) and the bits a padded quantum leaves unused are zero",
    "DISPATCH: both CPU paths of aws_base64_encode / aws_base64_decode sit behind the same length computation and capacity check, report the same length expression, and the vectorised decoder's failure value is mapped to the same error",
    "AVX-SHELL: in the scalar shell of the vectorised codecs every 32-byte load/store and every bounce-buffer copy is inside the buffers the caller provides (NUM, caller contract checked at the call sites), the loops consume 24/32 bytes per step, and the bounce buffer is cleared in the same iteration that partially fills it",
    "CHUNK: the UTF-8 validator's only state across bytes is the decoder record: every advance of the byte index goes through the per-byte step that reads decoder->remaining, no other local survives an iteration, and there is no static storage; aws_decode_utf8 is update + finalize on a zeroed decoder",
]
NOT_DECIDED = ["the instruction-level semantics of the AVX2 encode/decode kernels (encode_stride / decode), hence byte-for-byte agreement of the two CPU paths", "round-trip equality of contents beyond the table inversion",
               "the bound of the vectorised decoder's final partial copy (it depends on the padding the caller counted)", "UTF-8 code point values (only the chunk-independence structure)"]
ASSUMPTIONS = list(C04.ASSUMPTIONS) + ["the storage of the output buffer does not overlap the input view (restrict contract)"]


def _glob(P, name):
    g = P.globals.get(name)
    if not g or not isinstance(g.get("init"), dict):
        return None
    ini = g["init"]
    if "str" in ini:
        return [ord(c) for c in ini["str"]]
    if "array" in ini:
        return [e.get("int") for e in ini["array"]]
    return None


def hex_encoder_digits(R, P):
    """TABLES/hex-encoder: every byte the hex encoders store is the lower-case digit of a 4-bit value.  NUM, every state at a
    store into the output: the value stored is T[n] for the table T == "0123456789abcdef" and an index n in 0..15, or an
    arithmetic form c0 + c1*n that equals that digit for every n the path allows (a digit helper with a range test)."""
    want = "0123456789abcdef"
    for name in ("aws_hex_encode", "aws_hex_encode_append_dynamic"):
        f = P.fn(name)
        if not R.require(f is not None, "%s not found" % name):
            continue
        stores = []
        for b in f.blocks.values():
            for el in b.elems:
                if el["k"] == "bin" and el["op"] == "=":
                    l_ = RU.uncast(f, el["a"][0])
                    if l_ is not None and l_["k"] == "index" and "buffer" in f.show(l_["a"][0], alias=True):
                        stores.append(el)
        if not R.require(len(stores) >= 2, "%s: stores into the output not found" % name):
            continue
        num = Num(f, P, C04.ParserHooks(), max_paths=20000)
        try:
            sts = num.states_at({s_["id"] for s_ in stores})
        except Limit as ex:
            R.broken(str(ex))
            continue
        ok, det, n = True, "", 0
        for s_ in stores:
            for st in sts.get(s_["id"], []):
                v = num.val(s_["a"][1], st)
                if v is not None and v.is_const() and v.cval() == 0:
                    continue  # the terminating NUL
                n += 1
                good = False
                if v is not None and len(v.atoms()) == 1 and v.degree() <= 1:
                    (a,) = tuple(v.atoms())
                    tix = (st.notes.get("tabidx") or {}).get(a)
                    if tix is not None and v == Poly.atom(a):
                        tab, ix = tix
                        lo, hi = num.simple_bounds(st, ix) if ix is not None else (None, None)
                        good = "".join(map(chr, tab[:16])) == want and lo is not None and hi is not None and 0 <= lo and hi <= 15
                        if not good:
                            det = "table %r read at %r" % ("".join(map(chr, tab[:16])), ix)
                    else:
                        lo, hi = num.simple_bounds(st, Poly.atom(a))
                        if lo is not None and hi is not None and 0 <= lo <= hi <= 15:
                            c1 = (v - Poly.const((v - Poly.atom(a) * 0).t.get((), 0))).t.get((a,), 0) if False else None
                            vals = []
                            for k in range(lo, hi + 1):
                                vk = v.subst({a: Poly.const(k)})
                                vals.append(vk.cval() if vk.is_const() else None)
                            good = all(x is not None and 0 <= x < 256 and chr(x) == want[k] for k, x in zip(range(lo, hi + 1), vals))
                            if not good:
                                det = "nibble values %d..%d are written as %s" % (lo, hi, [chr(x) if x is not None and 32 <= x < 127 else x for x in vals])
                        else:
                            det = "the value stored (%r) is not a function of a 4-bit value" % (v,)
                else:
                    det = "the value stored (%r) is not a function of a 4-bit value" % (v,)
                ok = ok and good
        R.check(ok and n >= 2, "TABLES", "%s:digits" % name, "%s()" % name, "every digit stored is \"0123456789abcdef\"[nibble] (%d states)" % n,
                "%s does not write the lower-case hex digit of each nibble: %s - the text does not decode back to the bytes" % (name, det))


def tables(R, P):
    enc, dec, hexc = _glob(P, "BASE64_ENCODING_TABLE"), _glob(P, "BASE64_DECODING_TABLE"), _glob(P, "HEX_CHARS")
    sent = (P.globals.get("BASE64_SENTINEL_VALUE") or {}).get("init", {}).get("int")
    if not R.require(enc is not None and dec is not None and sent is not None, "codec tables not found in %s" % ENC):
        return
    hex_encoder_digits(R, P)
    R.check("".join(map(chr, enc[:64])) == RFC4648, "TABLES", "base64-alphabet", ENC, "the encoding table is the RFC 4648 alphabet", "the base64 encoding table is not the RFC 4648 alphabet")
    inv = len(dec) == 256 and all(dec[enc[i]] == i for i in range(64))
    R.check(inv, "TABLES", "base64-decode-inverts-encode", ENC, "DEC[ENC[i]] == i for all 64 symbols", "the decoding table does not invert the encoding table")
    others = [i for i in range(256) if i not in enc[:64] and i != ord("=") and dec[i] != 0xDD] if len(dec) == 256 else [0]
    R.check(not others and len(dec) == 256 and dec[ord("=")] == sent == 0xFF, "TABLES", "base64-decode-rejects-rest", ENC, "'=' maps to the sentinel, every non-alphabet byte to the invalid marker",
            "bytes %s outside the alphabet are not marked invalid (or '=' is not the sentinel)" % others[:6])
    if hexc is not None:
        R.check("".join(map(chr, hexc[:16])) == "0123456789abcdef", "TABLES", "hex-alphabet", ENC, "hex digits are lower-case 0-9a-f", "the hex digit table is not 0123456789abcdef")
    f = P.fn("s_hex_decode_char_to_int")
    if not R.require(f is not None, "s_hex_decode_char_to_int not found"):
        return
    R.fn(f)
    num = Num(f, P, C04.ParserHooks())
    st0 = State()
    ch = C04._param(num, st0, 0)
    rets = [x for b in f.blocks.values() for x in b.elems if x["k"] == "ret"]
    sts = num.states_at({r["id"] for r in rets}, entry_state=st0)
    ok, seen = True, set()
    for r in rets:
        for st in sts.get(r["id"], []):
            rv = num.val(r["a"][0], st)
            out = [v for k, v in st.env.items() if k.endswith(")->") and "int_val" in k]
            lo, hi = num.simple_bounds(st, ch)
            if rv is not None and rv.is_const() and rv.cval() == 0:
                if len(out) != 1 or lo is None or hi is None:
                    ok = False
                    continue
                d = out[0] - ch
                if not d.is_const():
                    ok = False
                    continue
                seen.add((lo, hi, d.cval()))
            else:
                seen.add(("fail", lo, hi))
    want = {(97, 102, 10 - 97), (65, 70, 10 - 65), (48, 57, -48)}
    merged = []
    for lo, hi, d in sorted(x for x in seen if x[0] != "fail"):
        # one accepted character per path (a switch) or one range per path: the same mapping over adjacent characters
        if merged and merged[-1][2] == d and lo <= merged[-1][1] + 1:
            merged[-1] = (merged[-1][0], max(hi, merged[-1][1]), d)
        else:
            merged.append((lo, hi, d))
    succ = set(merged)
    R.check(ok and succ == want, "TABLES", "hex-digit-reader", "%s()" % f.name, "accepts exactly a-f, A-F, 0-9 with the right values", "the hex digit reader's ranges/values are %s" % sorted(succ))


def _exit_states(R, P, name, hooks=None, entry=None):
    f = P.fn(name)
    if not R.require(f is not None, "%s not found" % name):
        return None, None, []
    R.fn(f)
    num = Num(f, P, hooks or C04.ParserHooks(), max_paths=30000)
    st0 = None
    if entry is not None:
        st0 = State()
        entry(num, st0)
    rets = [x for b in f.blocks.values() for x in b.elems if x["k"] == "ret"]
    try:
        sts = num.states_at({r["id"] for r in rets}, entry_state=st0)
    except Limit as ex:
        R.broken("NUM trace limit in %s: %s" % (name, ex))
        return f, num, []
    out = []
    for r in rets:
        for st in sts.get(r["id"], []):
            out.append((r, st, num.val(r["a"][0], st) if r["a"] and r["a"][0] is not None else None))
    return f, num, out


def _is(st, p, c):
    return p is not None and entails(st, p - c) and entails(st, Poly.const(c) - p)


def lengths(R, P):
    # predictors
    def pred(name, spec):
        ctx = {}

        def entry(num, st0):
            ctx["n"] = C04._param(num, st0, 0)
            ctx["out"] = C04._param(num, st0, 1)
        f, num, ex = _exit_states(R, P, name, entry=entry)
        n_ok, bad = 0, None
        for r, st, rv in ex:
            if rv is not None and rv.is_const() and rv.cval() == 0:
                outv = [v for k, v in st.env.items() if k == num.base_of(st, ctx["out"])[:-2] + "->" or k == "(" + repr(ctx["out"]) + ")->"]
                if len(outv) != 1:
                    bad = "result not tracked"
                    continue
                why = spec(num, st, ctx["n"], outv[0])
                if why:
                    bad = why
                else:
                    n_ok += 1
        R.check(n_ok > 0 and bad is None, "LENGTHS", "%s:exact" % name, "%s()" % name, "the predicted length is exact on all %d success paths" % n_ok, "%s does not return the exact length: %s" % (name, bad))

    def spec_b64enc(num, st, n, out):
        q, r = num.quot_rem(st, n + 2, 3, None)
        return None if (entails(st, out - q * 4) and entails(st, q * 4 - out)) else "result is not 4*ceil(n/3)"

    def spec_hexenc(num, st, n, out):
        return None if (entails(st, out - n * 2) and entails(st, n * 2 - out)) else "result is not 2n"

    def spec_hexdec(num, st, n, out):
        q, r = num.quot_rem(st, n + 1, 2, None)
        return None if (entails(st, out - q) and entails(st, q - out)) else "result is not ceil(n/2)"

    pred("aws_base64_compute_encoded_len", spec_b64enc)
    pred("aws_hex_compute_encoded_len", spec_hexenc)
    pred("aws_hex_compute_decoded_len", spec_hexdec)

    # base64 decoded length: 3*(n/4) minus the number of trailing '='
    f, num, ex = _exit_states(R, P, "aws_base64_compute_decoded_len")
    n_ok, bad = 0, None
    for r, st, rv in ex:
        if not (rv is not None and rv.is_const() and rv.cval() == 0):
            continue
        outv = [v for k, v in st.env.items() if k.endswith(")->") and "decoded_len" in k]
        ln = [v for k, v in st.env.items() if k.endswith(")->len")]
        cells = {repr(a): v for (a, s, v) in st.notes.get("cells", [])}
        if len(outv) != 1 or len(ln) != 1:
            bad = "result not tracked"
            continue
        n = ln[0]
        if _is(st, n, 0):
            if not _is(st, outv[0], 0):
                bad = "empty input does not give 0"
            n_ok += 1
            continue
        q, rem = num.quot_rem(st, n, 4, None)
        if not _is(st, rem, 0):
            bad = "a length that is not a multiple of 4 is accepted"
            continue
        pad = q * 3 - outv[0]
        lo, hi = num.simple_bounds(st, pad) if not pad.is_const() else (pad.cval(), pad.cval())
        if lo is None or lo != hi or lo not in (0, 1, 2):
            bad = "padding is not a constant 0..2 on a path"
            continue
        # the bytes decide it: last == '=' iff pad >= 1, last two == '=' iff pad == 2
        ptr = [v for k, v in st.env.items() if k.endswith(")->ptr")]
        vals = []
        for back in (1, 2):
            hit = [v for (a, s, v) in st.notes.get("cells", []) if ptr and entails(st, a - ptr[0] - n + back) and entails(st, ptr[0] + n - back - a)]
            vals.append(hit[0] if hit else None)
        last_eq = vals[0] is not None and _is(st, vals[0], 61)
        last_ne = vals[0] is not None and not feasible(st, [vals[0] - 61, Poly.const(61) - vals[0]])
        prev_eq = vals[1] is not None and _is(st, vals[1], 61)
        prev_ne = vals[1] is not None and not feasible(st, [vals[1] - 61, Poly.const(61) - vals[1]])
        good = (lo == 0 and last_ne) or (lo == 1 and last_eq and prev_ne) or (lo == 2 and last_eq and prev_eq)
        if not good:
            bad = "padding %d is not the number of trailing '=' on a path" % lo
        else:
            n_ok += 1
    R.check(n_ok >= 4 and bad is None, "LENGTHS", "aws_base64_compute_decoded_len:exact", "aws_base64_compute_decoded_len()", "3*(n/4) minus the trailing '=' count on all %d success paths" % n_ok,
            "aws_base64_compute_decoded_len is not exact: %s" % bad)

    # written == reported
    def written(name, cursor_var, reported, pad_check=False):
        f, num, ex = _exit_states(R, P, name)
        n_ok, bad = 0, None
        # the write cursor is the variable that indexes the stores into the output (whatever it is called, also when the
        # loop lives in an expanded private helper)
        cands = {}
        for b_ in f.blocks.values():
            for el in b_.elems:
                if el["k"] == "bin" and el["op"] == "=" and (f.d(el["a"][0]) or {}).get("k") == "index":
                    ix = f.d(f.d(el["a"][0])["a"][1])
                    if ix is not None and ix["k"] == "un" and ix["op"] in ("post++", "pre++"):
                        ix = f.d(ix["a"][0])
                    if ix is not None and ix["k"] == "var":
                        cands[ix["n"]] = cands.get(ix["n"], 0) + 1
        if cursor_var not in cands and len(cands) == 1:
            cursor_var = list(cands)[0]
        for r, st, rv in ex:
            if not (rv is not None and rv.is_const() and rv.cval() == 0):
                continue
            if cursor_var not in [k[2:] for k in st.env if k.startswith("v:")]:
                continue  # a path that does not run the portable loop (vectorised dispatch): DISPATCH
            w = st.env.get("v:" + cursor_var)
            rep = reported(num, st)
            if w is None or rep is None or not (entails(st, w - rep) and entails(st, rep - w)):
                bad = "write cursor %r, reported %r | branch trail %s" % (w, rep, st.trail[-6:])
            else:
                n_ok += 1
        R.check(n_ok > 0 and bad is None, "LENGTHS", "%s:written==reported" % name, "%s()" % name, "bytes written equal the reported length on all %d portable success paths" % n_ok,
                "%s reports a length different from what it wrote: %s" % (name, bad))

    def out_len(num, st):
        ks = [k for k in st.env if k.endswith(")->len") and (st.meta.get(k) or (None,))[0] == "aws_byte_buf"]
        return st.env[ks[0]] if len(ks) == 1 else None

    written("aws_hex_encode", "written", out_len)
    written("aws_hex_encode_append_dynamic", "written", out_len)
    written("aws_hex_decode", "written", out_len)
    written("aws_base64_encode", "str_index", out_len)

    # '=' padding goes to the last positions written
    f = P.fn("aws_base64_encode")
    if f is not None:
        num = Num(f, P, C04.ParserHooks(), max_paths=30000)
        stores = []
        for b in f.blocks.values():
            for el in b.elems:
                if el["k"] == "bin" and el["op"] == "=" and f.is_const(RU.uncast(f, el["a"][1])) == ord("=") and f.d(el["a"][0])["k"] == "index":
                    stores.append(el)
        if R.require(len(stores) == 2, "aws_base64_encode: expected two '=' stores, found %d" % len(stores)):
            sts = num.states_at({e["id"] for e in stores})
            for k_, el in enumerate(sorted(stores, key=lambda e: e["loc"][0])):
                n_ok, bad = 0, None
                for st in sts.get(el["id"], []):
                    s2 = st.copy()
                    idx = num.val(f.d(el["a"][0])["a"][1], s2)
                    w = s2.env.get("v:str_index")
                    if idx is None or w is None or not (entails(s2, idx - w + 1 + k_) and entails(s2, w - 1 - k_ - idx)):
                        bad = "index %r, write cursor %r" % (idx, w)
                    else:
                        n_ok += 1
                R.check(n_ok > 0 and bad is None, "LENGTHS", "aws_base64_encode:padding-at-end-%d" % (k_ + 1), "%s:%d in %s()" % (ENC, el["loc"][0], f.name), "'=' is stored at the write cursor minus %d in all %d states" % (k_ + 1, n_ok),
                        "the '=' padding is not stored at the end of the bytes this call produced: %s" % bad)


def decoder(R, P):
    f = P.fn("aws_base64_decode")
    if not R.require(f is not None, "aws_base64_decode not found"):
        return
    R.fn(f)

    class H(C04.ParserHooks):
        pass
    num = Num(f, P, H(), max_paths=30000)
    stores = {}

    def mk(el):
        def hook(n_, st):
            idx = n_.val(f.d(el["a"][0])["a"][1], st.copy())
            st.notes["hw"] = list(st.notes.get("hw", [])) + [idx]
        return hook
    hooks = {}
    for b in f.blocks.values():
        for el in b.elems:
            if el["k"] == "bin" and el["op"] == "=" and f.d(el["a"][0])["k"] == "index" and "output->buffer" in f.show(f.d(el["a"][0])):
                hooks[el["id"]] = mk(el)
    R.require(len(hooks) == 6, "aws_base64_decode: expected 6 stores into the output, found %d" % len(hooks))
    num.pre_hooks = hooks
    rets = [x for b in f.blocks.values() for x in b.elems if x["k"] == "ret"]
    try:
        sts = num.states_at({r["id"] for r in rets})
    except Limit as ex:
        R.broken("NUM trace limit in aws_base64_decode: %s" % ex)
        return
    n_ok, bad, wf_bad, n_wf = 0, None, None, 0

    def lv(st, name):
        """a local by its source name, also when it lives in an expanded private helper (`helper$1$name`)"""
        if "v:" + name in st.env:
            return st.env["v:" + name]
        ks = [k for k in st.env if k.startswith("v:") and k.endswith("$" + name)]
        return st.env[ks[0]] if len(ks) == 1 else None
    for r in rets:
        for st in sts.get(r["id"], []):
            rv = num.val(r["a"][0], st)
            if not (rv is not None and rv.is_const() and rv.cval() == 0) or lv(st, "buffer_index") is None:
                continue
            D = lv(st, "decoded_length")
            hw = st.notes.get("hw", [])
            if D is None:
                bad = "decoded_length not tracked"
                continue
            if _is(st, D, 0) or (entails(st, D) and not hw):
                n_ok += 1
            elif any(h is not None and entails(st, D - h - 1) for h in hw):
                n_ok += 1
            else:
                bad = "reported %r, offsets stored on this path %s | branch trail %s" % (D, [repr(h) for h in hw[-3:]], st.trail[-6:])
            # well-formedness of the final quantum
            v = [lv(st, "value%d" % i) for i in (1, 2, 3, 4)]
            if any(x is None for x in v):
                continue
            n_wf += 1
            S = 255
            v3s = not feasible(st, [v[2] - 254])          # v3 >= 255 forced
            v3n = not feasible(st, [Poly.const(255) - v[2]])
            v4s = not feasible(st, [v[3] - 254])
            v4n = not feasible(st, [Poly.const(255) - v[3]])
            if not ((v3s or v3n) and (v4s or v4n)):
                wf_bad = "the sentinel status of the last two characters is not decided on a success path"
                continue
            if v3s and not v4s:
                wf_bad = "'x=' followed by a non-'=' character is accepted"
            if feasible(st, [Poly.const(64) - v[0]]) or feasible(st, [Poly.const(64) - v[1]]):
                wf_bad = "the first two characters of the last quantum may be padding/invalid"
            if v3s:
                q, rem = num.quot_rem(st, v[1], 16, None)
                if not _is(st, rem, 0):
                    wf_bad = "unused bits of a 'xx==' quantum are not checked to be zero"
            elif v4s:
                q, rem = num.quot_rem(st, v[2], 4, None)
                if not _is(st, rem, 0):
                    wf_bad = "unused bits of a 'xxx=' quantum are not checked to be zero"
    R.check(n_ok >= 3 and bad is None, "REPORTED<=WRITTEN", "aws_base64_decode:portable", "%s()" % f.name, "the reported length never exceeds the last offset stored + 1 (%d portable success states)" % n_ok,
            "the portable decoder can report more bytes than it stored: %s" % bad)
    R.check(n_wf >= 3 and wf_bad is None, "WELL-FORMED", "aws_base64_decode:final-quantum", "%s()" % f.name, "padding is trailing and unused bits are zero on all %d success states of the final block" % n_wf,
            "the portable decoder accepts malformed text: %s" % wf_bad)
    # body characters: allow_sentinel == 0 for everything but the last two
    calls = sorted(f.calls("s_base64_get_decoded_value"), key=lambda e: (e.line, e.node["loc"][1] if "loc" in e.node else 0))
    flags = [f.is_const(RU.arg(f, c.node, 2)) for c in calls]
    R.check(flags == [0, 0, 0, 0, 0, 0, 1, 1], "WELL-FORMED", "aws_base64_decode:sentinel-only-last-two", "%s()" % f.name, "padding is admitted only in the last two positions (allow_sentinel flags %s)" % flags,
            "allow_sentinel flags are %s: padding is admitted inside the text (or never)" % flags)
    g = P.fn("s_base64_get_decoded_value")
    if R.require(g is not None, "s_base64_get_decoded_value not found"):
        R.fn(g)

        def entry(num2, st0):
            pass
        f2, num2, ex = _exit_states(R, P, "s_base64_get_decoded_value")
        okv, n = True, 0
        for r, st, rv in ex:
            if rv is not None and rv.is_const() and rv.cval() == 0:
                n += 1
                out = [v_ for k, v_ in st.env.items() if k.endswith(")->") and "value" in k]
                allow = st.env.get("v:allow_sentinel")
                if len(out) != 1:
                    okv = False
                    continue
                # accepted: a real symbol (<= 63), or the sentinel when allowed
                sym = entails(st, out[0] - 63)
                sen = _is(st, out[0], 255) and allow is not None and not feasible(st, [allow, -allow])
                okv = okv and (sym or sen)
        R.check(okv and n >= 2, "WELL-FORMED", "s_base64_get_decoded_value:accepts-symbols-only", "%s()" % g.name, "succeeds only for alphabet symbols, or the sentinel when allow_sentinel is non-zero (%d success states)" % n)


def digit_results(R, P):
    """WELL-FORMED/hex: the verdict of the hex digit reader is tested at every call: an invalid character anywhere - also the
    leading nibble of odd-length text - rejects the text"""
    n = 0
    for f in P.functions_in(ENC):
        refd = set()
        for b in f.blocks.values():
            for el in list(b.elems) + ([b.cond] if b.cond is not None else []):
                for x in f.walk(el):
                    if x["k"] == "ref":
                        refd.add(x["id"])
        for e in f.calls({"s_hex_decode_char_to_int", "s_base64_get_decoded_value"}):
            n += 1
            used = e.node["id"] in refd or not any(el is e.node for b in f.blocks.values() for el in b.elems)
            R.check(used, "WELL-FORMED", "%s:%s-result-tested:line%d" % (f.name, e.node["callee"], e.node.get("loc", [0])[0]), where(f, e), "the digit reader's verdict is tested",
                    "the result of %s is dropped: a character that is not a digit is decoded as 0 instead of rejecting the text" % e.node["callee"])
    R.require(n >= 3, "only %d digit-reader calls found in encoding.c" % n)


def dispatch(R, P):
    for name, lenfn, kern in (("aws_base64_encode", "aws_base64_compute_encoded_len", "aws_common_private_base64_encode_sse41"), ("aws_base64_decode", "aws_base64_compute_decoded_len", "aws_common_private_base64_decode_sse41")):
        f = P.fn(name)
        if not R.require(f is not None, "%s not found" % name):
            continue
        dom = dominators(f)
        tests = f.calls("aws_common_private_has_avx2")
        lc = f.calls(lenfn)
        kc = f.calls(kern)
        if not R.require(len(tests) >= 1 and len(lc) == 1 and len(kc) == 1, "%s: dispatch anchors not found" % name):
            continue
        test = [t for t in tests if any(RU.cond_call(f, c)[0] is t.node for c, pol, b in RU.guards(f, kc[0], dom))][:1] or tests[:1]
        cap = [b for b in f.blocks.values() if b.cond is not None and "capacity" in f.show(b.cond)]
        okc = bool(cap) and all(b.id in dom.get(test[0].blk, ()) for b in cap) and len(tests) == 1
        R.check(ev_dominates(f, lc[0], test[0], dom) and okc, "DISPATCH", "%s:checks-before-dispatch" % name, where(f, test[0]), "the length computation and the capacity check dominate the (single) CPU dispatch",
                "the CPU dispatch in %s is not behind the common length/capacity checks (or the CPU test also decides something else)" % name)
        gk = [(RU.cond_call(f, c)[0], (pol != RU.cond_call(f, c)[1]) if isinstance(pol, bool) else pol) for c, pol, b in RU.guards(f, kc[0], dom)]
        R.check(any(c is test[0].node and pol for c, pol in gk), "DISPATCH", "%s:kernel-only-when-available" % name, where(f, kc[0]), "the vectorised kernel runs only when has_avx2() is true")
    # same reported length on both paths
    f = P.fn("aws_base64_encode")
    adds = [e for e in f.field_accesses(rec="aws_byte_buf", field="len", modes=("rw", "w"))] if f else []
    exprs = set()
    for b in (f.blocks.values() if f else []):
        for el in b.elems:
            if el["k"] == "bin" and el["op"] in ("+=", "=") and f.show(f.d(el["a"][0])) == "output->len":
                exprs.add((el["op"], f.show(f.d(el["a"][1]))))
    if f is not None and exprs != {("+=", "encoded_length")}:
        # equally good on the portable path: the length becomes the write cursor itself - a local initialised from
        # output->len that is only ever advanced as the subscript of a store into the output (`buffer[idx++] = c`), so the
        # length reported is exactly one past the last character written
        def is_write_cursor(name):
            inits, others = [], []
            for b in f.blocks.values():
                for el in b.elems:
                    for x in f.walk(el):
                        if x["k"] == "decl":
                            inits += [f.show(RU.uncast(f, v["init"])) for v in x["vars"] if v["n"] == name and v.get("init") is not None]
                        elif x["k"] == "bin" and x["op"] in ("=", "+=", "-=") and (f.d(x["a"][0]) or {}).get("k") == "var" and f.d(x["a"][0])["n"] == name:
                            others.append(x)
                        elif x["k"] == "un" and x["op"] in ("pre++", "pre--", "post--", "addr") and (f.d(x["a"][0]) or {}).get("k") == "var" and f.d(x["a"][0])["n"] == name:
                            others.append(x)
            incs = [x for b in f.blocks.values() for el in b.elems for x in f.walk(el) if x["k"] == "un" and x["op"] == "post++" and (f.d(x["a"][0]) or {}).get("k") == "var" and f.d(x["a"][0])["n"] == name]
            in_store = 0
            for b in f.blocks.values():
                for el in b.elems:
                    for x in f.walk(el):
                        if x["k"] == "bin" and x["op"] == "=":
                            l_ = RU.uncast(f, x["a"][0])
                            if l_ is not None and l_["k"] == "index" and "output->buffer" in f.show(l_["a"][0]) and any(y in incs for y in [RU.uncast(f, l_["a"][1])]):
                                in_store += 1
            return inits == ["output->len"] and not others and incs and in_store == len(incs)
        rest = {e_ for e_ in exprs if e_ != ("+=", "encoded_length")}
        if ("+=", "encoded_length") in exprs and all(op == "=" and is_write_cursor(v) for op, v in rest):
            exprs = {("+=", "encoded_length")}
    R.check(exprs == {("+=", "encoded_length")} and len(adds) == 2, "DISPATCH", "aws_base64_encode:same-length-both-paths", "aws_base64_encode()", "both paths add encoded_length to output->len",
            "the two CPU paths of aws_base64_encode update output->len differently: %s" % sorted(exprs))
    d = P.fn("aws_base64_decode")
    if d is not None:
        kc = d.calls("aws_common_private_base64_decode_sse41")
        def failed_kernel(e):
            # reached exactly when the kernel's result equals SIZE_MAX (whichever way round the test is written)
            for c, pol, b in RU.guards(d, e):
                g = RU.cmp_norm(d, c, pol)
                if g and g[2] is not None and g[1] == "==":
                    for x, y in ((g[0], g[2]), (g[2], g[0])):
                        o = RU.origin(d, x, e)
                        if o is not None and kc and o is kc[0].node and ("18446744073709551615" in d.show(y) or "SIZE_MAX" in d.show(y)):
                            return True
            return False
        rz = [e for e in d.calls("aws_raise_error") if failed_kernel(e)]
        R.check(len(kc) == 1 and len(rz) == 1 and d.show(RU.arg(d, rz[0].node, 0)) == "AWS_ERROR_INVALID_BASE64_STR", "DISPATCH", "aws_base64_decode:kernel-failure-mapped", where(d, rz[0]) if rz else d.name,
                "the kernel's SIZE_MAX result raises AWS_ERROR_INVALID_BASE64_STR, like the portable path")
        portable = [e for e in d.calls("aws_raise_error") if e not in rz and d.show(RU.arg(d, e.node, 0)) not in ("AWS_ERROR_SHORT_BUFFER",)]
        R.check(portable and all(d.show(RU.arg(d, e.node, 0)) == "AWS_ERROR_INVALID_BASE64_STR" for e in portable), "DISPATCH", "aws_base64_decode:same-error", "aws_base64_decode()", "every rejection of malformed text raises the same error on both paths")


class AvxHooks(C04.ParserHooks):
    """caller contract of the vectorised kernels (checked at their call sites in encoding.c)"""

    def entry(self, num, st):
        name = num.fn.name
        if name == "aws_common_private_base64_encode_sse41":
            i, o, n = (C04._param(num, st, k) for k in range(3))
            st.add(n - 2 ** 62)
            q, r = num.quot_rem(st, n + 2, 3, None)
            st.extent[list(i.t)[0][0]] = n
            st.extent[list(o.t)[0][0]] = q * 4
        elif name == "aws_common_private_base64_decode_sse41":
            i, o, n = (C04._param(num, st, k) for k in range(3))
            st.add(n - 2 ** 62)
            q, r = num.quot_rem(st, n, 4, None)
            st.extent[list(i.t)[0][0]] = n
            st.extent[list(o.t)[0][0]] = q * 3 - 2  # at least this much whatever the padding: enough for the whole-vector loop
        else:
            C04.ParserHooks.entry(self, num, st)

    def call(self, num, st, e, args):
        c = e.get("callee") or ""
        if c in HELPER_REQ:
            num.__dict__.setdefault("helper_calls", []).append((e, st.copy(), list(args)))
        if c in ("encode_stride", "decode", "encode_chars"):
            t = num.ty(e)
            return Poly.atom(num.fresh(st, c, t)) if ("w" in t or t.get("ptr")) else None
        return C04.ParserHooks.call(self, num, st, e, args)


VEC = {"_mm256_loadu_si256": (0, 32), "_mm256_storeu_si256": (0, 32), "_mm256_lddqu_si256": (0, 32), "_mm_storeu_si128": (0, 16), "_mm_loadu_si128": (0, 16),
       "_mm_storel_epi64": (0, 8), "_mm_loadl_epi64": (0, 8)}
# helper contracts (bytes readable at `in`, bytes writable at `out`): verified on the helper's body, checked at its call sites
HELPER_REQ = {"decode": {"in": 32, "out": 24}}


LANES = {"_mm256_movemask_epi8": 32, "_mm_movemask_epi8": 16, "_mm256_movemask_ps": 8, "_mm256_movemask_pd": 4}


def lane_masks(R, P):
    """AVX-SHELL/lane-mask: a per-lane verdict collected with a movemask intrinsic has one bit per lane; it is not converted
    to an integer type with fewer bits than lanes (the upper lanes' failures would be dropped: an illegal character in the
    second half of a 32-character vector accepted).  Every function of the vectorised unit."""
    n = 0
    for f in P.functions_in(AVX):
        for b in f.blocks.values():
            for el in b.elems:
                for x in f.walk(el):
                    t_ = None
                    inner = None
                    if x["k"] == "cast":
                        inner, t_ = RU.uncast(f, x["a"][0]), f.unit.types[x["t"]] if x.get("t", -1) >= 0 else {}
                    elif x["k"] == "decl":
                        for v in x["vars"]:
                            if v.get("init") is not None:
                                i_ = RU.uncast(f, v["init"])
                                while i_ is not None and i_["k"] == "cast":
                                    i_ = RU.uncast(f, i_["a"][0])
                                if i_ is not None and i_["k"] == "call" and i_.get("callee") in LANES:
                                    inner, t_ = i_, f.unit.types[v["t"]]
                    while inner is not None and inner["k"] == "cast":
                        inner = RU.uncast(f, inner["a"][0])
                    if inner is not None and inner["k"] == "call" and inner.get("callee") in LANES and t_ and "w" in t_:
                        n += 1
                        R.check(t_["w"] >= LANES[inner["callee"]], "AVX-SHELL", "%s:lane-mask-keeps-every-lane:line%d" % (f.name, x.get("loc", [0])[0]), where(f, x),
                                "the %d lane bits fit the %d-bit type they are kept in" % (LANES[inner["callee"]], t_["w"]),
                                "the %d per-lane bits of %s are narrowed to %d bits: failures in the upper lanes are dropped, malformed text in that part of a vector is accepted by the vectorised path only" % (LANES[inner["callee"]], inner["callee"], t_["w"]))
    R.check(True, "AVX-SHELL", "lane-masks", AVX, "%d lane-mask conversions looked at; none narrower than its lanes" % n)


def avx_shell(R, P):
    lane_masks(R, P)
    hooks = AvxHooks()
    for name in ("aws_common_private_base64_encode_sse41", "aws_common_private_base64_decode_sse41"):
        f = P.fn(name)
        if not R.require(f is not None, "%s not found (is %s built?)" % (name, AVX)):
            continue
        R.fn(f)
        num = Num(f, P, hooks, max_paths=20000)
        num.track_progress = True
        sites = list(access_sites(f))
        vec = []
        for b in f.blocks.values():
            for el in b.elems:
                for x in f.walk(el):
                    if x["k"] == "call" and x.get("callee") in VEC:
                        vec.append((el["id"], x))
        try:
            sts = num.states_at({s[0] for s in sites} | {v[0] for v in vec})
        except Limit as ex:
            R.broken("NUM trace limit in %s: %s" % (name, ex))
            continue
        n = 0
        for eid, kind, nd in sites:
            inst = "%s:%s:%s" % (name, kind, f.show(nd)[:50])
            if name.endswith("decode_sse41") and kind == "mem" and nd.get("callee") in ("memcpy", "__builtin_memcpy", "__builtin___memcpy_chk") and f.show(RU.arg(f, nd, 0)) == "out":
                R.assumed_sites.append({"site": inst, "reason": "the final partial copy writes 3*len/4 minus the '=' count bytes; that it fits depends on the caller having counted the same padding (NOT decided)"})
                continue
            status, det = "ok", ""
            for st in sts.get(eid, []):
                s2 = st.copy()
                for (D, sz, mode) in addr_size(num, s2, kind, nd):
                    r = in_bounds(s2, D, sz)
                    if r[0] != "ok":
                        status, det = r[0], r[1] + " | " + str(s2.trail[-5:])
            if status == "untracked" and not C04.tracked_base(f, nd) and not any(p["n"] in f.show(nd) for p in f.params):
                continue
            n += 1
            R.check(status == "ok", "AVX-SHELL", inst, where(f, nd), "inside the caller's buffers / the bounce buffers in all states", "cannot establish that this access of the vectorised codec's scalar shell stays inside its buffer: %s" % det)
        for eid, x in vec:
            pi, size = VEC[x["callee"]]
            inst = "%s:%s:%s" % (name, x["callee"], f.show(x["a"][pi])[:40])
            ok, det = True, ""
            for st in sts.get(eid, []):
                s2 = st.copy()
                D = num.val(x["a"][pi], s2)
                r = in_bounds(s2, D, Poly.const(size))
                if r[0] != "ok":
                    ok, det = False, r[1]
            n += 1
            R.check(ok, "AVX-SHELL", inst, "%s:%d in %s()" % (AVX, x.get("loc", [0])[0], name), "the whole 32-byte vector access is inside the caller's buffer", "a 32-byte vector access can cross the end of the caller's buffer: %s" % det)
        R.require(n >= 4, "%s: only %d accesses analysed" % (name, n))
        for h, res in sorted(getattr(num, "progress", {}).items()):
            B = f.blocks[h]
            if B.cond is not None and f.is_const(B.cond) is not None:
                continue
            bad = [r_ for r_ in res if not r_[0]]
            R.check(not bad, "AVX-SHELL", "%s:loop@%s:progress" % (name, (B.term_loc or [0])[0]), "%s:%s" % (AVX, (B.term_loc or [0])[0]), "every iteration consumes input")
    pad_tail(R, P)
    tail_checks(R, P)
    helper_contracts(R, P)
    # the contract assumed above holds at the call sites
    for caller, kern, chk in (("aws_base64_encode", "aws_common_private_base64_encode_sse41", "enc"), ("aws_base64_decode", "aws_common_private_base64_decode_sse41", "dec")):
        f = P.fn(caller)
        if f is None:
            continue
        num = Num(f, P, C04.ParserHooks(), max_paths=30000)
        kc = [e for e in f.calls(kern)]
        if not R.require(len(kc) == 1, "%s: kernel call not found" % caller):
            continue
        sts = num.states_at({kc[0].node["id"]})
        ok, det, n = True, "", 0
        for st in sts.get(kc[0].node["id"], []):
            s2 = st.copy()
            a = [num.val(x, s2) for x in kc[0].node["a"]]
            n += 1
            if any(x is None for x in a):
                ok, det = False, "arguments not tracked"
                continue
            if chk == "enc":
                q, r = num.quot_rem(s2, a[2] + 2, 3, None)
                need = q * 4
            else:
                q, r = num.quot_rem(s2, a[2], 4, None)
                need = q * 3 - 2
            r1, r2 = in_bounds(s2, a[0], a[2]), in_bounds(s2, a[1], need)
            zero = entails(s2, a[2])
            if not ((r1[0] == "ok" or zero) and (r2[0] == "ok" or zero or entails(s2, need))):
                ok, det = False, "%s / %s" % (r1[1], r2[1])
        R.check(ok and n > 0, "AVX-SHELL", "%s:kernel-contract" % caller, where(f, kc[0]), "input readable for len bytes, output writable for the predicted length in all %d states" % n,
                "the buffers handed to the vectorised kernel do not satisfy the contract its shell was analysed under: %s" % det)
    # bounce buffer cleared in the iteration that partially fills it
    f = P.fn("aws_common_private_base64_encode_sse41")
    if f is not None:
        dom = dominators(f)
        loops = Num(f, P, None).loops()
        # the bounce buffer: the local vector a memcpy fills (by address) and that is then handed to the stride encoder
        def vec_local(e_):
            x_ = RU.strip_addr(f, RU.arg(f, e_.node, 0))
            if x_ is not None and x_["k"] == "var" and x_.get("sc") == "local" and "m256" in (f.ty(x_).get("s") or f.ty(x_).get("c") or ""):
                return x_["n"]
            return None
        enc_in = {n_ for e_ in f.calls("encode_stride") for n_ in [f.show(RU.uncast(f, RU.arg(f, e_.node, 0)))]}
        cps = [e for e in f.calls({"memcpy", "__builtin_memcpy", "__builtin___memcpy_chk"}) if vec_local(e) in enc_in]
        clr = [e for e in f.calls({"memset", "__builtin_memset", "__builtin___memset_chk"}) if vec_local(e) is not None]
        ok = bool(cps)
        for c in cps:
            body = [b for h, b in loops.items() if c.blk in b]
            inner = min(body, key=len) if body else set()
            ok = ok and any(z.blk in inner and ev_dominates(f, z, c, dom) and vec_local(z) == vec_local(c) and f.is_const(RU.arg(f, z.node, 1)) == 0 for z in clr)
        R.check(ok, "AVX-SHELL", "encode_sse41:bounce-buffer-cleared-per-iteration", where(f, cps[0]) if cps else f.name, "the partial copy into the bounce buffer follows a clear in the same loop iteration",
                "the bounce buffer is partially overwritten without being cleared in that iteration: bytes of the previous stride leak into the encoding")


def tail_checks(R, P):
    """the unused bits of the vectorised decoder's final quantum: every byte of the bounce output from the reported length
    to its end is tested for zero (the loop starts exactly at final_out, NUM)"""
    name = "aws_common_private_base64_decode_sse41"
    f = P.fn(name)
    if f is None:
        return
    loops = Num(f, P, None).loops()
    cand = []
    for h, body in loops.items():
        reads = [x for b in body for el in list(f.blocks[b].elems) + ([f.blocks[b].cond] if f.blocks[b].cond is not None else []) for x in f.walk(el, follow_refs=True) if x["k"] == "index" and "tmp_out" in f.show(x["a"][0])]
        if reads and f.blocks[h].cond is not None and "sizeof" not in f.show(f.blocks[h].cond) and any(f.is_const(a) is not None for a in (f.d(f.blocks[h].cond) or {}).get("a", [])):
            cand.append((h, body, reads))
    if not R.require(len(cand) == 1, "%s: trailing-bits loop over tmp_out not found (%d candidates)" % (name, len(cand))):
        return
    h, body, reads = cand[0]
    t = RU.cmp_norm(f, f.blocks[h].cond, True)
    cnt = f.show(RU.uncast(f, t[0])) if t else None
    decl = [e for e in f.all_events() if e.kind == "decl" and any(v["n"] == cnt for v in e.node["vars"])]
    num = Num(f, P, AvxHooks(), max_paths=20000)
    ok, det, n = False, "loop counter not found", 0
    if decl:
        try:
            sts = num.states_at(set(), after_ids={decl[0].node["id"]})
        except Limit as ex:
            R.broken(str(ex))
            return
        ok = True
        for st in sts.get(("after", decl[0].node["id"]), []):
            i0, fo = st.env.get("v:" + cnt), st.env.get("v:final_out")
            n += 1
            if i0 is None or fo is None or not (entails(st, i0 - fo) and entails(st, fo - i0)):
                ok, det = False, "the scan starts at %r, the reported length is %r" % (i0, fo)
        bound = f.is_const(t[2]) if t and t[2] is not None else None
        if not (t and t[1] == "<" and bound == 24):
            ok, det = False, "the scan ends at %s" % (f.show(t[2]) if t and t[2] is not None else None)
    R.check(ok and n > 0, "WELL-FORMED", "decode_sse41:unused-bits-checked-from-final_out", "%s in %s()" % (AVX, name), "every bounce-output byte from final_out to 24 is tested for zero (%d states)" % n,
            "the trailing-bits test of the vectorised decoder does not cover all bytes behind the decoded length (%s): padded text with non-zero unused bits (`AB==`) is accepted by the vector path and rejected by the portable one" % det)


def helper_contracts(R, P):
    """the per-vector helper of the decoder: reads one whole vector, writes exactly the decoded 24 bytes.  Its accesses are
    bounded by that contract (NUM on its body), and every call site provides that much room (NUM on the shell)."""
    from sa.bounds import EntryExtents
    for hname, req in sorted(HELPER_REQ.items()):
        f = P.fn(hname)
        if not R.require(f is not None, "%s() not found in %s" % (hname, AVX)):
            continue
        R.fn(f)
        pnames = [p["n"] for p in f.params]
        pairs = {pnames[i]: sz for i, sz in enumerate(req.values())}
        num = Num(f, P, EntryExtents(AvxHooks(), f, pairs), max_paths=4000)
        sites = list(access_sites(f))
        vec = [(el["id"], x) for b in f.blocks.values() for el in b.elems for x in f.walk(el) if x["k"] == "call" and x.get("callee") in VEC]
        try:
            sts = num.states_at({s[0] for s in sites} | {v[0] for v in vec})
        except Limit as ex:
            R.broken(str(ex))
            continue
        ok, det, cnt = True, "", 0
        for eid, kind, nd in sites:
            if not any(p in f.show(nd) for p in pnames):
                continue
            for st in sts.get(eid, []):
                s2 = st.copy()
                for (D, sz, mode) in addr_size(num, s2, kind, nd):
                    cnt += 1
                    r = in_bounds(s2, D, sz)
                    if r[0] != "ok":
                        ok, det = False, "%s: %s" % (f.show(nd)[:50], r[1])
        for eid, x in vec:
            pi, size = VEC[x["callee"]]
            if not any(p in f.show(x["a"][pi]) for p in pnames):
                continue
            for st in sts.get(eid, []):
                s2 = st.copy()
                cnt += 1
                r = in_bounds(s2, num.val(x["a"][pi], s2), Poly.const(size))
                if r[0] != "ok":
                    ok, det = False, "%s(%s): %s" % (x["callee"], f.show(x["a"][pi])[:40], r[1])
        R.check(ok and cnt >= 3, "AVX-SHELL", "%s:stays-inside-its-contract" % hname, "%s in %s()" % (AVX, hname), "reads at most %d bytes of `%s` and writes at most %d bytes of `%s` (%d accesses)" % (req["in"], pnames[0], req["out"], pnames[1], cnt),
                "%s() touches memory outside what its callers provide (%d readable, %d writable): %s - in the whole-vector loop the output is the caller's buffer, so the bytes behind the decoded text are overwritten" % (hname, req["in"], req["out"], det))
    g = P.fn("aws_common_private_base64_decode_sse41")
    if g is not None:
        num = Num(g, P, AvxHooks(), max_paths=20000)
        try:
            num.states_at({-1})
        except Limit as ex:
            R.broken(str(ex))
        calls = getattr(num, "helper_calls", [])
        by = {}
        for e, st, args in calls:
            req = list(HELPER_REQ[e["callee"]].values())
            o = by.setdefault(e["id"], [e, True, "", 0])
            o[3] += 1
            for a, sz in zip(args, req):
                r = in_bounds(st, a, Poly.const(sz)) if a is not None else ("fail", "argument not numeric")
                if r[0] != "ok":
                    o[1], o[2] = False, r[1]
        for eid, (e, ok, det, cnt) in sorted(by.items()):
            R.check(ok, "AVX-SHELL", "decode_sse41:%s-call-line%d" % (e["callee"], e.get("loc", [0])[0]), where(g, e), "the helper is given a whole readable vector and room for its 24 output bytes (%d states)" % cnt,
                    "a call of %s() does not provide the room its contract needs: %s" % (e["callee"], det))
        R.require(len(by) >= 2, "decode_sse41: only %d helper calls analysed" % len(by))


class _NonEmpty(AvxHooks):
    def entry(self, num, st):
        AvxHooks.entry(self, num, st)
        n = C04._param(num, st, 2)
        st.add(Poly.const(1) - n)  # a non-empty text


def pad_tail(R, P):
    """the whole-vector loop of the vectorised decoder treats '=' as an invalid character; only the tail code strips the
    padding.  So for every non-empty text the last characters must reach the tail: every accepting return of a non-empty
    input passes through the code that tests for '=' (NUM, all lengths)."""
    name = "aws_common_private_base64_decode_sse41"
    f = P.fn(name)
    if f is None:
        return
    pad_blocks = set()
    for b in f.blocks.values():
        for el in list(b.elems) + ([b.cond] if b.cond is not None else []):
            for x in f.walk(el, follow_refs=True):
                if x["k"] == "bin" and x["op"] in ("==", "!=") and any(f.is_const(a) == 61 for a in x["a"]):
                    pad_blocks.add(b.id)
    if not R.require(bool(pad_blocks), "%s: no comparison with '=' found (where is padding stripped?)" % name):
        return
    rets = [x for b in f.blocks.values() for x in b.elems if x["k"] == "ret"]
    # the tail region: blocks that dominate a padding test (loop bodies are summarised, their headers and the code before
    # them are on the trail) but not the accepting return itself
    dom = dominators(f)
    retblk = {b.id for b in f.blocks.values() for x in b.elems if x["k"] == "ret" and x["a"] and f.is_const(x["a"][0]) is None}
    common = set.intersection(*[dom[b] for b in retblk if b in dom]) if retblk else set()
    region = set()
    for pb in pad_blocks:
        region |= dom.get(pb, set()) - common
    pad_blocks = region | pad_blocks
    num = Num(f, P, _NonEmpty(), max_paths=20000)
    try:
        sts = num.states_at({r["id"] for r in rets})
    except Limit as ex:
        R.broken("NUM trace limit in %s: %s" % (name, ex))
        return
    ok, det, cnt = True, "", 0
    for r in rets:
        for st in sts.get(r["id"], []):
            v = num.val(r["a"][0], st)
            if v is not None and v.is_const() and v.cval() in (-1, 2 ** 64 - 1):
                continue  # a rejection
            cnt += 1
            seen = {t[0] for t in st.trail} | {t[1] for t in st.trail}
            if not (seen & pad_blocks):
                ok, det = False, "an accepting return at line %d is reached by a non-empty text without passing the padding-aware tail (trail %s)" % (r.get("loc", [0])[0], st.trail[-6:])
    R.check(ok and cnt > 0, "AVX-SHELL", "decode_sse41:last-characters-reach-the-padding-aware-tail", "%s in %s()" % (AVX, name),
            "every accepted non-empty text has its last characters handled by the code that strips '=' (%d accepting states)" % cnt,
            "the whole-vector loop (which rejects '=') can consume the end of the text: a padded encoding whose length is a multiple of 32 is refused by the vectorised decoder and accepted by the portable one: %s" % det)


def chunk(R, P):
    f = P.fn("aws_utf8_decoder_update")
    if not R.require(f is not None, "aws_utf8_decoder_update not found"):
        return
    R.fn(f)
    num = Num(f, P, None)
    loops = num.loops()
    real = {h: b for h, b in loops.items() if f.blocks[h].cond is None or f.is_const(f.blocks[h].cond) is None}
    # (1) every advance of the byte index is in a loop iteration that reads decoder->remaining first
    incs = []
    for b in f.blocks.values():
        for el in b.elems:
            for x in f.walk(el):
                if (x["k"] == "un" and x["op"] in ("pre++", "post++")) or (x["k"] == "bin" and x["op"] in ("+=", "=")):
                    l = f.d(x["a"][0])
                    if l is not None and l["k"] == "var" and not f.ty(l).get("ptr") and l["sc"] == "local":
                        # is it used as an index into bytes.ptr?
                        used = any(y["k"] == "index" and "bytes.ptr" in f.show(f.d(y["a"][0])) and l["n"] in f.show(f.d(y["a"][1])) for bb in f.blocks.values() for e2 in bb.elems for y in f.walk(e2))
                        if used and not (x["k"] == "bin" and x["op"] == "=" and f.is_const(x["a"][1]) == 0):
                            incs.append((b.id, x, l["n"]))
    reads = [e for e in f.field_accesses(rec="aws_utf8_decoder", field="remaining", modes=("r", "rw"))]
    # the byte loop: the (outermost) loop in which the byte index advances - there is exactly one such loop; loops nested in
    # its body (a table walk that classifies the byte) belong to the per-byte step
    byte_loops = {max(((h, bd) for h, bd in real.items() if blk in bd), key=lambda hb: len(hb[1]), default=(None, None))[0] for blk, x, nm in incs}
    ok = bool(incs) and len(byte_loops) == 1 and None not in byte_loops
    hdr = list(byte_loops)[0] if ok else None
    for blk, x, nm in incs:
        ok = ok and hdr is not None and any(e.blk in real[hdr] for e in reads)
    # the read of remaining happens on every path through the body before anything else branches on the byte
    if hdr is not None:
        first = [e for e in reads if all(True for _ in [0])]
        dom = dominators(f)
        import re
        byte_tests = [b for b in f.blocks.values() if b.id in real[hdr] and b.cond is not None and re.search(r"\bbyte\b", f.show(b.cond))]
        ok = ok and all(any(e.blk == t.id or (e.blk in dom.get(t.id, ())) for e in reads) for t in byte_tests)
    # one byte per round: the index moves by exactly one, at one place - a second advance inside the body takes bytes that the
    # per-byte step (continuation check included) never sees when they happen to lie in the same chunk
    steps = [x for blk, x, nm in incs]
    ok = ok and len(steps) == 1 and ((steps[0]["k"] == "un") or (steps[0]["k"] == "bin" and steps[0]["op"] == "+=" and f.is_const(steps[0]["a"][1]) == 1))
    R.check(ok, "CHUNK", "update:every-byte-through-the-step", "%s()" % f.name, "the byte index advances only in the loop whose body first consults decoder->remaining (%d advance sites)" % len(incs),
            "the byte index is advanced outside the per-byte step that consults decoder->remaining: the verdict depends on how the text is chunked")
    # (2) no local other than the index survives an iteration
    outer_written = set()
    if hdr is not None:
        for bid in real[hdr]:
            for el in f.blocks[bid].elems:
                for x in f.walk(el):
                    if (x["k"] == "bin" and x["op"] in ("=", "+=", "-=", "|=", "&=", "<<=", ">>=", "^=", "*=")) or (x["k"] == "un" and x["op"] in ("pre++", "post++", "pre--", "post--")):
                        l = f.d(x["a"][0])
                        if l is not None and l["k"] == "var" and l["sc"] == "local" and num.declared_outside(hdr, l["n"]):
                            outer_written.add(l["n"])
    idx = {nm for _, _, nm in incs}
    R.check(hdr is not None and outer_written <= idx, "CHUNK", "update:no-local-state-across-bytes", "%s()" % f.name, "the only local written in the loop and living across iterations is the index %s" % sorted(idx),
            "locals %s carry state from one byte to the next outside the decoder record" % sorted(outer_written - idx))
    statics = [n for n, g in P.globals.items() if g.get("file", "").endswith("encoding.c") and not g.get("const") and n not in ("HEX_CHARS",)]
    used = [n for n in statics if any(y["k"] == "var" and y["n"] == n for b in f.blocks.values() for el in b.elems for y in f.walk(el))]
    R.check(not used, "CHUNK", "update:no-static-state", "%s()" % f.name, "no mutable static storage is used")
    d = P.fn("aws_decode_utf8")
    if R.require(d is not None, "aws_decode_utf8 not found"):
        u, fz = d.calls("aws_utf8_decoder_update"), d.calls("aws_utf8_decoder_finalize")
        # every successful return comes after update on the local decoder and after finalize's verdict - finalize() having
        # returned 0 on the same decoder, or its test (no codepoint pending: decoder.remaining == 0) made in place
        good, nret = len(u) == 1 and argstr(d, u[0].node, 0) == "decoder", 0
        for r in d.returns():
            v = RU.uncast(d, r.node["a"][0]) if r.node.get("a") else None
            if v is None or d.is_const(v) != 0:
                continue
            nret += 1
            verdict = False
            for c, pol, b in RU.guards(d, r):
                cc, neg = RU.cond_call(d, c)
                if cc is not None and any(cc is e.node for e in fz) and pol == neg and argstr(d, cc, 0) == "decoder":
                    verdict = True
                g = RU.cmp_norm(d, c, pol)
                if g and g[2] is not None and g[1] == "==" and d.is_const(RU.uncast(d, g[2])) == 0:
                    l = RU.uncast(d, g[0])
                    if l is not None and l["k"] == "member" and l["f"] == "remaining" and l.get("rec") == "aws_utf8_decoder" and d.show(l["a"][0]) == "decoder":
                        verdict = True
            good = good and verdict and bool(u) and ev_dominates(d, u[0], r)
        R.check(good and nret >= 1, "CHUNK", "decode_utf8:update-then-finalize", "%s()" % d.name,
                "the one-shot validator is update followed by finalize's verdict on the same fresh decoder")
    z = P.fn("aws_utf8_decoder_finalize")
    if R.require(z is not None, "aws_utf8_decoder_finalize not found"):
        rs = z.calls("aws_utf8_decoder_reset")
        rd = z.field_accesses(rec="aws_utf8_decoder", field="remaining", modes=("r",))
        stale = [x for x in rd for r_ in rs if x in RU.reach_from(z, r_)]
        always = Typestate(z, 0, lambda e, s_: 1 if any(e is r_ for r_ in rs) else s_).exit_states == {1}
        R.check(len(rs) >= 1 and len(rd) >= 1 and not stale and always, "CHUNK", "finalize:verdict-then-reset", "%s()" % z.name, "finalize reads the pending count before resetting the decoder")


def analyse(ctx, replace=None, only=None):
    R = ctx.R
    units = [u for u in library_units(ctx.ex.repo) if "external" not in u]
    P = ctx.program(units, "ship", replace=replace)
    if not R.require(P.fn("aws_base64_decode") is not None, "%s not analysed" % ENC):
        return
    want = set(only.get("rules", [])) if only else None

    def on(rule):
        return want is None or rule in want
    if on("TABLES"):
        tables(R, P)
    if on("LENGTHS"):
        lengths(R, P)
    if on("REPORTED<=WRITTEN") or on("WELL-FORMED"):
        decoder(R, P)
        digit_results(R, P)
    if on("DISPATCH"):
        dispatch(R, P)
    if on("AVX-SHELL"):
        avx_shell(R, P)
    if on("CHUNK"):
        chunk(R, P)
    if want is None:
        # the codecs' own buffer accesses (C04's BOUND sweep, restricted to this file): an encoder / decoder that writes past
        # the capacity it checked, or reads past the text, breaks the round trip before it breaks anything else
        C04.analyse(ctx, replace=replace, only={"files": [ENC], "rules": []})


MUTANTS = [
    {"name": "decode-table-hole", "file": ENC, "expect": "TABLES", "old": "    52,   53,   54,   55,   56,   57,   58,   59,   60,   61,   0xDD, 0xDD, 0xDD, 255,  0xDD, 0xDD,", "new": "    52,   53,   54,   55,   56,   57,   58,   59,   60,   61,   0xDD, 0xDD, 0xDD, 255,  0xDD, 62,"},
    {"name": "hex-upper-range-off", "file": ENC, "expect": "TABLES", "old": "    if (character >= 'A' && character <= 'F') {", "new": "    if (character >= 'A' && character <= 'G') {"},
    {"name": "encoded-len-rounds-down", "file": ENC, "expect": "LENGTHS", "old": "    size_t tmp = to_encode_len + 2;", "new": "    size_t tmp = to_encode_len + 1;"},
    {"name": "hex-decode-reports-half", "file": ENC, "expect": "LENGTHS", "old": "    *decoded_len = temp >> 1;", "new": "    *decoded_len = to_decode_len >> 1;"},
    {"name": "padding-at-buffer-start", "file": ENC, "expect": "LENGTHS", "old": "        output->buffer[output->len + block_count * 4 - 1] = '=';", "new": "        output->buffer[block_count * 4 - 1] = '=';"},
    {"name": "final-quantum-checks-dropped", "file": ENC, "expect": "WELL-FORMED", "old": "            if (value4 != BASE64_SENTINEL_VALUE || (value2 & 0x0F)) {", "new": "            if ((value2 & 0x0F)) {"},
    {"name": "trailing-bits-unchecked", "file": ENC, "expect": "WELL-FORMED", "old": "        } else if (value4 == BASE64_SENTINEL_VALUE && (value3 & 0x03)) {", "new": "        } else if (value4 == BASE64_SENTINEL_VALUE && (value3 & 0x01)) {"},
    {"name": "sentinel-allowed-in-body", "file": ENC, "expect": "WELL-FORMED", "old": "s_base64_get_decoded_value(to_decode->ptr[string_index++], &value2, 0) ||\n            s_base64_get_decoded_value(to_decode->ptr[string_index++], &value3, 1)", "new": "s_base64_get_decoded_value(to_decode->ptr[string_index++], &value2, 1) ||\n            s_base64_get_decoded_value(to_decode->ptr[string_index++], &value3, 1)"},
    {"name": "reported-more-than-written", "file": ENC, "expect": "REPORTED<=WRITTEN", "old": "    output->len = decoded_length;\n    return AWS_OP_SUCCESS;\n}\n\nstruct aws_utf8_decoder {", "new": "    output->len = decoded_length;\n    return AWS_OP_SUCCESS;\n}\n\nstruct aws_utf8_decoder  {"},
    {"name": "dispatch-before-capacity-check", "file": ENC, "expect": "DISPATCH", "old": "    if (output->capacity < decoded_length) {\n        return aws_raise_error(AWS_ERROR_SHORT_BUFFER);\n    }\n\n    if (aws_common_private_has_avx2()) {", "new": "    if (!aws_common_private_has_avx2() && output->capacity < decoded_length) {\n        return aws_raise_error(AWS_ERROR_SHORT_BUFFER);\n    }\n\n    if (aws_common_private_has_avx2()) {"},
    {"name": "avx-main-loop-one-stride-too-many", "file": AVX, "expect": "AVX-SHELL", "old": "    while (inlen >= 32) {", "new": "    while (inlen >= 24) {"},
    {"name": "utf8-three-byte-shortcut-inside-one-chunk", "file": ENC, "expect": "CHUNK", "old": "    for (size_t i = 0; i < bytes.len; ++i) {\n        uint8_t byte = bytes.ptr[i];", "new": "    for (size_t i = 0; i < bytes.len; ++i) {\n        uint8_t byte = bytes.ptr[i];\n        if (decoder->remaining == 0 && (byte & 0xF0) == 0xE0 && bytes.len - i > 2 && (bytes.ptr[i + 1] & 0xC0) == 0x80) {\n            i += 2;\n            continue;\n        }"},
    {"name": "utf8-ascii-fast-path", "file": ENC, "expect": "CHUNK", "old": "    for (size_t i = 0; i < bytes.len; ++i) {\n        uint8_t byte = bytes.ptr[i];", "new": "    size_t i = 0;\n    while (i < bytes.len && (bytes.ptr[i] & 0x80) == 0) {\n        ++i;\n    }\n    for (; i < bytes.len; ++i) {\n        uint8_t byte = bytes.ptr[i];"},
]
MUTANTS = [m for m in MUTANTS if m["name"] != "reported-more-than-written"]
MUTANTS.append({"name": "decoded-len-ignores-second-pad", "file": ENC, "expect": "LENGTHS", "old": "        padding = 2;", "new": "        padding = 1;"})
MUTANTS.append({"name": "avx-decode-loop-eats-padded-tail", "file": AVX, "expect": "AVX-SHELL", "old": "    while (len > 32) {", "new": "    while (len >= 32) {"})
MUTANTS.append({"name": "avx-decode-helper-stores-whole-vector", "file": AVX, "expect": "AVX-SHELL", "old": "    _mm_storeu_si128((__m128i *)out, lo);\n    memcpy(out + 16, p_hi, sizeof(*p_hi));", "new": "    (void)lo;\n    (void)p_hi;\n    _mm256_storeu_si256((__m256i *)out, vec);"})
MUTANTS.append({"name": "avx-trailing-bits-scan-starts-late", "file": AVX, "expect": "WELL-FORMED", "scope": {"rules": ["AVX-SHELL"]}, "old": "        for (size_t i = final_out; i < sizeof(tmp_out); i++) {", "new": "        for (size_t i = final_out + 1; i < sizeof(tmp_out); i++) {"})
MUTANTS.append({"name": "hex-leading-nibble-unchecked", "file": ENC, "expect": "WELL-FORMED", "old": "        if (s_hex_decode_char_to_int((char)to_decode->ptr[0], &low_value)) {\n            return aws_raise_error(AWS_ERROR_INVALID_HEX_STR);\n        }\n", "new": "        s_hex_decode_char_to_int((char)to_decode->ptr[0], &low_value);\n"})
MUTANTS.append({"name": "avx-bounce-clear-removed", "file": AVX, "expect": "AVX-SHELL", "old": "        memset(&instride, 0, sizeof(instride));\n", "new": ""})
for _m in MUTANTS:
    _m.setdefault("scope", {"rules": [_m["expect"]]})
