"""C08 - thread scheduler: protocol shape (DESIGN.md section 4, C08)."""
from sa import rules as RU
from sa.cfg import Typestate, dominators, edges, ev_dominates
from sa.rules import argstr, where

FILE = "source/thread_scheduler.c"
REC_TD = "aws_thread_scheduler.thread_data"
QUEUES = ("scheduling_queue", "cancel_queue")

DECIDED = [
    "LOCK: every access to the hand-over queues happens with thread_data.mutex of the same scheduler held (constructor before launch and destroy after join exempt)",
    "CONFINE: the inner task scheduler is touched only by the scheduler thread, by the constructor before/without a running thread, and by destroy after the join",
    "NOTIFY: every enqueue is followed by a notification of the scheduler's condition variable; the wake predicate reads everything a notifier changes; because the exit flag is stored without the mutex, every wait on the predicate is bounded in time (no untimed wait, no `forever` time-out constant); a record is completely written before it is linked into a hand-over queue",
    "SHUTDOWN-ORDER: exit flag -> notify -> join -> inner clean-up -> primitive clean-ups -> release; the scheduler thread is launched from a local copy of the options with join_strategy = AWS_TJS_MANUAL, so that join really waits (found D16, fixed); aws_ref_count_release decides the last reference from one fetch_sub; within a pass the cancellation records are processed before run-all",
    "DRAIN: both hand-over queues are provably empty (or drained into a consumer) between the join and the release; no local batch list is dropped while it may hold items",
    "CANCEL-NODE: each cancellation record is enqueued on every path after allocation and released after being consumed; a record's task reaches the inner cancel (which invokes unconditionally) only through a test that it is still linked / scheduled there or was removed from the hand-over queue by the request (found D14, fixed); record helpers are followed (they run where their callers run)",
    "BALANCE: no function returns holding the mutex; the wait is entered with the mutex held",
    "CANCEL: the inner scheduler's cancel detaches from a list when linked, from the heap only when scheduled, then invokes once (shared with C07)",
    "ATOMIC-MAP (shared with C15): the atomic operations behind should_exit and the reference count perform the builtin and memory order their names say",
    "INNER (shared with C07): DETACH-FIRST, NEVER-EARLY, BATCH, SCHEDULE and HAS-TASKS of the single-threaded scheduler hold - the thread loop and the final release's `cancel remaining via clean-up` are built on them",
    "NOBLOCK: nothing that can invoke a task function (inner cancel/run-all/clean-up) and no client entry point runs while the hand-over mutex is held",
]
NOT_DECIDED = ["which interleaving occurs; exactly-once as a run-time fact (only the schedule-independent protocol shape is decided)",
               "latency of shutdown (the unlocked exit-flag store can delay a wake-up by the wait timeout; the property bounds no latency)"]
ASSUMPTIONS = ["aws_mutex_lock/unlock, condition-variable wait semantics as documented (wait releases and re-acquires the mutex)",
               "aws_linked_list_* have their documented sequence effect (decided under C09)"]

LIST_PUSH = {"aws_linked_list_push_back": 0, "aws_linked_list_push_front": 0}
LIST_MUT_NODE = {"aws_linked_list_insert_after", "aws_linked_list_insert_before"}
NOTIFY = {"aws_condition_variable_notify_one", "aws_condition_variable_notify_all"}
CONSUME_TASK = {"aws_task_scheduler_schedule_now", "aws_task_scheduler_schedule_future", "aws_task_run"}


def _assignment_of(f, ev):
    for b in f.blocks.values():
        for el in b.elems:
            for n in f.walk(el):
                if n["k"] == "bin" and n["op"] == "=" and f.d(n["a"][0]) is ev.node:
                    return n
    return None


def queue_of(fn, node):
    """if node denotes X->thread_data.<queue> (possibly via &), return (queue, basestr)"""
    n = RU.strip_addr(fn, node)
    if n is not None and n["k"] == "member" and n.get("rec") == REC_TD and n["f"] in QUEUES:
        return n["f"], fn.show(n["a"][0], alias=True)
    return None


def record_initialised(R, P, fns):
    """CANCEL-NODE/initialised: the cancellation record handed to the scheduler thread has every field written by the request:
    it comes from the zeroing allocation, or each of its fields (the link excepted - the push writes it) is stored on every
    path before the push.  A field left as the allocator returned it (`removed_from_scheduling_queue`) is read by the scheduler
    thread as whatever the recycled block held: a cancel that came too late then cancels the task a second time."""
    f = fns["aws_thread_scheduler_cancel_task"]
    allocs = f.calls({"aws_mem_calloc", "aws_mem_acquire"})
    pushes = [e for e in f.calls("aws_linked_list_push_back") if "cancel_queue" in f.show(e.node)]
    if not R.require(len(allocs) == 1 and len(pushes) == 1, "cancel_task: the record's allocation / its push to the cancel queue not found"):
        return
    if allocs[0].node["callee"] == "aws_mem_calloc":
        R.ok("CANCEL-NODE", "record-fully-initialised", where(f, allocs[0]), "the record comes from the zeroing allocation")
        return
    rec = None
    for e in f.field_accesses(modes=("w",)):
        if e.node.get("rec") and "cancel" in e.node["rec"]:
            rec = e.node["rec"]
    fields = [fd["n"] for fd in (P.records.get(rec) or {}).get("fields", [])] if rec else []
    dom = dominators(f)
    missing = []
    for fd in fields:
        ft = [e for e in f.field_accesses(rec=rec, field=fd, modes=("w",))]
        is_link = any(e2.node.get("rec") == rec and e2.node["f"] == fd for e2 in f.field_accesses(rec=rec, field=fd, modes=("addr",)) if True) and not ft
        if is_link:
            continue
        if not any(ev_dominates(f, w, pushes[0], dom) for w in ft):
            missing.append(fd)
    R.check(bool(fields) and not missing, "CANCEL-NODE", "record-fully-initialised", where(f, allocs[0]), "every field of the record is stored on every path before it is queued",
            "the cancellation record comes from %s and its field(s) %s are not stored on every path before it is queued: the scheduler thread reads what the recycled block held" % (allocs[0].node["callee"], missing))


def analyse(ctx, replace=None, only=None):
    R = ctx.R
    P = ctx.program([FILE, "source/task_scheduler.c", "source/ref_count.c"], "ship", replace=replace)
    fns = {f.name: f for f in P.functions_in("thread_scheduler.c")}
    need = ["s_destroy_callback", "s_thread_should_wake", "s_thread_fn", "aws_thread_scheduler_new",
            "aws_thread_scheduler_schedule_future", "aws_thread_scheduler_cancel_task"]
    for n in need:
        if not R.require(n in fns, "anchor function %s not found in %s" % (n, FILE)):
            return
    for f in fns.values():
        R.fn(f)
    R.require("aws_thread_scheduler" in P.records and any(f["n"] == "thread_data" for f in P.records["aws_thread_scheduler"]["fields"]),
              "struct aws_thread_scheduler.thread_data not found")

    record_initialised(R, P, fns)
    helpers = record_helpers(fns)
    # ------------------------------------------------------------------ LOCK
    n_acc = 0
    # predicate functions: every use of the function as a value must be the predicate argument of a wait on the same mutex
    pred_fns = set()
    for f in fns.values():
        for e in f.calls({"aws_condition_variable_wait_for_pred", "aws_condition_variable_wait_pred"}):
            pi = 3 if e.node["callee"].endswith("wait_for_pred") else 2
            p = RU.arg(f, e.node, pi)
            if p is not None and p["k"] == "fn":
                pred_fns.add(p["n"])
            ts = RU.lockset(f)
            held = RU.held_at(ts, e) or set()
            m = argstr(f, e.node, 1)
            R.check(m in held, "BALANCE", "wait-with-mutex-held:%s" % f.name, where(f, e),
                    "condition wait entered holding %s" % m, "condition wait on %s entered without holding it (held: %s)" % (m, sorted(held)))
            cv = RU.strip_addr(f, RU.arg(f, e.node, 0))
            R.check(cv is not None and cv["k"] == "member" and cv["f"] == "c_var" and m.endswith("thread_data.mutex"), "LOCK",
                    "wait-uses-scheduler-cv-and-mutex:%s" % f.name, where(f, e), "waits on thread_data.c_var with thread_data.mutex")
    # any other use of a predicate function's name?
    for f in fns.values():
        for b in f.blocks.values():
            for el in b.elems:
                for n in f.walk(el):
                    if n["k"] == "fn" and n["n"] in pred_fns:
                        pass
    for name, f in sorted(fns.items()):
        acc = [e for e in f.field_accesses(rec=REC_TD, field=QUEUES)]
        if not acc:
            continue
        ts = RU.lockset(f)
        dom = dominators(f)
        for e in acc:
            n_acc += 1
            base = f.show(e.node["a"][0], alias=True)  # X->thread_data
            want = base + ".mutex"
            inst = "%s:%s" % (name, e.node["f"])
            if name in pred_fns:
                R.ok("LOCK", inst, where(f, e), "wait predicate: runs with the waited mutex held (call site checked)")
                continue
            held = RU.held_at(ts, e)
            if held is not None and want in held:
                R.ok("LOCK", inst, where(f, e), "%s held" % want)
                continue
            if name == "aws_thread_scheduler_new":
                launches = f.calls("aws_thread_launch")
                after = any(e in RU.reach_from(f, l) for l in launches)
                R.check(not after and launches, "LOCK", inst, where(f, e), "constructor access before aws_thread_launch (object not yet shared)",
                        "constructor touches %s after the thread may be running without the mutex" % e.node["f"])
                continue
            if name == "s_destroy_callback":
                joins = f.calls("aws_thread_join")
                okj = any(ev_dominates(f, j, e, dom) for j in joins)
                R.check(okj, "LOCK", inst, where(f, e), "destroy access after aws_thread_join (scheduler thread has exited, last reference)",
                        "destroy touches %s before joining the scheduler thread and without the mutex" % e.node["f"])
                continue
            R.fail("LOCK", inst, where(f, e), "access to %s.%s without holding %s (held on all paths: %s)" % (base, e.node["f"], want, sorted(held or [])))
        # balance: no exit with a lock held
        leaked = set()
        for s in ts.exit_states:
            leaked |= set(s)
        R.check(not leaked, "BALANCE", "no-lock-at-exit:%s" % name, "%s()" % name, "every path returns with the mutex released", "returns while holding %s" % sorted(leaked))
    R.require(n_acc >= 9, "only %d guarded queue accesses found (confirmed by reading: >= 9)" % n_acc)

    # unlinking a node found in a hand-over queue is a mutation of that queue: under the mutex as well
    for name, f in sorted(fns.items()):
        if name in ("s_thread_fn", "s_destroy_callback", "aws_thread_scheduler_new") or name in helpers:
            continue
        ts = RU.lockset(f)
        for e in f.calls({"aws_linked_list_remove"} | LIST_MUT_NODE):
            held = RU.held_at(ts, e) or set()
            R.check(any(h.endswith("thread_data.mutex") for h in held), "LOCK", "%s:%s" % (name, e.node["callee"]), where(f, e), "hand-over queue node unlinked with thread_data.mutex held",
                    "%s unlinks / links a hand-over queue node without holding thread_data.mutex (held: %s): the scheduler thread can take the queue in between and re-initialise the node" % (name, sorted(held)))
    # a task's own list node (`task->node`) is what client threads link into the hand-over queue under the mutex: outside the
    # mutex a function of this file looks at it / hands the task to something that unlinks it only for a task it took off a
    # list itself (pop_front of a private copy, or of the queues after the join).  A task reached through a cancellation
    # record may have been scheduled again and sit in the shared queue.
    n_nodes = 0
    for name, f in sorted(fns.items()):
        if name == "aws_thread_scheduler_new":
            continue
        ts = RU.lockset(f)
        for e in f.field_accesses(rec="aws_task", field="node"):
            base = RU.uncast(f, e.node["a"][0])
            held = RU.held_at(ts, e) or set()
            if any(h.endswith("thread_data.mutex") for h in held):
                n_nodes += 1
                continue
            own = False
            o = RU.origin(f, base) if base is not None else None
            for _ in range(4):
                # AWS_CONTAINER_OF(node, struct aws_task, node): (T *)((uint8_t *)node - offsetof)
                while o is not None and o["k"] == "bin" and o["op"] in ("-", "+"):
                    o = RU.origin(f, o["a"][0])
                if o is not None and o["k"] == "call" and o.get("callee") in ("aws_linked_list_pop_front", "aws_linked_list_pop_back"):
                    own = True
                    break
                if o is not None and o["k"] == "var" and o.get("sc") == "param" and name not in ("s_process_cancellation",):
                    # the task a client passes in: scheduling it (linking the node, under the mutex: checked above) is the caller's right
                    own = e.mode in ("addr",)
                    break
                break
            n_nodes += 1
            R.check(own, "LOCK", "%s:task-node-outside-the-mutex" % name, where(f, e), "the task's list node is touched without the mutex only for a task taken off a list by this very code",
                    "%s looks at / unlinks `%s` without holding thread_data.mutex, for a task it did not take off a list itself: the task may have been scheduled again and sit in the hand-over queue, which other threads are changing - the queue is corrupted (a task is lost) and a cancel request that predates the new scheduling cancels it" % (name, f.show(e.node)))
    R.require(n_nodes >= 1, "only %d accesses to a task's list node found in thread_scheduler.c" % n_nodes)
    # ------------------------------------------------------------------ CONFINE (inner scheduler)
    n_inner = 0
    for name, f in sorted(fns.items()):
        acc = f.field_accesses(rec="aws_thread_scheduler", field="scheduler")
        if not acc:
            continue
        dom = dominators(f)
        for e in acc:
            n_inner += 1
            inst = "%s:inner-scheduler" % name
            if name in ("s_thread_fn",) or name in pred_fns:
                R.ok("CONFINE", inst, where(f, e), "runs on the scheduler thread")
            elif name == "s_destroy_callback":
                joins = f.calls("aws_thread_join")
                R.check(any(ev_dominates(f, j, e, dom) for j in joins), "CONFINE", inst, where(f, e), "after aws_thread_join",
                        "destroy touches the inner scheduler before the scheduler thread has been joined")
            elif name == "aws_thread_scheduler_new":
                # allowed: before launch, or only on the launch-failed branch
                st = launch_state(f)
                sts = st.before.get(e.pos, set())
                R.check(sts and sts <= {"none", "failed"}, "CONFINE", inst, where(f, e), "constructor: no thread running (%s)" % sorted(sts),
                        "constructor touches the inner scheduler while the launched thread may be running (%s)" % sorted(sts))
            elif name in helpers:
                # a record helper runs where it is called: every call site is on the scheduler thread or after the join
                okh, sites_ = True, 0
                for cn, cf in fns.items():
                    cd = dominators(cf)
                    for ce in cf.calls(name):
                        sites_ += 1
                        if cn == "s_thread_fn" or cn in pred_fns:
                            continue
                        if cn == "s_destroy_callback" and any(ev_dominates(cf, j, ce, cd) for j in cf.calls("aws_thread_join")):
                            continue
                        okh = False
                R.check(okh and sites_ > 0, "CONFINE", inst, where(f, e), "helper called only from the scheduler thread / after the join (%d call sites)" % sites_,
                        "helper %s touches the inner scheduler and is called from a client-side function" % name)
            else:
                R.fail("CONFINE", inst, where(f, e), "client-thread function touches the inner (single-threaded) task scheduler")
    R.require(n_inner >= 9, "only %d inner-scheduler uses found (confirmed: >= 9)" % n_inner)

    # ------------------------------------------------------------------ NOTIFY
    pred = fns["s_thread_should_wake"]
    pred_reads = set()
    for e in pred.field_accesses(rec=REC_TD):
        pred_reads.add(e.node["f"])
    for e in pred.field_accesses(rec="aws_thread_scheduler"):
        pred_reads.add(e.node["f"])
    notifiers = 0
    for name, f in sorted(fns.items()):
        if name in ("s_thread_fn", "aws_thread_scheduler_new") or name in pred_fns:
            continue
        pushes = []
        for e in f.calls(set(LIST_PUSH)):
            q = queue_of(f, RU.arg(f, e.node, 0))
            if q:
                pushes.append((e, q))
        stores = [e for e in f.calls({"aws_atomic_store_int", "aws_atomic_store_int_explicit"})
                  if (RU.strip_addr(f, RU.arg(f, e.node, 0)) or {}).get("f") == "should_exit"]
        changed = [q[0] for _, q in pushes] + (["should_exit"] if stores else [])
        if not changed:
            continue
        notifiers += 1

        def is_change(e, pushes=pushes, stores=stores):
            return any(e is p for p, _ in pushes) or any(e is s for s in stores)

        def is_notify(e, f=f):
            if e.kind == "call" and e.node.get("callee") in NOTIFY:
                cv = RU.strip_addr(f, RU.arg(f, e.node, 0))
                return cv is not None and cv["k"] == "member" and cv["f"] == "c_var" and cv.get("rec") == REC_TD
            return False

        # what the wait predicate reads changes only with the mutex held: the scheduler thread tests the predicate under the
        # mutex and goes to sleep without releasing it in between, so a change (and its notification) made without the mutex
        # can fall between the test and the wait and wake nobody
        ls_ = RU.lockset(f)
        for s_ev in stores:
            held_ = RU.held_at(ls_, s_ev) or set()
            R.check(any(h_.endswith("thread_data.mutex") for h_ in held_), "NOTIFY", "predicate-input-changed-under-the-mutex:%s:should_exit" % name, where(f, s_ev),
                    "should_exit is stored with thread_data.mutex held", "should_exit - read by the wait predicate - is stored without thread_data.mutex (held: %s): the exit request and its notification can fall between the scheduler thread's predicate check and its wait, the final release then blocks for the whole timed wait" % sorted(held_))
        okf, ts = RU.must_follow(f, is_change, is_notify)
        R.check(okf, "NOTIFY", "change-then-notify:%s" % name, "%s()" % name, "every path after changing %s notifies thread_data.c_var" % changed,
                "a path changes %s and returns without notifying the scheduler thread (lost wake-up)" % changed)
        for c in changed:
            R.check(c in pred_reads, "NOTIFY", "predicate-reads:%s" % c, "s_thread_should_wake()", "wake predicate reads %s" % c,
                    "notifier %s changes %s but the wake predicate s_thread_should_wake does not read it" % (name, c))
    R.require(notifiers >= 3, "only %d notifier functions found (confirmed: schedule_future, cancel_task, destroy)" % notifiers)
    # a predicate input that is changed WITHOUT the mutex can be changed (and notified) between the waiter's predicate
    # evaluation and its blocking: that notification is lost, so every wait on the predicate must be bounded in time
    unlocked = []
    for name, f in sorted(fns.items()):
        if name in ("aws_thread_scheduler_new",):
            continue
        ts = RU.lockset(f)
        for e in f.calls({"aws_atomic_store_int", "aws_atomic_store_int_explicit"}):
            fld = (RU.strip_addr(f, RU.arg(f, e.node, 0)) or {}).get("f")
            if fld in pred_reads and not any(h.endswith("thread_data.mutex") for h in (RU.held_at(ts, e) or set())):
                unlocked.append((name, fld, e))
    waits = [(f, e) for f in fns.values() for e in f.calls({"aws_condition_variable_wait_for_pred", "aws_condition_variable_wait_pred", "aws_condition_variable_wait", "aws_condition_variable_wait_for"})]
    R.require(len(waits) >= 1, "no condition wait found in %s" % FILE)
    if unlocked:
        for f, e in waits:
            timed = e.node["callee"] in ("aws_condition_variable_wait_for_pred", "aws_condition_variable_wait_for")
            okw, det = timed, "untimed %s" % e.node["callee"]
            if timed:
                # constants reaching the timeout argument are finite durations, not a `forever` sentinel
                tv = RU.uncast(f, RU.arg(f, e.node, 2))
                big = []
                if tv is not None and tv["k"] == "var":
                    for b in f.blocks.values():
                        for el in b.elems:
                            for x in f.walk(el):
                                if x["k"] == "bin" and x["op"] == "=" and f.show(f.d(x["a"][0])) == tv["n"]:
                                    cv_ = f.is_const(x["a"][1])
                                    if cv_ is not None and abs(cv_) >= 2 ** 62:
                                        big.append(cv_)
                            if el["k"] == "decl":
                                for v in el["vars"]:
                                    if v["n"] == tv["n"] and v.get("init") is not None and f.is_const(v["init"]) is not None and abs(f.is_const(v["init"])) >= 2 ** 62:
                                        big.append(f.is_const(v["init"]))
                elif tv is not None and f.is_const(tv) is not None and abs(f.is_const(tv)) >= 2 ** 62:
                    big.append(f.is_const(tv))
                okw, det = not big, "the time-out can be the `forever` value %s" % big
            R.check(okw, "NOTIFY", "wait-is-timed:%s" % f.name, where(f, e), "the wait is bounded in time (%s is changed without the mutex in %s, so its notification can fall between predicate check and blocking)" % (unlocked[0][1], unlocked[0][0]),
                    "%s: %s is stored without thread_data.mutex in %s(), so its notification can arrive after the waiter evaluated the predicate and before it blocks; with an unbounded wait the scheduler thread sleeps forever and the final release never returns from join" % (det, unlocked[0][1], unlocked[0][0]))
    # publication: a task is completely written before it is linked into the hand-over queue (the scheduler thread may take
    # it the moment the mutex is released - or, for a thread that is already awake, the moment it is linked)
    for name, f in sorted(fns.items()):
        if name in ("s_thread_fn", "s_destroy_callback"):
            continue
        for e in f.calls(set(LIST_PUSH)):
            q = queue_of(f, RU.arg(f, e.node, 0))
            if not q:
                continue
            item = RU.strip_addr(f, RU.arg(f, e.node, 1))
            if item is None or item["k"] != "member":
                continue
            owner = f.show(f.d(item["a"][0]))
            late = [w for w in RU.reach_from(f, e) if w.kind == "access" and w.mode in ("w", "rw") and w.node["k"] == "member" and f.show(f.d(w.node["a"][0])) == owner and w is not e]
            R.check(not late, "NOTIFY", "published-complete:%s:%s" % (name, owner), where(f, e), "every field of `%s` is written before it is linked into %s" % (owner, q[0]),
                    "`%s` is still written (%s) after it was linked into the hand-over queue: the scheduler thread can take it with the old value (a task with a stale timestamp runs at the wrong time)" % (owner, sorted({f.show(w.node) for w in late})))

    # ------------------------------------------------------------------ SHUTDOWN-ORDER
    d = fns["s_destroy_callback"]
    dom = dominators(d)

    def sel(callee, field=None, argi=0):
        out = []
        for e in d.calls(callee):
            if field is None:
                out.append(e)
            else:
                a = RU.strip_addr(d, RU.arg(d, e.node, argi))
                if a is not None and a["k"] == "member" and a["f"] == field:
                    out.append(e)
        return out

    chain = [
        ("store-exit-flag", sel({"aws_atomic_store_int", "aws_atomic_store_int_explicit"}, "should_exit")),
        ("notify", sel(NOTIFY, "c_var")),
        ("join", sel("aws_thread_join", "thread")),
        ("inner-clean-up", sel("aws_task_scheduler_clean_up", "scheduler")),
        ("primitive-clean-ups", sel("aws_condition_variable_clean_up", "c_var") + sel("aws_mutex_clean_up", "mutex") + sel("aws_thread_clean_up", "thread")),
        ("release", [e for e in d.calls("aws_mem_release") if argstr(d, e.node, 1, addr=False) in ("arg", "scheduler")]),
    ]
    for nm, evs in chain:
        R.require(len(evs) >= 1, "s_destroy_callback: step %s not found" % nm)
    R.require(len(chain[4][1]) >= 3, "s_destroy_callback: expected clean-up of cv, mutex and thread")
    for (an, A), (bn, B) in zip(chain, chain[1:]):
        if not A or not B:
            continue
        bad = RU.must_precede(d, A, B, dom)
        R.check(not bad, "SHUTDOWN-ORDER", "%s<%s" % (an, bn), where(d, (bad or B)[0]), "%s precedes %s on every path" % (an, bn),
                "%s can happen before %s" % (bn, an))
    # nothing is invoked after the release: no call follows it
    for rel in chain[5][1]:
        later = [e for e in RU.reach_from(d, rel) if e.kind in ("call",)]
        R.check(not later, "SHUTDOWN-ORDER", "nothing-after-release", where(d, rel), "release of the scheduler object is the last action",
                "calls follow the release of the scheduler object: %s" % [x.node.get("callee") for x in later][:3])

    # the destroy callback relies on aws_thread_join: the scheduler thread must be launched joinable whatever options the
    # caller passed (aws_thread_join is a no-op for a thread launched with the MANAGED join strategy)
    nw = fns["aws_thread_scheduler_new"]
    ln = nw.calls("aws_thread_launch")
    if R.require(len(ln) == 1, "aws_thread_scheduler_new: aws_thread_launch call not found"):
        opt = RU.strip_addr(nw, RU.arg(nw, ln[0].node, 3))
        manual = P.enums.get("AWS_TJS_MANUAL")
        okj, detj = False, "the caller's options are passed on unchanged"
        if opt is not None and opt["k"] == "var" and opt.get("sc") == "local" and RU.uncast(nw, RU.arg(nw, ln[0].node, 3))["k"] == "un":
            sts_ = [e for e in nw.field_accesses(rec="aws_thread_options", field="join_strategy", modes=("w",)) if nw.show(nw.d(e.node["a"][0])) == opt["n"]]
            vals_ = [nw.is_const(_assignment_of(nw, e)["a"][1]) for e in sts_ if _assignment_of(nw, e)]
            domn = dominators(nw)
            okj = bool(sts_) and all(v == manual for v in vals_) and any(ev_dominates(nw, e, ln[0], domn) for e in sts_) and not [e for e in sts_ if e in RU.reach_from(nw, ln[0])]
            # ... and the local is not overwritten as a whole between that store and the launch (typestate: every path
            # reaches the launch with the store still in force)
            whole = [e for e in nw.all_events() if e.kind == "access" and e.node["k"] == "var" and e.node["n"] == opt["n"] and e.mode == "w"]
            tsj = Typestate(nw, "unset", lambda e, z: "manual" if any(e is x for x in sts_) else ("overwritten" if any(e is x for x in whole) else z))
            okj = okj and tsj.before.get(ln[0].pos, set()) == {"manual"}
            if tsj.before.get(ln[0].pos, set()) != {"manual"}:
                detj += "; the options local is assigned as a whole after the store on some path"
            detj = "join_strategy stores on the local options: %s" % vals_
        R.check(okj and manual is not None, "SHUTDOWN-ORDER", "thread-launched-joinable", where(nw, ln[0]), "the scheduler thread is launched from a local copy of the options whose join_strategy is set to AWS_TJS_MANUAL",
                "the scheduler thread is launched with the caller's join strategy (%s): with AWS_TJS_MANAGED the destroy callback's aws_thread_join does nothing, so the final release frees the scheduler while its thread is still running" % detj)
    # the final release: the count is decremented by ONE atomic read-modify-write whose result alone decides who runs the
    # destroy callback (a separate load / store lets two releasers both see "not last")
    rc = P.fn("aws_ref_count_release")
    if R.require(rc is not None, "aws_ref_count_release not found (source/ref_count.c not analysed)"):
        R.fn(rc)
        ops = [e for e in rc.all_events() if e.kind == "call" and (e.node.get("callee") or "").startswith("aws_atomic_")]
        rmw = [e for e in ops if e.node["callee"].startswith("aws_atomic_fetch_sub")]
        oz = [e for e in rc.indirect_calls() if RU.indirect_via(rc, e.node) == ("aws_ref_count", "on_zero_fn")]
        okr = len(ops) == 1 and len(rmw) == 1 and len(oz) == 1
        if okr:
            # NUM: the callback is reached exactly with `the fetch_sub returned 1` - however the test is written
            # (old == 1, old - 1 == 0, through a local) - and a path that skips it has a result other than 1
            from sa.num import Num, Poly, Limit, feasible, entails
            from sa.awslib import AwsHooks

            class H(AwsHooks):
                def call(self, num, st, e, args):
                    if (e.get("callee") or "").startswith("aws_atomic_fetch_sub"):
                        # the count before a release is at least 1: releasing a reference one does not hold is a misuse
                        # of the API (the function's own AWS_ASSERT), so `old - 1` does not wrap
                        a = num.fresh(st, "old", None, (1, 2 ** 64 - 1))
                        st.notes["old"] = a
                        return Poly.atom(a)
                    if e.get("callee") is None:
                        st.notes["called"] = True
                        return None
                    return AwsHooks.call(self, num, st, e, args)
            num = Num(rc, P, H())
            try:
                sts = num.states_at({oz[0].node["id"], -1})
            except Limit as ex:
                R.broken(str(ex))
                sts = {}
            n_in, n_out = 0, 0
            for st in sts.get(oz[0].node["id"], []):
                n_in += 1
                o = Poly.atom(st.notes["old"]) if "old" in st.notes else None
                okr = okr and o is not None and entails(st, o - 1) and entails(st, Poly.const(1) - o)
            for st in sts.get(-1, []):
                if st.notes.get("called"):
                    continue
                n_out += 1
                o = Poly.atom(st.notes["old"]) if "old" in st.notes else None
                okr = okr and o is not None and not feasible(st, extra=(o - 1, Poly.const(1) - o))
            okr = okr and n_in >= 1 and n_out >= 1
        R.check(okr, "SHUTDOWN-ORDER", "release:single-atomic-decrement-decides", "aws_ref_count_release()", "one fetch_sub; the destroy callback runs exactly when it returned 1",
                "aws_ref_count_release uses %s and does not decide `last reference` from the result of a single fetch_sub: two threads releasing the last two references can both skip the destroy callback (the scheduler thread is never stopped, pending tasks never cancelled)" % [e.node["callee"] for e in ops])
    # one pass of the scheduler thread: hand-over, then the cancellation records, then run-all (a task cancelled before
    # the pass that finds it due is cancelled, not run)
    tf = fns["s_thread_fn"]
    runs = tf.calls("aws_task_scheduler_run_all")
    cemp = [e for e in tf.calls("aws_linked_list_empty") if "cancel" in argstr(tf, e.node, 0)]
    if R.require(len(runs) >= 1 and cemp, "s_thread_fn: run-all / cancellation loop not found"):
        domt = dominators(tf)
        R.check(len(runs) == 1 and any(ev_dominates(tf, e, runs[0], domt) for e in cemp), "SHUTDOWN-ORDER", "pass:cancellations-before-run-all", where(tf, runs[0]),
                "within a pass run-all comes after the loop over the pass's cancellation records",
                "run-all is (also) called before the pass's cancellation records are processed: a task cancelled while pending, whose time has come, is run instead of cancelled")
    # ------------------------------------------------------------------ DRAIN
    drain(R, d, fns, after_calls=chain[2][1], before_calls=chain[5][1])
    batch_lists(R, fns["s_thread_fn"], helpers)

    # ------------------------------------------------------------------ CANCEL-NODE
    c = fns["aws_thread_scheduler_cancel_task"]
    allocs = [e for e in c.calls({"aws_mem_calloc", "aws_mem_acquire"})]
    R.require(len(allocs) == 1, "cancel_task: expected exactly one allocation (the cancellation record), found %d" % len(allocs))
    if allocs:
        tainted, et = RU.derives(c, lambda n: n["k"] == "call" and n.get("id") == allocs[0].node["id"] or (n["k"] == "ref" and n["id"] == allocs[0].node["id"]))

        def is_alloc(e):
            return e is allocs[0]

        def is_enqueue(e):
            if e.kind == "call" and e.node.get("callee") in LIST_PUSH:
                q = queue_of(c, RU.arg(c, e.node, 0))
                return bool(q) and q[0] == "cancel_queue" and et(RU.arg(c, e.node, 1))
            return False

        okf, _ = RU.must_follow(c, is_alloc, is_enqueue)
        R.check(okf, "CANCEL-NODE", "alloc-then-enqueue", "%s()" % c.name, "the cancellation record reaches cancel_queue on every path",
                "a path allocates the cancellation record and returns without enqueueing it (leak / cancellation lost)")
        # task_to_cancel is the function's task parameter
        st = [e for e in c.field_accesses(rec="cancellation_node", field="task_to_cancel", modes=("w",))]
        R.check(len(st) >= 1, "CANCEL-NODE", "record-names-task", "%s()" % c.name, "task_to_cancel assigned")
    # consumers: every function that pops from a list fed by cancel_queue releases the record and cancels its task
    for name in ("s_thread_fn", "s_destroy_callback"):
        f = fns[name]
        consume_cancel_records(R, f, helpers)
    for hn, (hg, hi) in sorted(helpers.items()):
        for e in hg.calls("aws_task_scheduler_cancel_task"):
            pending_tested(R, hg, e, "%s:record-cancels-only-a-pending-task" % hn)
    noblock(R, fns, helpers)
    # the atomics the exit flag and the reference count are built on are what their names say
    from rules import atomics_map
    atomics_map.atomics_map(R, P)
    # the inner (single-threaded) scheduler's cancel contract, which the cancellation records rely on
    from rules import C07
    tsf = {f.name: f for f in P.functions_in("source/task_scheduler.c")}
    if R.require("aws_task_scheduler_cancel_task" in tsf, "inner scheduler's cancel_task not found"):
        C07.cancel_rules(R, tsf, P)
    # ... and the rest of the inner scheduler's contract the thread loop and the final release are built on: a task is
    # detached before it is invoked, nothing runs early, clean-up cancels until the scheduler reports no task, and that
    # report does not depend on the task's time
    if R.require(all(n_ in tsf for n_ in ("aws_task_run", "s_run_all", "aws_task_scheduler_has_tasks", "aws_task_scheduler_clean_up", "aws_task_scheduler_schedule_now", "aws_task_scheduler_schedule_future")), "inner scheduler functions not found in source/task_scheduler.c"):
        C07.run_rules(R, tsf, P)
        C07.schedule_rules(R, tsf)
        C07.has_tasks_rules(R, tsf, batch=False, P=P)
    feed_rules(R, P, fns)


def feed_rules(R, P, fns):
    """NEVER-EARLY/feed: the scheduler thread (and the final release) hand a task over to the inner scheduler as `run now`
    only when it was scheduled as such (time 0) or its time is not later than a clock value already fetched - NUM, every
    state at each aws_task_scheduler_schedule_now call; schedule_future is given the task's own time."""
    from sa.num import Num, Poly, Limit, entails
    from sa.awslib import AwsHooks

    class H(AwsHooks):
        def call(self, num, st, e, args):
            if e.get("callee") in ("aws_high_res_clock_get_ticks", "aws_sys_clock_get_ticks") and e["a"]:
                tgt = RU.strip_addr(num.fn, e["a"][0])
                k = num.key(tgt, st) if tgt is not None else None
                if k:
                    a = num.fresh(st, "now", None, (0, 2 ** 64 - 1))
                    st.env[k] = Poly.atom(a)
                    st.notes["clock"] = list(st.notes.get("clock", [])) + [a]
                return Poly.const(0)
            return AwsHooks.call(self, num, st, e, args)
    n = 0
    for name in ("s_thread_fn", "s_destroy_callback"):
        f = fns.get(name)
        if f is None:
            continue
        nows = f.calls("aws_task_scheduler_schedule_now")
        futs = f.calls("aws_task_scheduler_schedule_future")
        if not nows and not futs:
            continue
        num = Num(f, P, H(), max_paths=20000)
        try:
            sts = num.states_at({e.node["id"] for e in nows + futs})
        except Limit as ex:
            R.broken(str(ex))
            continue

        def ts_of(call, st):
            tv = RU.uncast(f, RU.arg(f, call, 1))
            for b in f.blocks.values():
                for el in b.elems:
                    for x in f.walk(el):
                        if x["k"] == "member" and x["f"] == "timestamp" and x.get("rec") == "aws_task" and tv is not None and f.show(RU.uncast(f, x["a"][0])) == f.show(tv):
                            return num.val(x, st.copy())
            return None
        for e in nows:
            ok, cnt = True, 0
            for st in sts.get(e.node["id"], []):
                cnt += 1
                ts = ts_of(e.node, st)
                zero = ts is not None and entails(st, ts) and entails(st, -ts)
                due = ts is not None and any(entails(st, ts - Poly.atom(a)) for a in st.notes.get("clock", []))
                ok = ok and (zero or due)
            n += 1
            R.check(ok and cnt >= 1, "NEVER-EARLY", "%s:run-now-only-for-time-0-or-due" % name, where(f, e), "handed over as run-now only with time 0 or a time already reached (%d states)" % cnt,
                    "%s hands a task to aws_task_scheduler_schedule_now although its time is neither 0 nor known to have been reached: a task scheduled far in the future (UINT64_MAX as `never`) runs at once" % name)
        for e in futs:
            ok, cnt = True, 0
            for st in sts.get(e.node["id"], []):
                cnt += 1
                ts, given = ts_of(e.node, st), num.val(RU.arg(f, e.node, 2), st)
                ok = ok and ts is not None and given is not None and entails(st, ts - given) and entails(st, given - ts)
            n += 1
            R.check(ok and cnt >= 1, "NEVER-EARLY", "%s:future-at-its-own-time" % name, where(f, e), "handed over with the task's own time (%d states)" % cnt)
    R.require(n >= 4, "only %d hand-over calls to the inner scheduler found in the thread function / the final release" % n)


def launch_state(f):
    """typestate for the constructor: none -> launched? -> failed | running"""

    def tr(e, s):
        if e.kind == "call" and e.node.get("callee") == "aws_thread_launch":
            return "maybe"
        return s

    def edge(cond, pol, s, fn, b):
        t = RU.call_test(fn, cond, pol)
        if t is not None and t[0].get("callee") == "aws_thread_launch" and s == "maybe":
            return "failed" if t[1] == "nonzero" else "running"  # non-zero return = failure
        return s

    return Typestate(f, "none", tr, edge)


def list_states(f, init_lists, queue_key):
    """typestate over a tuple of (listname -> 'U'|'E'|'N') for the tracked lists.
    queue_key(node) -> name for hand-over queues; local lists by variable name."""
    names = sorted(init_lists)

    def get(s, k):
        return dict(s).get(k)

    def put(s, k, v):
        d = dict(s)
        d[k] = v
        return tuple(sorted(d.items()))

    def name_of(n):
        q = queue_key(n)
        if q:
            return q
        x = RU.strip_addr(f, n)
        if x is not None and x["k"] == "var":
            return "local:" + x["n"]
        return None

    def tr(e, s):
        if e.kind != "call":
            return s
        c = e.node.get("callee")
        a0 = name_of(RU.arg(f, e.node, 0)) if e.node["a"] else None
        if c == "aws_linked_list_init" and a0 in dict(s):
            return put(s, a0, "E")
        if c in LIST_PUSH and a0 in dict(s):
            return put(s, a0, "N")
        if c == "aws_linked_list_swap_contents":
            a1 = name_of(RU.arg(f, e.node, 1))
            if a0 in dict(s) and a1 in dict(s):
                x, y = get(s, a0), get(s, a1)
                return put(put(s, a0, y), a1, x)
            for k in (a0, a1):
                if k in dict(s):
                    s = put(s, k, "N")
            return s
        if c in ("aws_linked_list_move_all_back", "aws_linked_list_move_all_front"):
            a1 = name_of(RU.arg(f, e.node, 1))
            if a1 in dict(s):
                s = put(s, a1, "E")
            if a0 in dict(s):
                s = put(s, a0, "N")
            return s
        return s

    def edge(cond, pol, s, fn, b):
        c, neg = RU.cond_call(fn, cond)
        if c is not None and c.get("callee") == "aws_linked_list_empty" and isinstance(pol, bool):
            k = name_of(RU.arg(fn, c, 0))
            if k in dict(s):
                empty = (pol != neg)
                if empty:
                    return put(s, k, "E")
                if get(s, k) == "E":
                    return []  # known empty (nothing was added since): the not-empty branch of a repeated test is not taken
                return put(s, k, "N")
        return s

    init = tuple(sorted(init_lists.items()))
    return Typestate(f, init, tr, edge)


def drain(R, d, fns, after_calls, before_calls):
    """both hand-over queues must be known-empty at the release of the scheduler object"""

    def qk(n):
        q = queue_of(d, n)
        return ("q:" + q[0]) if q else None

    locals_ = {}
    for e in d.all_events():
        if e.kind == "decl":
            for v in e.node["vars"]:
                if d.unit.types[v["t"]].get("rec") == "aws_linked_list" and not d.unit.types[v["t"]].get("ptr"):
                    locals_["local:" + v["n"]] = "U"
    init = {"q:scheduling_queue": "N", "q:cancel_queue": "N"}
    init.update(locals_)
    ts = list_states(d, init, qk)
    for rel in before_calls:
        sts = ts.before.get(rel.pos, set())
        for q in QUEUES:
            vals = {dict(s).get("q:" + q) for s in sts}
            R.check(sts and vals == {"E"}, "DRAIN", "s_destroy_callback:%s" % q, where(d, rel),
                    "%s is provably empty when the scheduler object is released" % q,
                    "%s may still hold entries when the scheduler is released after the join: tasks handed over after the thread's last pass are never invoked "
                    "(cancellation records are leaked)" % q)
        for l in locals_:
            vals = {dict(s).get(l) for s in sts}
            R.check(vals <= {"E", "U"}, "DRAIN", "s_destroy_callback:%s" % l, where(d, rel), "local batch list empty at release", "local list %s may hold items at release" % l)
    # what is drained from scheduling_queue must be consumed as a task
    pops = d.calls({"aws_linked_list_pop_front", "aws_linked_list_pop_back"})
    if pops:
        ids = {p.node["id"] for p in pops}
        tainted, et = RU.derives(d, lambda n: n.get("id") in ids and n["k"] in ("call", "ref"))
        consumed = [e for e in d.calls(CONSUME_TASK | {"aws_task_scheduler_cancel_task", "aws_mem_release"}) if any(et(a) for a in e.node["a"])]
        indirect = [e for e in d.indirect_calls() if any(et(a) for a in e.node["a"]) or et(e.node["fn"])]
        R.check(bool(consumed or indirect), "DRAIN", "s_destroy_callback:drained-items-consumed", "%s()" % d.name,
                "items popped while draining flow into a task-consuming call", "items popped while draining are dropped")


def batch_lists(R, f, helpers=None):
    helpers = helpers or {}
    """local batch lists in the thread loop are not re-initialised or dropped while they may hold items"""

    def qk(n):
        q = queue_of(f, n)
        return ("q:" + q[0]) if q else None

    locals_ = {}
    for e in f.all_events():
        if e.kind == "decl":
            for v in e.node["vars"]:
                t = f.unit.types[v["t"]]
                if t.get("rec") == "aws_linked_list" and not t.get("ptr"):
                    locals_["local:" + v["n"]] = "U"
    R.require(len(locals_) >= 2, "s_thread_fn: expected two local batch lists, found %d" % len(locals_))
    init = {"q:scheduling_queue": "N", "q:cancel_queue": "N"}
    init.update(locals_)
    ts = list_states(f, init, qk)
    # at each (re)initialisation and at exit, a local list must not be 'N'
    for e in f.calls("aws_linked_list_init"):
        x = RU.strip_addr(f, RU.arg(f, e.node, 0))
        if x is not None and x["k"] == "var" and "local:" + x["n"] in locals_:
            k = "local:" + x["n"]
            vals = {dict(s).get(k) for s in ts.before.get(e.pos, set())}
            R.check("N" not in vals, "DRAIN", "s_thread_fn:%s-not-dropped" % x["n"], where(f, e),
                    "batch list is empty whenever it is re-initialised", "batch list %s may still hold handed-over items when it is re-initialised (items lost)" % x["n"])
    for k in locals_:
        vals = {dict(s).get(k) for s in ts.exit_states}
        R.check("N" not in vals, "DRAIN", "s_thread_fn:%s-empty-at-exit" % k[6:], "%s()" % f.name, "batch list empty when the thread function returns",
                "batch list %s may hold items when the thread exits" % k[6:])
    # the swap happens under the lock and moves queue contents into the local lists
    sw = f.calls("aws_linked_list_swap_contents")
    R.require(len(sw) >= 2, "s_thread_fn: expected the two queue swaps")
    # popped tasks are handed to the inner scheduler
    pops = f.calls({"aws_linked_list_pop_front", "aws_linked_list_pop_back"})
    for p in pops:
        lst = RU.strip_addr(f, RU.arg(f, p.node, 0))
        ids = {p.node["id"]}
        tainted, et = RU.derives(f, lambda n: n.get("id") in ids and n["k"] in ("call", "ref"))
        uses = [e for e in RU.reach_from(f, p) if e.kind == "call" and e.node.get("callee") in (CONSUME_TASK | {"aws_task_scheduler_cancel_task"} | set(helpers)) and any(et(a) for a in e.node["a"])]
        R.check(bool(uses), "DRAIN", "s_thread_fn:popped-from-%s-consumed" % (lst or {}).get("n"), where(f, p), "popped item is handed to the inner scheduler",
                "item popped from %s is not handed to the inner scheduler" % (lst or {}).get("n"))


def record_helpers(fns):
    """static helpers that take a cancellation record and cancel its task on the inner scheduler: {name: (function, index of
    the record parameter)}.  They run where their callers run; the rules below follow calls into them."""
    out = {}
    for name, g in fns.items():
        for i, p in enumerate(g.params):
            t = g.unit.types[p["t"]]
            if t.get("ptr") and t.get("rec") == "cancellation_node":
                ids_ = {p["n"]}
                tainted, et = RU.derives(g, lambda n, ids_=ids_: n["k"] == "var" and n["n"] in ids_)
                for e in g.calls({"aws_task_scheduler_cancel_task", "aws_task_run"}):
                    if any(any(x["k"] == "var" and (x["n"] in ids_ or x["n"] in tainted) for x in g.walk(a, follow_refs=True)) for a in e.node["a"]):
                        out[name] = (g, i)
    return out


def pending_tested(R, g, e, inst, dom=None):
    """the inner cancel invokes the task unconditionally; by the time a record is processed its task may already have been
    run (the client cancelled while the task was inside the single-threaded scheduler, waiting behind another task of the
    same run-all).  A record may therefore cancel only a task that is still pending there, or one that the cancel request
    itself took out of the hand-over queue (a flag of the record)."""
    from sa.cfg import edges
    tests, pend = set(), []
    for b in g.blocks.values():
        if b.cond is None:
            continue
        for x in g.walk(g.d(b.cond), follow_refs=True):
            if x["k"] == "member" and x["f"] in ("scheduled", "next", "prev"):
                tests.add(b.id)
                pend.append(g.show(g.d(b.cond))[:60])
            elif x["k"] == "member" and x.get("rec") == "cancellation_node" and x["f"] not in ("task_to_cancel", "node"):
                tests.add(b.id)
    # every path from the entry to the call passes a test of the task's pending state (or of the record's own flag)
    seen, work, reach = set(), [g.entry], False
    while work:
        b = work.pop()
        if b in seen or b in tests:
            continue
        seen.add(b)
        if b == e.blk:
            reach = True
            break
        for s, _c, _p in edges(g, b):
            work.append(s)
    R.check(bool(pend) and not reach, "CANCEL-NODE", inst, where(g, e), "the inner cancel is reached only through a test that the task is still linked / scheduled (or was removed from the hand-over queue by the request): %s" % sorted(set(pend))[:2],
            "the cancellation record's task is handed to aws_task_scheduler_cancel_task without testing that it is still pending: a task cancelled while it waits inside the scheduler behind a running task is first run (RUN_READY) and then invoked again with CANCELED on the next pass")


def consume_cancel_records(R, f, helpers=None):
    helpers = helpers or {}
    """every cancellation record taken off the cancel queue (directly, or from a local batch swapped with it) has its task
    cancelled on the inner scheduler and is then released"""
    fed = set()
    for e in f.calls("aws_linked_list_swap_contents"):
        a, b = RU.arg(f, e.node, 0), RU.arg(f, e.node, 1)
        qa, qb = queue_of(f, a), queue_of(f, b)
        if qa and qa[0] == "cancel_queue":
            fed.add(argstr(f, e.node, 1))
        if qb and qb[0] == "cancel_queue":
            fed.add(argstr(f, e.node, 0))
    pops = []
    for p in f.calls({"aws_linked_list_pop_front", "aws_linked_list_pop_back"}):
        q = queue_of(f, RU.arg(f, p.node, 0))
        if (q and q[0] == "cancel_queue") or argstr(f, p.node, 0) in fed:
            pops.append(p)
    if f.name == "s_thread_fn":
        R.require(len(pops) >= 1, "s_thread_fn: no pop from the cancellation batch found")
    dom = dominators(f)
    for p in pops:
        ids = {p.node["id"]}
        tainted, et = RU.derives(f, lambda n: n.get("id") in ids and n["k"] in ("call", "ref"))

        def reads_task(n):
            for x in f.walk(n, follow_refs=True):
                if x["k"] == "member" and x["f"] == "task_to_cancel" and et(x["a"][0]):
                    return True
            return False

        cancels = [e for e in f.calls({"aws_task_scheduler_cancel_task", "aws_task_run"}) if any(reads_task(a) for a in e.node["a"]) and ev_dominates(f, p, e, dom)]
        cancels += [e for e in f.calls(set(helpers)) if helpers[e.node["callee"]][1] < len(e.node["a"]) and et(e.node["a"][helpers[e.node["callee"]][1]]) and ev_dominates(f, p, e, dom)]
        R.check(bool(cancels), "CANCEL-NODE", "%s:record-task-cancelled" % f.name, where(f, p), "the popped record's task is cancelled on the inner scheduler",
                "a cancellation record is taken off the queue but its task is never cancelled: a task cancelled while still in the hand-over queue is never invoked")
        for e in cancels:
            if e.node.get("callee") == "aws_task_scheduler_cancel_task":
                pending_tested(R, f, e, "%s:record-cancels-only-a-pending-task" % f.name, dom)
        rel = [e for e in f.calls("aws_mem_release") if et(RU.arg(f, e.node, 1)) and ev_dominates(f, p, e, dom)]
        R.check(bool(rel), "CANCEL-NODE", "%s:record-released-after-use" % f.name, where(f, p), "the popped record is released",
                "cancellation record popped but never released (leak)")
        for e in rel:
            bad = must_precede_all(f, cancels, e, dom)
            R.check(not bad, "CANCEL-NODE", "%s:cancel-before-release" % f.name, where(f, e), "task read before the record is released", "record released before its task is read")
            v = RU.arg(f, e.node, 1)
            if v is not None and v["k"] == "var":
                later = RU.dead_after(f, e, v["n"])
                R.check(not later, "CANCEL-NODE", "%s:record-dead-after-release" % f.name, where(f, e), "no use of %s after its release" % v["n"],
                        "record %s used after release at line %s" % (v["n"], [x.line for x in later][:3]))


def must_precede_all(f, A, b, dom):
    return [a for a in A if not ev_dominates(f, a, b, dom)]


INVOKES_TASKS = {"aws_task_scheduler_cancel_task", "aws_task_scheduler_run_all", "aws_task_scheduler_clean_up", "aws_task_run"}


def noblock(R, fns, helpers=None):
    helpers = helpers or {}
    """task functions may schedule / cancel on this scheduler: nothing that can invoke one runs under the hand-over mutex,
    and no client entry point is called with it held (the mutex is not recursive)"""
    client = {"aws_thread_scheduler_schedule_future", "aws_thread_scheduler_schedule_now", "aws_thread_scheduler_cancel_task", "aws_thread_scheduler_release"}
    n = 0
    for name, f in sorted(fns.items()):
        ts = RU.lockset(f)
        for e in f.all_events():
            if e.kind != "call":
                continue
            c = e.node.get("callee")
            if c in INVOKES_TASKS or c in helpers or c in client or c in ("aws_thread_join",) or (c is None and RU.indirect_via(f, e.node) == ("aws_task", "fn")):
                n += 1
                held = RU.held_at(ts, e) or set()
                R.check(not any(h.endswith("thread_data.mutex") for h in held), "NOBLOCK", "%s:%s" % (name, c or "task->fn"), where(f, e),
                        "called with the hand-over mutex released",
                        "%s may invoke task functions / re-enter the scheduler while %s is held: a task that schedules or cancels from its callback deadlocks the scheduler thread" % (c or "task->fn", sorted(held)))
    R.require(n >= 5, "only %d task-invoking call sites found in thread_scheduler.c" % n)


MUTANTS = [
    {"name": "exit-request-published-without-the-mutex", "file": FILE, "expect": "NOTIFY",
     "old": "    AWS_FATAL_ASSERT(!aws_mutex_lock(&scheduler->thread_data.mutex) && \"mutex lock failed!\");\n    aws_atomic_store_int(&scheduler->should_exit, 1U);\n    AWS_FATAL_ASSERT(!aws_mutex_unlock(&scheduler->thread_data.mutex) && \"mutex unlock failed!\");\n", "new": "    aws_atomic_store_int(&scheduler->should_exit, 1U);\n"},
    {"name": "cancel-record-from-the-non-zeroing-allocation", "file": FILE, "expect": "CANCEL-NODE", "old": "        aws_mem_calloc(scheduler->allocator, 1, sizeof(struct cancellation_node));", "new": "        aws_mem_acquire(scheduler->allocator, sizeof(struct cancellation_node));"},
    {"name": "thread-launched-with-callers-join-strategy", "file": FILE, "expect": "SHUTDOWN-ORDER", "old": "    launch_options.join_strategy = AWS_TJS_MANUAL;\n", "new": ""},
    {"name": "release-fast-path-load-then-store", "file": "source/ref_count.c", "expect": "SHUTDOWN-ORDER",
     "old": "    size_t old_value = aws_atomic_fetch_sub(&ref_count->ref_count, 1);\n    AWS_ASSERT(old_value > 0 && \"refcount has gone negative\");\n    if (old_value == 1) {\n        ref_count->on_zero_fn(ref_count->object);\n    }",
     "new": "    if (aws_atomic_load_int(&ref_count->ref_count) == 1) {\n        aws_atomic_store_int(&ref_count->ref_count, 0);\n        ref_count->on_zero_fn(ref_count->object);\n        return 0;\n    }\n    size_t old_value = aws_atomic_fetch_sub(&ref_count->ref_count, 1);"},
    {"name": "unlink-after-unlock", "file": FILE, "expect": "LOCK",
     "old": "    if (found_task) {\n        aws_linked_list_remove(&found_task->node);\n        cancellation_node->removed_from_scheduling_queue = true;\n    }\n\n    cancellation_node->task_to_cancel = task;\n\n    /* regardless put it in the cancel queue so the thread can call the task with canceled status. */\n    aws_linked_list_push_back(&scheduler->thread_data.cancel_queue, &cancellation_node->node);\n    AWS_FATAL_ASSERT(!aws_mutex_unlock(&scheduler->thread_data.mutex) && \"mutex unlock failed!\");",
     "new": "    if (found_task) {\n        cancellation_node->removed_from_scheduling_queue = true;\n    }\n\n    cancellation_node->task_to_cancel = task;\n\n    /* regardless put it in the cancel queue so the thread can call the task with canceled status. */\n    aws_linked_list_push_back(&scheduler->thread_data.cancel_queue, &cancellation_node->node);\n    AWS_FATAL_ASSERT(!aws_mutex_unlock(&scheduler->thread_data.mutex) && \"mutex unlock failed!\");\n    if (found_task) {\n        aws_linked_list_remove(&found_task->node);\n    }"},
    {"name": "run-all-before-cancellations", "file": FILE, "expect": "SHUTDOWN-ORDER",
     "old": "        /* now cancel the tasks. */", "new": "        { uint64_t early_time = 0; aws_high_res_clock_get_ticks(&early_time); aws_task_scheduler_run_all(&scheduler->scheduler, early_time); }\n        /* now cancel the tasks. */"},
    {"name": "record-cancels-a-task-that-already-ran", "file": FILE, "expect": "CANCEL-NODE",
     "old": "    if (cancellation_node->removed_from_scheduling_queue || task->abi_extension.scheduled) {\n        aws_task_scheduler_cancel_task(&scheduler->scheduler, task);\n    }",
     "new": "    aws_task_scheduler_cancel_task(&scheduler->scheduler, task);"},
    {"name": "record-looks-at-the-task-node", "file": FILE, "expect": "LOCK",
     "old": "    if (cancellation_node->removed_from_scheduling_queue || task->abi_extension.scheduled) {",
     "new": "    if (cancellation_node->removed_from_scheduling_queue || task->node.next != NULL || task->abi_extension.scheduled) {"},
    {"name": "drain-frees-records-without-cancelling", "file": FILE, "expect": "CANCEL-NODE",
     "old": "        s_process_cancellation(scheduler, cancellation_node);\n        aws_mem_release(scheduler->allocator, cancellation_node);\n    }",
     "new": "        aws_mem_release(scheduler->allocator, cancellation_node);\n    }"},
    {"name": "cancels-processed-under-lock", "file": FILE, "expect": "NOBLOCK",
     "old": "        AWS_FATAL_ASSERT(!aws_mutex_unlock(&scheduler->thread_data.mutex) && \"mutex unlock failed!\");\n\n        while (!aws_linked_list_empty(&list_cpy)) {",
     "new": "        while (!aws_linked_list_empty(&list_cpy)) {"},
    {"name": "unlock-before-push", "file": FILE, "expect": "LOCK",
     "old": "    aws_linked_list_push_back(&scheduler->thread_data.scheduling_queue, &task->node);\n    AWS_FATAL_ASSERT(!aws_mutex_unlock(&scheduler->thread_data.mutex) && \"mutex unlock failed!\");",
     "new": "    AWS_FATAL_ASSERT(!aws_mutex_unlock(&scheduler->thread_data.mutex) && \"mutex unlock failed!\");\n    aws_linked_list_push_back(&scheduler->thread_data.scheduling_queue, &task->node);"},
    {"name": "timestamp-stored-after-hand-over", "file": FILE, "expect": "NOTIFY",
     "old": "    task->timestamp = time_to_run;\n    AWS_FATAL_ASSERT(!aws_mutex_lock(&scheduler->thread_data.mutex) && \"mutex lock failed!\");\n    aws_linked_list_push_back(&scheduler->thread_data.scheduling_queue, &task->node);\n    AWS_FATAL_ASSERT(!aws_mutex_unlock(&scheduler->thread_data.mutex) && \"mutex unlock failed!\");",
     "new": "    AWS_FATAL_ASSERT(!aws_mutex_lock(&scheduler->thread_data.mutex) && \"mutex lock failed!\");\n    aws_linked_list_push_back(&scheduler->thread_data.scheduling_queue, &task->node);\n    AWS_FATAL_ASSERT(!aws_mutex_unlock(&scheduler->thread_data.mutex) && \"mutex unlock failed!\");\n    task->timestamp = time_to_run;"},
    {"name": "idle-wait-forever", "file": FILE, "expect": "NOTIFY:wait-is-timed", "old": "            timeout = (int64_t)30 * (int64_t)AWS_TIMESTAMP_NANOS;", "new": "            timeout = INT64_MAX;",
     "old2": "    AWS_FATAL_ASSERT(!aws_mutex_lock(&scheduler->thread_data.mutex) && \"mutex lock failed!\");\n    aws_atomic_store_int(&scheduler->should_exit, 1U);\n    AWS_FATAL_ASSERT(!aws_mutex_unlock(&scheduler->thread_data.mutex) && \"mutex unlock failed!\");\n", "new2": "    aws_atomic_store_int(&scheduler->should_exit, 1U);\n"},  # (an unbounded idle wait matters only while a predicate input is changed without the mutex)
    {"name": "drop-notify-on-cancel", "file": FILE, "expect": "NOTIFY",
     "old": "    /* notify so the loop knows to wakeup and process the cancellations. */\n    aws_condition_variable_notify_one(&scheduler->thread_data.c_var);",
     "new": "    /* notify so the loop knows to wakeup and process the cancellations. */\n"},
    {"name": "predicate-ignores-cancel-queue", "file": FILE, "expect": "NOTIFY",
     "old": "           !aws_linked_list_empty(&scheduler->thread_data.cancel_queue) || (next_scheduled_task <= current_time);",
     "new": "           (next_scheduled_task <= current_time);"},
    {"name": "clean-up-before-join", "file": FILE, "expect": "CONFINE",
     "old": "    aws_condition_variable_notify_all(&scheduler->thread_data.c_var);\n    aws_thread_join(&scheduler->thread);",
     "new": "    aws_condition_variable_notify_all(&scheduler->thread_data.c_var);\n    aws_task_scheduler_clean_up(&scheduler->scheduler);\n    aws_thread_join(&scheduler->thread);"},
    {"name": "swap-outside-lock", "file": FILE, "expect": "LOCK",
     "old": "        aws_linked_list_swap_contents(&scheduler->thread_data.cancel_queue, &cancel_list_cpy);\n        AWS_FATAL_ASSERT(!aws_mutex_unlock(&scheduler->thread_data.mutex) && \"mutex unlock failed!\");",
     "new": "        AWS_FATAL_ASSERT(!aws_mutex_unlock(&scheduler->thread_data.mutex) && \"mutex unlock failed!\");\n        aws_linked_list_swap_contents(&scheduler->thread_data.cancel_queue, &cancel_list_cpy);"},
    {"name": "cancel-record-not-released", "file": FILE, "expect": "CANCEL-NODE",
     "old": "            aws_mem_release(scheduler->allocator, cancellation_node);\n", "new": ""},
    {"name": "client-runs-inner-scheduler", "file": FILE, "expect": "CONFINE",
     "old": "    aws_thread_scheduler_schedule_future(scheduler, task, 0U);",
     "new": "    aws_task_scheduler_schedule_now(&scheduler->scheduler, task);"},
    {"name": "batch-loop-stops-early", "file": FILE, "expect": "DRAIN",
     "old": "                aws_task_scheduler_schedule_now(&scheduler->scheduler, task);\n            }",
     "new": "                aws_task_scheduler_schedule_now(&scheduler->scheduler, task);\n                break;\n            }"},
]
