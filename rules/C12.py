"""C12 - XML traversal reports every element exactly once (DESIGN.md section 4, C12)."""
from sa import rules as RU
from sa.awslib import in_bounds
from sa.cfg import dominators, ev_dominates, Typestate
from sa.extract import library_units
from sa.num import Num, Poly, Limit, State, entails
from sa.rules import argstr, where
from rules import C04

FILE = "source/xml_parser.c"

DECIDED = [
    "BALANCE: aws_xml_node_traverse pushes its callback exactly once and every non-error return has popped it exactly once; aws_xml_parse pushes the root callback once; the depth test reads the stack length before the push",
    "ONCE: per '<...>' found, the child loop of traverse and s_node_next_sibling invoke exactly one callback (the function's own / the top of the stack) with the node just loaded; a closing tag ends the loop without a callback",
    "SKIP: after a successful callback, a node that was not processed is skipped to its closing tag before anything else is looked at; traverse / as_body assert !processed and set processed first (a node is consumed at most once)",
    "DECL/pair-split-at-first-equals: the name=value pair is split into at most as many pieces as its list has slots, so a '=' inside a value stays in the value and no attribute is dropped (found D20, fixed)",
    "DECL: the declaration is split on ' ', the name is split 0, each further split is divided at '=' into a two-slot list, the value is trimmed with a predicate that matches only the double quote; a trailing '/' marks an empty element; a failed split is an error",
    "NEST-TERMINATORS: the same-name nesting test accepts exactly the characters that can end a tag name in the declaration parser ('>', '/' and white space)",
    "BODY-VIEW: the body handed out starts at the node's body position, ends exactly where the closing tag that was found starts, and lies inside the node's body view, for all documents (NUM, under the document-only-shrinks invariant checked at the internal call sites)",
    "ERR-CHECKED (callbacks, appends): from a non-zero callback result only error returns are reachable in traverse and in the root dispatch; every append whose result is dropped provably has room (NUM: the name-length guard agrees with the pattern buffers' sizes); DECL: the node handed to a callback is declared with an initialiser per element (inside the child loop)",
    "ERR-CHECKED: no result of the parser's own fallible steps (skip to closing tag, declaration load, sibling step, traverse, as_body) is dropped inside xml_parser.c",
    "LIMITS: the depth limit applied is the option's value or, when that is 0, the default constant, with no offset (NUM); the split scratch is one slot larger than the attribute array; the attribute loop starts at split 1, steps by one and is left only when the index reaches the number of splits",
    "plus C04's BOUND / PROGRESS / RECUR rules restricted to xml_parser.c",
]
NOT_DECIDED = ["that names / attribute values / bodies equal the document's text beyond the delimiter structure (content)", "document order across callback programs as a run-time history"]
ASSUMPTIONS = list(C04.ASSUMPTIONS) + ["a node passed to aws_xml_node_as_body / aws_xml_node_traverse was handed out by this parser, whose document has only been consumed since (API contract)"]


def _req_body(num, st):
    """s_advance_to_closing_tag: the document position is at or after the node's body start and both views end at the same byte"""
    p, n = C04._param(num, st, 0), C04._param(num, st, 1)
    pb, nb = num.base_of(st, p), num.base_of(st, n)
    dp, dl = num.field(st, pb + "doc.ptr", "aws_byte_cursor", "ptr"), num.field(st, pb + "doc.len", "aws_byte_cursor", "len")
    bp, bl = num.field(st, nb + "doc_at_body.ptr", "aws_byte_cursor", "ptr"), num.field(st, nb + "doc_at_body.len", "aws_byte_cursor", "len")
    st.add(bp - dp)
    st.add_eq(bp + bl - dp - dl)


def _chk_body(num, st, e, args):
    if args[0] is None or args[1] is None:
        return False
    pb, nb = num.base_of(st, args[0]), num.base_of(st, args[1])
    dp, dl = st.env.get(pb + "doc.ptr"), st.env.get(pb + "doc.len")
    bp, bl = st.env.get(nb + "doc_at_body.ptr"), st.env.get(nb + "doc_at_body.len")
    if None in (dp, dl, bp, bl):
        return False
    return entails(st, bp - dp) and entails(st, bp + bl - dp - dl) and entails(st, dp + dl - bp - bl)


class XmlHooks(C04.ParserHooks):
    """C04 hooks + the body invariant of s_advance_to_closing_tag; a user callback only consumes the document (ptr moves
    forward by what len loses)"""

    def entry(self, num, st):
        C04.ParserHooks.entry(self, num, st)
        if num.fn.name == "s_advance_to_closing_tag":
            _req_body(num, st)

    def s_aws_byte_cursor_split_on_char(self, num, st, e, args):
        """the output list: when it was set up without an allocator (aws_array_list_init_static) nothing but its length
        changes - a full static list makes push_back fail, it is never re-allocated (array_list.inl) - and the list stays
        valid: length * item_size <= current_size"""
        base = self._cbase(num, st, e, 2, args) if len(args) >= 3 and args[2] is not None else None
        if not base:
            return NotImplemented
        alloc = st.env.get(base + "alloc")
        if alloc is None or not alloc.is_const() or alloc.cval() != 0:
            return NotImplemented
        isz = num.field(st, base + "item_size", "aws_array_list", "item_size")
        cs = num.field(st, base + "current_size", "aws_array_list", "current_size")
        ln = Poly.atom(num.fresh(st, "splits", None, (0, 2 ** 58)))
        st.env[base + "length"] = ln
        st.meta[base + "length"] = ("aws_array_list", "length", "unsigned long")
        if isz.is_const():
            st.add(ln * isz.cval() - cs)
        return Poly.atom(num.fresh(st, "split", None, (-1, 0)))

    def call(self, num, st, e, args):
        if e.get("callee") == "s_advance_to_closing_tag":
            num.__dict__.setdefault("body_log", []).append((e, _chk_body(num, st, e, args)))
        if e.get("callee") is None and not self.fnptr_targets(num, e):
            before = {k: v for k, v in st.env.items() if (st.meta.get(k) or (None, None))[0] == "aws_byte_cursor" and k.endswith("doc.ptr")}
            # the node handed to the callback is opaque to it: only the library's own functions write it, and they
            # write nothing but `processed` (checked: node-opaque)
            keep = {}
            tgt0 = num.fn.d(e["a"][0]) if e["a"] else None
            tk = None
            from sa.awslib import target_of
            tn = target_of(num, st, e["a"][0]) if e["a"] else None
            if tn is not None and num.ty(tn).get("rec") == "aws_xml_node":
                tk = num.key(tn, st)
                keep = {k: (v, st.meta.get(k)) for k, v in st.env.items() if tk and k.startswith(tk + ".") and not k.endswith(".processed")}
            lens = {k[:-3] + "len": st.env.get(k[:-3] + "len") for k in before}
            r = C04.ParserHooks.call(self, num, st, e, args)
            for k, p0 in before.items():
                lk = k[:-3] + "len"
                l0, l1 = lens.get(lk), st.env.get(lk)
                if k not in st.env and l0 is not None and l1 is not None:
                    st.env[k] = p0 + l0 - l1  # consumed from the front
                    st.meta[k] = ("aws_byte_cursor", "ptr", None)
            for k, (v, m) in keep.items():
                st.env[k] = v
                if m:
                    st.meta[k] = m
            return r
        return C04.ParserHooks.call(self, num, st, e, args)


def child_loop_exits(R, P):
    """BALANCE/child-loop: aws_xml_node_traverse reports success only after it has met the parent's closing tag.  Every way
    out of the loop that looks for the next child is one of: a recorded parser error (the loop condition), the closing-tag
    decision (a test of the byte behind '<' against '/', directly or through a flag set under it), or a path that ends in a
    failing return - a document that simply ends inside an open element is not accepted."""
    f = P.fn("aws_xml_node_traverse")
    if not R.require(f is not None, "aws_xml_node_traverse not found"):
        return
    from sa.cfg import edges
    cb = [e for e in f.indirect_calls() if (RU.uncast(f, e.node.get("fn")) or {}).get("k") == "var"]
    loops = Num(f, P, None).loops()
    around = [(h, set(b) | {h}) for h, b in loops.items() if cb and cb[0].blk in b]
    if not R.require(len(around) >= 1, "aws_xml_node_traverse: the child loop (around the callback) not found"):
        return
    h, region = sorted(around, key=lambda hb: len(hb[1]))[0]
    # flags set to true under a comparison with '/'
    slash_flags = set()
    for b in f.blocks.values():
        for el in b.elems:
            if el["k"] == "bin" and el["op"] == "=" and (f.d(el["a"][0]) or {}).get("k") == "var" and f.is_const(RU.uncast(f, el["a"][1])) == 1:
                ev_ = type("E", (), {"blk": b.id, "idx": 0, "seq": 0})()
                for c_, p_, b_ in RU.guards(f, ev_):
                    g = RU.cmp_norm(f, c_, p_)
                    if g and g[2] is not None and g[1] == "==" and 47 in (f.is_const(RU.uncast(f, g[0])), f.is_const(RU.uncast(f, g[2]))):
                        slash_flags.add(f.d(el["a"][0])["n"])

    def fails(succ):
        seen, work = set(), [succ]
        while work:
            x = work.pop()
            if x in seen or x in region:
                continue
            seen.add(x)
            rr = [el for el in f.blocks[x].elems if el["k"] == "ret"]
            if rr:
                v = RU.uncast(f, rr[0]["a"][0]) if rr[0].get("a") else None
                cv = f.is_const(v) if v is not None else None
                if cv is None and v is not None and v["k"] == "member" and v["f"] == "error":
                    # `parser->error = AWS_OP_ERR; return parser->error;`
                    for el in f.blocks[x].elems:
                        if el["k"] == "bin" and el["op"] == "=" and (RU.uncast(f, el["a"][0]) or {}).get("f") == "error" and f.is_const(RU.uncast(f, el["a"][1])) not in (None, 0):
                            cv = f.is_const(RU.uncast(f, el["a"][1]))
                if cv is None or cv == 0:
                    return False
                continue
            work.extend(s2 for s2, _, _ in edges(f, x))
        return bool(seen)
    bad, n = [], 0
    for b in sorted(region):
        for succ, cnd, pol in edges(f, b):
            if succ in region or f.blocks[b].noreturn:
                continue
            n += 1
            if fails(succ):
                continue
            reasons = []
            conds = [(cnd, pol)] if cnd is not None and isinstance(pol, bool) else []
            ev_ = type("E", (), {"blk": b, "idx": 0, "seq": 0})()
            conds += [(c_, p_) for c_, p_, b_ in RU.guards(f, ev_) if b_ in region]
            okx = False
            for c_, p_ in conds:
                g = RU.cmp_norm(f, c_, p_)
                if not g:
                    continue
                l_ = RU.uncast(f, g[0])
                if l_ is not None and l_["k"] == "member" and l_["f"] == "error" and g[1] == "!=" and (g[2] is None or f.is_const(g[2]) == 0):
                    okx = True
                if l_ is not None and l_["k"] == "var" and l_["n"] in slash_flags and g[1] == "!=" and g[2] is None:
                    okx = True
                if g[2] is not None and g[1] == "==" and 47 in (f.is_const(RU.uncast(f, g[0])), f.is_const(RU.uncast(f, g[2]))):
                    okx = True
            if not okx:
                bad.append("%s:%s" % (FILE, (f.blocks[b].term_loc or [0])[0]))
    R.check(not bad and n >= 3, "BALANCE", "traverse:child-loop-left-only-at-the-closing-tag", "%s()" % f.name, "%d ways out of the child loop: a recorded error, the parent's closing tag, or a failing return" % n,
            "the child loop can be left towards the successful return without the parent's closing tag having been met (%s): a document that ends inside an open element is accepted" % bad)


def balance(R, P):
    f = P.fn("aws_xml_node_traverse")
    if not R.require(f is not None, "aws_xml_node_traverse not found"):
        return
    R.fn(f)
    push = [e for e in f.calls("aws_array_list_push_back") if "callback_stack" in argstr(f, e.node, 0)]
    pop = [e for e in f.calls("aws_array_list_pop_back") if "callback_stack" in argstr(f, e.node, 0)]
    R.check(len(push) == 1, "BALANCE", "traverse:one-push", where(f, push[0]) if push else f.name, "the callback is pushed at exactly one site")
    if not push:
        return

    def tr(e, s):
        if any(e is p for p in push):
            return s + 1 if s < 3 else s
        if any(e is p for p in pop):
            return s - 1 if s > -3 else s
        return s
    ts = Typestate(f, 0, tr)
    # success returns: those that return parser->error (not a constant error, not through the error label's store)
    dom = dominators(f)
    err_store = [e for e in f.field_accesses(rec="aws_xml_parser", field="error", modes=("w",))]
    for r in f.returns():
        v = RU.uncast(f, r.node["a"][0]) if r.node["a"] else None
        if v is None or f.is_const(v) is not None:
            continue
        if any(e.blk == r.blk or ev_dominates(f, e, r, dom) for e in err_store):
            continue
        vals = ts.before.get(r.pos)
        R.check(vals is not None and set(vals) == {0}, "BALANCE", "traverse:success-return-balanced:line%d" % r.line, where(f, r), "every path to this return has pushed once and popped once",
                "a successful return of aws_xml_node_traverse leaves the callback stack %s deeper than it found it: the nesting-depth test counts closed elements" % (sorted(vals) if vals else "?"))
    ln = f.calls("aws_array_list_length")
    R.check(len(ln) == 1 and ev_dominates(f, ln[0], push[0], dom), "BALANCE", "traverse:depth-read-before-push", where(f, ln[0]) if ln else f.name, "the depth compared with max_depth is the stack length before this level is pushed")
    g = P.fn("aws_xml_parse")
    if R.require(g is not None, "aws_xml_parse not found"):
        R.fn(g)
        gp = [e for e in g.calls("aws_array_list_push_back") if "callback_stack" in argstr(g, e.node, 0)]
        ns = g.calls("s_node_next_sibling")
        cl = g.calls("aws_array_list_clean_up")
        R.check(len(gp) == 1 and len(ns) == 1 and ev_dominates(g, gp[0], ns[0]) and len(cl) == 1, "BALANCE", "parse:root-pushed-once", where(g, gp[0]) if gp else g.name,
                "the root callback is pushed once before the root element is dispatched, and the stack is released once")


def once(R, P):
    f = P.fn("aws_xml_node_traverse")
    s = P.fn("s_node_next_sibling")
    if not R.require(f is not None and s is not None, "xml dispatch functions not found"):
        return
    R.fn(s)
    def user_calls(g):
        out = []
        for e in g.indirect_calls():
            fx = RU.uncast(g, e.node.get("fn"))
            while fx is not None and (fx["k"] == "decay" or (fx["k"] == "un" and fx["op"] == "deref")):
                fx = g.d(fx["a"][0])
            if not (fx is not None and fx["k"] == "member" and fx.get("rec") == "aws_logger_vtable"):
                out.append(e)
        return out
    for g, node_var, how in ((f, "next_node", "param"), (s, "sibling_node", "stack")):
        ind = user_calls(g)
        ld = g.calls("s_load_node_decl")
        R.check(len(ind) == 1 and len(ld) == 1 and ev_dominates(g, ld[0], ind[0]) and argstr(g, ind[0].node, 0) == node_var and argstr(g, ld[0].node, 2) == node_var, "ONCE", "%s:one-callback-per-node" % g.name,
                where(g, ind[0]) if ind else g.name, "one callback invocation, after the declaration of that node is loaded, with that node", "%s does not invoke exactly one callback per element found" % g.name)
        if not ind:
            continue
        fx = RU.uncast(g, ind[0].node.get("fn"))
        while fx is not None and fx["k"] in ("decay",) or (fx is not None and fx["k"] == "un" and fx["op"] == "deref"):
            fx = g.d(fx["a"][0])
        if how == "param":
            R.check(fx is not None and fx["k"] == "var" and fx.get("sc") == "param" and fx["n"] == "on_node_encountered", "ONCE", "%s:callback-is-own" % g.name, where(g, ind[0]), "children are reported to the callback passed to this traverse")
            pushed = [e for e in g.calls("aws_array_list_push_back") if "callback_stack" in argstr(g, e.node, 0)]
            init = [e for e in g.all_events() if e.kind == "decl" and any(v["n"] == "stack_data" for v in e.node["vars"])]
            R.check(bool(pushed) and bool(init) and "on_node_encountered" in g.show(init[0].node), "ONCE", "%s:pushed-callback-is-own" % g.name, where(g, pushed[0]) if pushed else g.name,
                    "the stack entry pushed for this level holds the same callback")
        else:
            bk = g.calls("aws_array_list_back")
            R.check(fx is not None and fx["k"] == "member" and fx["f"] == "cb" and len(bk) == 1 and "callback_stack" in argstr(g, bk[0].node, 0) and ev_dominates(g, bk[0], ind[0]), "ONCE", "%s:callback-is-stack-top" % g.name,
                    where(g, ind[0]), "the sibling is reported to the callback on top of the stack")
        # skip when not processed
        adv = g.calls("s_advance_to_closing_tag")
        ok = len(adv) == 1 and argstr(g, adv[0].node, 1) == node_var
        if ok:
            gs = RU.guards(g, adv[0])
            ok = any(RU.cmp_norm(g, c, pol) is not None and g.show(RU.uncast(g, RU.cmp_norm(g, c, pol)[0])).endswith("%s.processed" % node_var) and RU.cmp_norm(g, c, pol)[1] == "==" for c, pol, b in gs)
            ok = ok and ev_dominates(g, ind[0], adv[0])
        R.check(ok, "SKIP", "%s:unprocessed-node-is-skipped" % g.name, where(g, adv[0]) if adv else g.name, "after the callback, the node is skipped to its closing tag exactly when it was not processed",
                "%s does not skip an element the callback left untouched (its following siblings are mis-reported)" % g.name)
    # a failing callback fails the traversal: from the `non-zero` outcome of the callback only error returns are reachable
    from sa.cfg import edges as _edges
    for g, node_var, how in ((f, "next_node", "param"), (s, "sibling_node", "stack")):
        ind = user_calls(g)
        if not ind:
            continue
        cid = ind[0].node["id"]
        holders = {None}
        for e in g.all_events():
            if e.kind == "decl":
                for v in e.node["vars"]:
                    if v.get("init") is not None and any(x.get("id") == cid for x in g.walk(v["init"], follow_refs=False) if x["k"] in ("ref", "call")):
                        holders.add(v["n"])
        tests = []
        for b in g.blocks.values():
            if b.cond is None:
                continue
            t = RU.cmp_norm(g, b.cond, True)
            if t is None or t[2] is not None and g.is_const(t[2]) not in (0, None):
                continue
            x0 = RU.uncast(g, t[0])
            is_res = x0 is not None and ((x0["k"] in ("call", "ref") and x0.get("id") == cid) or (x0["k"] == "var" and x0["n"] in holders) or (g.d(t[0]) is not None and g.d(t[0]).get("id") == cid))
            if is_res and t[1] in ("!=", "=="):
                tests.append((b, t[1] == "!="))  # polarity of the edge on which the result is non-zero
        bad = []
        if not tests:
            bad.append("the callback's result is never tested")
        for b, pol_nonzero in tests[:1]:
            start = [s_ for s_, c_, p_ in _edges(g, b.id) if p_ == pol_nonzero]
            seen, work = set(), list(start)
            while work:
                x = work.pop()
                if x in seen:
                    continue
                seen.add(x)
                work.extend(s_ for s_, c_, p_ in _edges(g, x))
            for r_ in g.returns():
                if r_.blk not in seen:
                    continue
                v = RU.uncast(g, r_.node["a"][0]) if r_.node["a"] else None
                cv = g.is_const(v) if v is not None else None
                if cv is not None and cv != 0:
                    continue
                if v is not None and g.show(v).endswith("parser->error"):
                    # acceptable when an assignment parser->error = <non-zero> lies on the way (inside the reached region, dominating the return)
                    st_ = [e for e in g.field_accesses(rec="aws_xml_parser", field="error", modes=("w",)) if e.blk in seen and ev_dominates(g, e, r_)]
                    if st_:
                        continue
                if v is not None and v["k"] == "var" and v.get("sc") == "local":
                    # a single-exit function returns a result variable: decide its value on the paths that took the failing edge (NUM)
                    try:
                        nm_ = Num(g, P, C04.ParserHooks(), max_paths=6000)
                        sts_ = [st_ for st_ in nm_.states_at({r_.node["id"]}).get(r_.node["id"], []) if any(tr_[0] == b.id and tr_[1] in start for tr_ in st_.trail)]
                        vals_ = [nm_.val(r_.node["a"][0], st_) for st_ in sts_]
                        if sts_ and all(x_ is not None and ((x_.is_const() and x_.cval() != 0) or entails(st_, x_ + 1) or entails(st_, Poly.const(1) - x_)) for x_, st_ in zip(vals_, sts_)):
                            continue
                    except Limit:
                        pass
                bad.append("line %d returns %s" % (r_.node["loc"][0], g.show(v) if v is not None else "nothing"))
        R.check(not bad, "ERR-CHECKED", "%s:callback-failure-fails-the-parse" % g.name, where(g, ind[0]), "after a non-zero callback result only error returns are reachable",
                "a callback that reports failure (an abort, or a failed body read) does not make %s fail (%s): aws_xml_parse returns success for a document the callback rejected or that lacks a closing tag" % (g.name, "; ".join(bad[:2])))
        # the node handed to the callback is a fresh object per element: declared with an initialiser where it is loaded
        # (inside the child loop for traverse), so no field of the previous sibling survives into this element
        decls = [e for e in g.all_events() if e.kind == "decl" and any(v["n"] == node_var and v.get("init") is not None for v in e.node["vars"])]
        loops_ = Num(g, P, None).loops()
        inner = [body for h, body in loops_.items() if ind[0].blk in body]
        okn = len(decls) == 1 and (not inner or any(decls[0].blk in body for body in inner))
        R.check(okn, "DECL", "%s:node-is-fresh-per-element" % g.name, where(g, ind[0]), "`%s` is declared with an initialiser %s" % (node_var, "inside the child loop" if inner else "before it is loaded"),
                "`%s` is not re-initialised for each element (declared outside the loop / without initialiser): fields the declaration loader only sets conditionally (the attribute list) keep the previous sibling's values" % node_var)
    # the closing tag of the parent ends the child loop without a callback
    ind = user_calls(f)
    # (by role: the callback is reached only under `the byte behind '<' is not '/'` - tested in place, or through a flag that
    # is set under that test)
    slash_flags = set()
    for b in f.blocks.values():
        for el in b.elems:
            if el["k"] == "bin" and el["op"] == "=" and (f.d(el["a"][0]) or {}).get("k") == "var" and f.is_const(RU.uncast(f, el["a"][1])) == 1:
                ev_ = type("E", (), {"blk": b.id, "idx": 0, "seq": 0})()
                for c_, p_, b_ in RU.guards(f, ev_):
                    g_ = RU.cmp_norm(f, c_, p_)
                    if g_ and g_[2] is not None and g_[1] == "==" and 47 in (f.is_const(RU.uncast(f, g_[0])), f.is_const(RU.uncast(f, g_[2]))):
                        slash_flags.add(f.d(el["a"][0])["n"])
    not_closing = False
    for c, pol, b in (RU.guards(f, ind[0]) if ind else []):
        g_ = RU.cmp_norm(f, c, pol)
        if not g_:
            continue
        l_ = RU.uncast(f, g_[0])
        if l_ is not None and l_["k"] == "var" and l_["n"] in slash_flags and g_[1] == "==" and g_[2] is None:
            not_closing = True
        if g_[2] is not None and g_[1] == "!=" and 47 in (f.is_const(RU.uncast(f, g_[0])), f.is_const(RU.uncast(f, g_[2]))):
            not_closing = True
    R.check(bool(ind) and not_closing, "ONCE", "traverse:closing-tag-ends-loop", "%s()" % f.name,
            "a '</' declaration leaves the child loop before any callback")
    written = set()
    for g in P.functions_in(FILE):
        for p_ in g.params:
            t_ = g.unit.types[p_["t"]]
            if t_.get("ptr") and t_.get("rec") == "aws_xml_node" and not t_.get("s", "").startswith("const "):
                for e in g.field_accesses(rec="aws_xml_node", modes=("w", "rw")):
                    if g.show(e.node).startswith(p_["n"] + "->"):
                        written.add((g.name, e.node["f"]))
    pub = {(n_, f_) for n_, f_ in written if n_ != "s_load_node_decl"}
    R.check(pub and {f_ for n_, f_ in pub} == {"processed"}, "SKIP", "node-opaque", FILE, "the functions a callback can hand the node to write nothing of it but `processed` (%s)" % sorted(pub),
            "library functions reachable from a callback modify node fields %s: the node seen after the callback is not the one loaded" % sorted(pub))
    for name in ("aws_xml_node_traverse", "aws_xml_node_as_body"):
        g = P.fn(name)
        if not R.require(g is not None, "%s not found" % name):
            continue
        R.fn(g)
        wr = [e for e in g.field_accesses(rec="aws_xml_node", field="processed", modes=("w",)) if g.show(e.node).startswith("node->")]
        fa = [e for e in g.calls("aws_fatal_assert")]
        work = g.calls({"s_advance_to_closing_tag", "aws_array_list_push_back", "memchr"})
        okp = len(wr) == 1 and fa and all(ev_dominates(g, wr[0], w) for w in work) and any(ev_dominates(g, a, wr[0]) or a.blk != wr[0].blk for a in fa)
        rd = [e for e in g.field_accesses(rec="aws_xml_node", field="processed", modes=("r",)) if g.show(e.node).startswith("node->")]
        wr = [e for e in wr if g.show(e.node).startswith("node->")]
        okp = okp and rd and all(ev_dominates(g, r_, wr[0]) for r_ in rd)
        R.check(okp, "SKIP", "%s:consumed-at-most-once" % name, where(g, wr[0]) if wr else name, "processed is tested (fatal on reuse) and set before the node's content is touched")


def decl(R, P):
    f = P.fn("s_load_node_decl")
    q = P.fn("s_double_quote_fn")
    if not R.require(f is not None and q is not None, "s_load_node_decl / s_double_quote_fn not found"):
        return
    R.fn(f)
    R.fn(q)
    sp = f.calls({"aws_byte_cursor_split_on_char", "aws_byte_cursor_split_on_char_n"})
    chars = sorted(f.is_const(RU.arg(f, c.node, 1)) for c in sp)
    R.check(chars == [32, 61], "DECL", "split-characters", "%s()" % f.name, "the declaration is split on ' ' and each pair on '='", "the declaration is split on %s" % chars)
    first = [c for c in sp if f.is_const(RU.arg(f, c.node, 1)) == 32]
    if first:
        okf = False
        for r_ in f.returns():
            v = RU.uncast(f, r_.node["a"][0]) if r_.node["a"] else None
            if v is not None and v.get("k") == "var":
                v = RU.uncast(f, RU.origin(f, v)) or v  # (the result of an expanded `log and raise` helper)
            if v is not None and v.get("k") == "call" and v.get("callee") == "aws_raise_error":
                for c, pol, b in RU.guards(f, r_):
                    t = RU.call_test(f, c, pol)
                    if t and t[0] is first[0].node and t[1] == "nonzero":
                        okf = True
        R.check(okf, "DECL", "split-failure-is-error", where(f, first[0]), "too many pieces (attribute limit) is reported as an invalid document")
    ga = [e for e in f.calls("aws_array_list_get_at") if f.is_const(RU.arg(f, e.node, 2)) == 0 and "node->name" in argstr(f, e.node, 1)]
    if not ga:
        # ... or read straight from element 0 of the storage the split list was set up over
        store = {argstr(f, e.node, 1) for e in f.calls("aws_array_list_init_static") if first and argstr(f, e.node, 0) == argstr(f, first[0].node, 2)}
        for b_ in f.blocks.values():
            for el in b_.elems:
                if el["k"] == "bin" and el["op"] == "=":
                    l_, r_ = RU.uncast(f, el["a"][0]), RU.uncast(f, el["a"][1])
                    while r_ is not None and r_["k"] == "cast":
                        r_ = RU.uncast(f, r_["a"][0])
                    if l_ is not None and l_["k"] == "member" and l_["f"] == "name" and l_.get("rec") == "aws_xml_node" and r_ is not None and r_["k"] == "index" and f.is_const(r_["a"][1]) == 0:
                        base_ = RU.uncast(f, r_["a"][0])
                        while base_ is not None and base_["k"] == "decay":
                            base_ = RU.uncast(f, base_["a"][0])
                        if base_ is not None and f.show(base_) in store:
                            ga.append(el)
    R.check(len(ga) == 1, "DECL", "name-is-first-split", where(f, ga[0]) if ga else f.name, "the element name is split 0")
    tr = f.calls("aws_byte_cursor_trim_pred")
    okt = len(tr) == 1 and f.show(RU.arg(f, tr[0].node, 1)).endswith("s_double_quote_fn") and "att_val_pair[1]" in argstr(f, tr[0].node, 0)
    if not tr:
        # ... or the two halves of that trim applied one after the other (byte_buf.c: trim = left trim, then right trim of
        # the result), either order, with the same predicate
        lt, rt = f.calls("aws_byte_cursor_left_trim_pred"), f.calls("aws_byte_cursor_right_trim_pred")
        if len(lt) == 1 and len(rt) == 1:
            first, second = (lt[0], rt[0]) if ev_dominates(f, lt[0], rt[0]) else (rt[0], lt[0])
            src2 = RU.strip_addr(f, RU.arg(f, second.node, 0))
            chained = False
            if src2 is not None and src2["k"] == "var":
                # (its address is taken for the second call, so look at the declaration itself: initialised by the first call
                # and never assigned)
                inits = [RU.uncast(f, v["init"]) for e in f.all_events() if e.kind == "decl" for v in e.node["vars"] if v["n"] == src2["n"] and v.get("init") is not None]
                assigned = [e for e in f.all_events() if e.kind == "access" and e.node["k"] == "var" and e.node["n"] == src2["n"] and e.mode in ("w", "rw")]
                chained = len(inits) == 1 and inits[0] is first.node and not assigned
            okt = chained and "att_val_pair[1]" in argstr(f, first.node, 0) and all(f.show(RU.arg(f, e.node, 1)).endswith("s_double_quote_fn") for e in (lt[0], rt[0]))
            tr = [second]
    R.check(okt, "DECL", "value-trimmed-of-double-quotes", where(f, tr[0]) if tr else f.name,
            "the attribute value is the second half trimmed with s_double_quote_fn")
    init = [e for e in f.calls("aws_array_list_init_static") if "att_val_pair_lst" in argstr(f, e.node, 0)]
    R.check(len(init) == 1 and f.is_const(RU.arg(f, init[0].node, 2)) == 2, "DECL", "pair-has-two-slots", where(f, init[0]) if init else f.name, "a name=value pair is split into at most two pieces")
    # the value may itself contain '=' (values only exclude spaces): the pair is divided at its FIRST '=' - a split that is
    # limited to as many pieces as the list has slots, and therefore cannot fail and silently drop the attribute
    slots = f.is_const(RU.arg(f, init[0].node, 2)) if init else None
    eqs = [e for e in f.calls({"aws_byte_cursor_split_on_char", "aws_byte_cursor_split_on_char_n"}) if f.is_const(RU.arg(f, e.node, 1)) == 61]
    # aws_byte_cursor_split_on_char_n(input, c, n, out) makes at most n splits, i.e. n + 1 pieces (0 = unlimited)
    okn = len(eqs) == 1 and eqs[0].node["callee"] == "aws_byte_cursor_split_on_char_n" and f.is_const(RU.arg(f, eqs[0].node, 2)) is not None and slots is not None and 1 <= f.is_const(RU.arg(f, eqs[0].node, 2)) <= slots - 1
    R.check(okn, "DECL", "pair-split-at-first-equals", where(f, eqs[0]) if eqs else f.name, "the pair is split into at most %s pieces (name, rest): a '=' inside the value stays in the value" % slots,
            "the name=value pair is split at every '=' into a %s-slot list: a value that contains '=' (k=\"x=y\") yields a third piece, the split fails and the attribute is dropped without an error" % slots)
    # the predicate matches only '"'
    rets = q.returns()
    okq = len(rets) == 1
    if okq:
        v = RU.uncast(q, rets[0].node["a"][0])
        while v is not None and v["k"] == "cast":
            v = q.d(v["a"][0])
        okq = v is not None and v["k"] == "bin" and v["op"] == "==" and {q.show(RU.uncast(q, v["a"][0])), str(q.is_const(RU.uncast(q, v["a"][1])))} == {"value", "34"}
    R.check(okq, "DECL", "quote-predicate-is-double-quote-only", "%s()" % q.name, "s_double_quote_fn(value) is value == '\"'", "the trimming predicate matches more than the double quote: attribute data is stripped")
    em = [e for e in f.field_accesses(rec="aws_xml_node", field="is_empty", modes=("w",))]
    okm = len(em) == 1
    if okm:
        for b in f.blocks.values():
            for el in b.elems:
                if el["k"] == "bin" and el["op"] == "=" and f.d(el["a"][0]) is em[0].node:
                    txt = f.show(f.d(el["a"][1]))
                    okm = "decl_body->ptr[(decl_body->len - 1)]" in txt and "== 47" in txt
    R.check(okm, "DECL", "empty-element-marker", where(f, em[0]) if em else f.name, "is_empty is set exactly when the declaration ends in '/'")


def _same_name_by_value(P, f):
    """(ok, reason): in s_advance_to_closing_tag the nesting depth goes up exactly for the three kinds of name terminator"""
    from sa.num import feasible

    class H(XmlHooks):
        def call(self, num, st, e, args):
            if (e.get("callee") or "") == "aws_isspace" and args and args[0] is not None:
                r = Poly.atom(num.fresh(st, "isspace", None, (0, 1)))
                st.notes["isspace"] = list(st.notes.get("isspace", [])) + [(args[0], r)]
                return r
            return XmlHooks.call(self, num, st, e, args)
    incs = [el for b in f.blocks.values() for el in b.elems if el["k"] == "un" and el["op"] in ("post++", "pre++") and "depth" in f.show(el)]
    if len(incs) != 1:
        return False, "depth increment not found"
    inc = incs[0]
    num = Num(f, P, H(), max_paths=30000)
    inc_blk = num.elem_of.get(inc["id"], (None,))[0]
    # the statement both arms reach next: the first element of the increment block's successor
    succ = [s_ for s_ in f.blocks[inc_blk].succ if s_ is not None]
    if len(succ) != 1 or not f.blocks[succ[0]].elems and not f.blocks[succ[0]].succ:
        return False, "join after the increment not found"
    join = succ[0]
    while not f.blocks[join].elems and len([x for x in f.blocks[join].succ if x is not None]) == 1:
        join = [x for x in f.blocks[join].succ if x is not None][0]
    if not f.blocks[join].elems:
        return False, "join after the increment has no statement"
    jid = f.blocks[join].elems[0]["id"]
    try:
        sts = num.states_at({inc["id"], jid})
    except Limit as ex:
        return False, str(ex)

    def name_end(st):
        ks = [k for k in st.env if k.startswith("v:") and k.split("$")[-1].replace("v:", "") == "name_end"]
        return st.env[ks[0]] if len(ks) == 1 else None
    n_t = n_f = 0
    for st in sts.get(inc["id"], []):
        ne = name_end(st)
        if ne is None:
            return False, "name_end not tracked"
        sp = [r for a, r in st.notes.get("isspace", []) if entails(st, a - ne) and entails(st, ne - a)]
        is_c = any(entails(st, ne - c) and entails(st, Poly.const(c) - ne) for c in (62, 47))
        is_sp = bool(sp) and not feasible(st, [sp[-1], -sp[-1]])  # the white-space verdict cannot be 0 here
        if not (is_c or is_sp):
            return False, "the depth is incremented for a byte that is neither '>', '/' nor white space"
        n_t += 1
    for st in sts.get(jid, []):
        if any(tr_[0] == inc_blk or tr_[1] == inc_blk for tr_ in st.trail[-4:]):
            continue
        ne = name_end(st)
        if ne is None:
            continue
        # reached without the increment: none of the three may hold
        for c in (62, 47):
            if feasible(st, [ne - c, Poly.const(c) - ne]):
                return False, "an opening tag whose name is followed by %r does not increment the depth (trail %s, inc block %s, join %s)" % (chr(c), st.trail[-8:], inc_blk, join)
        sp = [r for a, r in st.notes.get("isspace", []) if entails(st, a - ne) and entails(st, ne - a)]
        if not sp or not (entails(st, sp[-1]) and entails(st, -sp[-1])):
            return False, "white space after the name does not increment the depth"
        n_f += 1
    return (n_t >= 3 and n_f >= 1), "states: %d incrementing, %d not" % (n_t, n_f)


def terminators(R, P):
    f = P.fn("s_advance_to_closing_tag")
    if not R.require(f is not None, "s_advance_to_closing_tag not found"):
        return
    consts, calls = set(), set()
    found = None
    for e in f.all_events():
        if e.kind == "decl" and any(v["n"].split("$")[-1] == "same_name" for v in e.node["vars"]):  # (also inside an expanded helper)
            found = e
            for v in e.node["vars"]:
                for x in f.walk(f.d(v["init"]), follow_refs=True):
                    if x["k"] == "bin" and x["op"] == "==":
                        c = f.is_const(RU.uncast(f, x["a"][1]))
                        if c is not None and "name_end" in f.show(x["a"][0]):  # (prefix of an expanded helper's local included)
                            consts.add(c)
                    if x["k"] == "call" and x.get("callee"):
                        calls.add(x["callee"])
    if not R.require(found is not None, "same-name nesting test (same_name) not found"):
        return
    # (the white-space alternative is evaluated in its own CFG block)
    blk_chain = {b.id for b in f.blocks.values() if b.term == "||"} | {found.blk}
    for c in f.calls("aws_isspace"):
        if f.show(RU.arg(f, c.node, 0)).split("$")[-1] == "name_end" and any(c.blk == p_ or c.blk in f.preds().get(found.blk, ()) for p_ in blk_chain):
            calls.add("aws_isspace")
    ok_syn = consts == {ord(">"), ord("/")} and calls == {"aws_isspace"}
    if not ok_syn:
        # however the test is written (a predicate helper, a switch): decide it on the values.  The nesting depth is incremented
        # exactly for name_end in {'>', '/'} or aws_isspace(name_end) != 0 (NUM, states before and around the increment)
        okn, why = _same_name_by_value(P, f)
        if okn:
            R.ok("NEST-TERMINATORS", "same-name-test", where(f, found), "the depth is incremented exactly when the byte after the name is '>', '/' or white space (NUM)")
            consts, calls, ok_syn = {ord(">"), ord("/")}, {"aws_isspace"}, None
    if ok_syn is not None:
      R.check(consts == {ord(">"), ord("/")} and calls == {"aws_isspace"}, "NEST-TERMINATORS", "same-name-test", where(f, found), "a nested opening of the same name is one followed by '>', '/' or white space",
              "the same-name nesting test accepts name terminators %s + %s, but a tag name ends at '>', '/' or white space (the declaration is split on ' ')" % (sorted(chr(c) for c in consts), sorted(calls)))
    import re as _re
    plain = lambda t_: _re.sub(r"[A-Za-z_][A-Za-z0-9_]*\$\d+\$", "", t_)  # locals of an expanded helper keep their own names
    ne = [e for e in f.all_events() if e.kind == "decl" and any(v["n"].split("$")[-1] == "name_end" for v in e.node["vars"])]
    ok = bool(ne) and "open_find_result.ptr[to_find_open.len]" in plain(f.show(ne[0].node)) and "open_find_result.len > to_find_open.len" in plain(f.show(ne[0].node))
    R.check(ok, "NEST-TERMINATORS", "name-end-is-the-byte-after-the-match", where(f, ne[0]) if ne else f.name, "the character tested is the one right after '<name', when there is one")


def body_view(R, P):
    from sa.bounds import std_states
    f = P.fn("s_advance_to_closing_tag")
    hooks = XmlHooks()
    num, sts, ex = std_states(P, f, hooks)
    rets = [x for b in f.blocks.values() for x in b.elems if x["k"] == "ret"]
    if ex is not None:
        R.broken("NUM trace limit in s_advance_to_closing_tag: %s" % ex)
        return
    n_ok, bad = 0, None
    for r in rets:
        for st in sts.get(r["id"], []):
            ob = st.env.get("v:out_body")
            if ob is None or entails(st, ob) and entails(st, -ob):
                continue
            base = num.base_of(st, ob)
            bp, bl = st.env.get(base + "ptr"), st.env.get(base + "len")
            o = st.notes.get("orig", {}).get(base + "ptr")
            if bp is None or bl is None or (o is not None and bp == Poly.atom(o)):
                continue  # not stored on this path (error return)
            if entails(st, bp) and entails(st, -bp) and entails(st, bl) and entails(st, -bl):
                n_ok += 1  # empty element: {NULL, 0}
                continue
            nb = num.base_of(st, st.env.get("v:node"))
            np_, nl = st.env.get(nb + "doc_at_body.ptr"), st.env.get(nb + "doc_at_body.len")
            if np_ is None or nl is None:
                bad = "node body view not tracked"
                continue
            cf = st.env.get("v:close_find_result.ptr")
            good = entails(st, bp - np_) and entails(st, np_ - bp) and entails(st, -bl) and entails(st, bl - nl)
            # ... and ends exactly where the matching closing tag starts
            good = good and cf is not None and entails(st, bp + bl - cf) and entails(st, cf - bp - bl)
            if good:
                n_ok += 1
            else:
                bad = "body [%r, +%r) vs node body view [%r, +%r) | branch trail %s" % (bp, bl, np_, nl, st.trail[-5:])
    R.check(n_ok >= 2 and bad is None, "BODY-VIEW", "advance_to_closing_tag:out_body", "%s()" % f.name, "the body starts at the node's body position and lies inside its body view in all %d states that store it" % n_ok,
            "the body handed out can start elsewhere or extend beyond the node's text: %s" % bad)
    # the invariant assumed at entry holds at the internal call sites
    for name in ("s_node_next_sibling", "aws_xml_node_traverse", "aws_xml_node_as_body"):
        g = P.fn(name)
        if not R.require(g is not None, "%s not found" % name):
            continue
        n2, _sts, ex2 = std_states(P, g, hooks)
        if ex2 is not None:
            R.broken("NUM trace limit in %s: %s" % (name, ex2))
            continue
        log = getattr(n2, "body_log", [])
        if name == "aws_xml_node_as_body":
            R.assumed_sites.append({"site": "BODY-VIEW:aws_xml_node_as_body->s_advance_to_closing_tag", "reason": "API boundary: the node was handed out by this parser and the document has only been consumed since (ASSUMPTIONS)"})
            continue
        R.check(bool(log) and all(ok for e, ok in log), "BODY-VIEW", "%s:document-only-shrinks" % name, where(g, log[0][0]) if log else name,
                "at the skip call the document position is at or after the node's body start and both end at the same byte (%d states)" % len(log),
                "the document/body invariant s_advance_to_closing_tag relies on does not hold at this call")


def _discarded_calls(f, callees):
    """calls whose value is dropped: a top-level CFG element that nothing refers to"""
    refd = set()
    for b in f.blocks.values():
        for el in list(b.elems) + ([b.cond] if b.cond is not None else []):
            for x in f.walk(el):
                if x["k"] == "ref":
                    refd.add(x["id"])
    out = []
    for b in f.blocks.values():
        for el in b.elems:
            if el["k"] == "call" and el.get("callee") in callees and el["id"] not in refd:
                out.append(el)
    return out


def err_checked(R, P):
    """ERR-CHECKED: the parser's own fallible steps (every int-returning function of xml_parser.c that can return non-zero)
    never have their result dropped inside the parser: a failed step must stop the traversal, otherwise the callbacks
    keep being fed from a position that was not advanced (an unclosed element is reported as if it had been closed)."""
    fns = P.functions_in(FILE)
    fallible = set()
    for f in fns:
        rt = f.rettype()
        if rt.get("w") == 32 and not rt.get("u") and not rt.get("ptr"):
            for r_ in f.returns():
                v = RU.uncast(f, r_.node["a"][0]) if r_.node["a"] else None
                if v is not None and (f.is_const(v) is None or f.is_const(v) != 0):
                    fallible.add(f.name)
    R.require({"s_advance_to_closing_tag", "s_load_node_decl", "aws_xml_node_traverse"} <= fallible, "fallible steps not found in %s (%s)" % (FILE, sorted(fallible)))
    n = 0
    for f in fns:
        calls = [e for e in f.calls(fallible)]
        n += len(calls)
        for el in _discarded_calls(f, fallible):
            R.fail("ERR-CHECKED", "%s->%s" % (f.name, el["callee"]), "%s:%d in %s()" % (FILE, el.get("loc", [0])[0], f.name),
                   "the result of %s() is dropped: when it fails the document position has not moved and no error is recorded, yet the caller goes on reporting elements" % el["callee"])
    R.check(n >= 5, "ERR-CHECKED", "all-fallible-steps-tested", FILE, "%d calls of %s: every result is tested, returned or stored" % (n, sorted(fallible)), "only %d calls of the parser's fallible steps found" % n)


def exact_guards(R, P):
    """LIMITS/room-guard + preamble: (a) the skip refuses a node because `there is no room for its closing tag` only when the
    closing tag really does not fit in what is left (NUM: name.len + overhead > doc_at_body.len) - an element with an empty
    body at the very end of the document is well-formed; (b) the preamble loop is left only at a statement that is not a
    preamble statement ('<?' or '<!') - any number of declarations, comments and processing instructions may precede the root"""
    from sa.cfg import edges
    f = P.fn("s_advance_to_closing_tag")
    if R.require(f is not None, "s_advance_to_closing_tag not found"):
        num = Num(f, P, XmlHooks(), max_paths=20000)
        # the refusals made before the search starts (one test per reason or one `||` of them): the failing returns that
        # are not reachable from the search call
        search = f.calls("aws_byte_cursor_find_exact")
        after = set()
        for e_ in search:
            after |= {id(x) for x in RU.reach_from(f, e_)}
        first = []
        for r in f.returns():
            v_ = RU.uncast(f, r.node["a"][0]) if r.node.get("a") else None
            if v_ is None or f.is_const(v_) == 0 or id(r) in after:
                continue
            first.append(r.node)
        bufs = []
        for e_ in f.all_events():
            if e_.kind == "decl":
                for v_ in e_.node["vars"]:
                    t_ = f.unit.types[v_["t"]]
                    if t_.get("arr") and t_.get("esz", 1) == 1:
                        bufs.append(t_["arr"])
        if R.require(len(first) >= 1 and search, "s_advance_to_closing_tag: the room guard's error return not found (%d)" % len(first)):
            try:
                sts = num.states_at({r["id"] for r in first})
            except Limit as ex:
                R.broken(str(ex))
                sts = {}
            ok, det, cnt = True, "", 0
            for r in first:
                for st in sts.get(r["id"], []):
                    dl = [v for k, v in st.env.items() if k.endswith(")->doc_at_body.len")]
                    cl = st.env.get("v:closing_name_len")
                    cnt += 1
                    fits_not = bool(dl) and cl is not None and entails(st, dl[0] + 1 - cl)
                    too_long = cl is not None and any(entails(st, Poly.const(k_ + 1) - cl) for k_ in bufs)  # the other documented limit: the pattern buffer
                    if not (fits_not or too_long):
                        ok, det = False, "refused with closing_name_len = %r, doc_at_body.len = %s" % (cl, dl)
            R.check(ok and cnt > 0, "LIMITS", "skip:refuses-only-when-the-closing-tag-does-not-fit", "%s:%d in %s()" % (FILE, first[0]["loc"][0], f.name), "a refusal implies closing_name_len > doc_at_body.len, or a name beyond the pattern buffer (%d states)" % cnt,
                    "the skip refuses a node whose closing tag exactly fills the rest of the document (%s): a well-formed root with an empty body and nothing behind its end tag is rejected" % det)
    g = P.fn("aws_xml_parse")
    if R.require(g is not None, "aws_xml_parse not found"):
        loops = Num(g, P, None).loops()
        cand = [(h, body) for h, body in loops.items() if g.blocks[h].cond is not None and "doc.len" in g.show(g.blocks[h].cond)]
        if R.require(len(cand) >= 1, "aws_xml_parse: preamble loop not found"):
            h, body = cand[0]
            bad = []
            for b in body:
                for s_, c_, p_ in edges(g, b):
                    if s_ in body or c_ is None or not isinstance(p_, bool):
                        continue
                    # conditions known true on this way out (the branch itself and what dominates it inside the loop)
                    t = RU.cmp_norm(g, c_, p_)
                    if t and t[1] == "==" and t[2] is not None and g.is_const(t[2]) in (33, 63):
                        bad.append(g.show(g.d(c_)))

                    class _E2:
                        pass
                    ev2 = _E2()
                    ev2.blk = b
                    for c2, p2, b2 in RU.guards(g, ev2):
                        if b2 in body:
                            t2 = RU.cmp_norm(g, c2, p2)
                            if t2 and t2[1] == "==" and t2[2] is not None and g.is_const(t2[2]) in (33, 63):
                                bad.append(g.show(g.d(c2)))
            R.check(not bad, "LIMITS", "preamble:left-only-at-a-non-preamble-statement", "%s in aws_xml_parse()" % FILE, "no way out of the preamble loop is taken at a '<?' or '<!' statement",
                    "the preamble loop is left after a '<!' / '<?' statement (%s): a comment, processing instruction or second declaration that follows is handed to the root callback as if it were the root element" % sorted(set(bad)))


# the byte-buffer writers that fail (and write nothing) when the destination lacks room: callee -> where the length is
WRITERS = {"aws_byte_buf_append": "cursor*", "aws_byte_buf_write_from_whole_cursor": "cursor", "aws_byte_buf_write_from_whole_buffer": "buf", "aws_byte_buf_write": "len",
           "aws_byte_buf_write_u8": 1, "aws_byte_buf_write_be16": 2, "aws_byte_buf_write_be32": 4, "aws_byte_buf_write_be64": 8}


def unchecked_appends(R, P):
    """ERR-CHECKED/appends: an append whose result is dropped must not be able to fail: NUM shows at each such call that
    the destination has room (the name-length guard and the pattern buffers' sizes agree)."""
    from sa.awslib import AwsHooks
    n = 0
    for g in P.functions_in(FILE):
        apps = [el for el in _discarded_calls(g, set(WRITERS) | {"aws_byte_buf_append_dynamic"})]
        if not apps:
            continue
        R.fn(g)

        class H(XmlHooks):
            def call(self, num, st, e, args):
                c = e.get("callee") or ""
                if c in WRITERS and len(args) >= 2 and args[0] is not None:
                    bb = self._cbase(num, st, e, 0, args)
                    how = WRITERS[c]
                    fl = None
                    if how == "cursor*" and args[1] is not None:
                        fl = num.field(st, self._cbase(num, st, e, 1, args) + "len", "aws_byte_cursor", "len")
                    elif how in ("cursor", "buf"):
                        k_ = num.key(RU.uncast(num.fn, e["a"][1]), st)
                        fl = num.field(st, k_ + ".len", "aws_byte_cursor" if how == "cursor" else "aws_byte_buf", "len") if k_ else None
                    elif how == "len" and len(args) >= 3:
                        fl = args[2]
                    elif isinstance(how, int):
                        fl = Poly.const(how)
                    if bb and fl is not None:
                        ln = num.field(st, bb + "len", "aws_byte_buf", "len")
                        cap = num.field(st, bb + "capacity", "aws_byte_buf", "capacity")
                        ok = entails(st, ln + fl - cap)
                        num.__dict__.setdefault("app_log", []).append((e, ok, repr(ln + fl), repr(cap)))
                        if ok:
                            st.env[bb + "len"] = ln + fl
                            return Poly.const(0 if c == "aws_byte_buf_append" else 1)
                        st.env[bb + "len"] = Poly.atom(num.fresh(st, "len", None, (0, 2 ** 62)))
                        return Poly.atom(num.fresh(st, "append", num.ty(e)))
                return XmlHooks.call(self, num, st, e, args)
        num = Num(g, P, H(), max_paths=20000)
        try:
            num.states_at({-1})
        except Limit as ex:
            R.broken(str(ex))
            continue
        ids = {el["id"] for el in apps}
        by = {}
        for e, ok, need, cap in getattr(num, "app_log", []):
            if e["id"] in ids:
                o = by.setdefault(e["id"], [e, True, ""])
                if not ok:
                    o[1], o[2] = False, "needs %s of capacity %s" % (need, cap)
        for eid, (e, ok, det) in sorted(by.items()):
            n += 1
            R.check(ok, "ERR-CHECKED", "%s:unchecked-append-line%d-has-room" % (g.name, e.get("loc", [0])[0]), "%s:%d in %s()" % (FILE, e.get("loc", [0])[0], g.name), "the append cannot fail: the destination has room in every state",
                    "the result of this append is dropped although it can fail (%s): for a name at the length limit the search pattern is silently cut short, so nested same-name elements are not counted and siblings are lost" % det)
    R.require(n >= 4, "only %d unchecked appends analysed" % n)


def limits(R, P):
    """LIMITS: the two documented limits are applied as stated.
    depth: the parser's max_depth is the option's value, or the default constant when the option is 0 - with no offset -
           and traverse refuses when the callback-stack length has reached it (depth test in BALANCE);
    attributes: the split scratch has one slot more than the attribute array (name + attributes), and the attribute loop
           runs over every split after the name: at the loop's exit the index equals the number of splits (NUM)."""
    f = P.fn("aws_xml_parse")
    if not R.require(f is not None, "aws_xml_parse not found"):
        return
    R.fn(f)
    num = Num(f, P, XmlHooks(), max_paths=4000)
    cbs = [e for e in f.indirect_calls()] + [e for e in f.calls("aws_array_list_push_back")]
    if R.require(bool(cbs), "aws_xml_parse: no call after the parser is set up"):
        try:
            sts = num.states_at({cbs[0].node["id"]})
        except Limit as ex:
            R.broken(str(ex))
            sts = {}
        gd = P.globals.get("s_max_document_depth") or {}
        dflt = (gd.get("init") or {}).get("int") if isinstance(gd.get("init"), dict) else None
        R.require(isinstance(dflt, int) and dflt > 0, "default depth limit s_max_document_depth not found as a constant")
        ok, det, cnt = True, "", 0
        for st in sts.get(cbs[0].node["id"], []):
            md = [v for k, v in st.env.items() if k.endswith("parser.max_depth")]
            opt = [v for k, v in st.env.items() if k.endswith(")->max_depth")]
            cnt += 1
            if len(md) != 1:
                ok, det = False, "max_depth not tracked"
                continue
            v = md[0]
            if v.is_const():
                if not (opt and entails(st, opt[0]) and entails(st, -opt[0])):
                    ok, det = False, "constant limit %r although the option is not zero" % v
                elif v.cval() != dflt:
                    ok, det = False, "limit %r when no limit is given, the default is %r" % (v.cval(), dflt)
            elif not (opt and v == opt[0]):
                ok, det = False, "parser.max_depth = %r, option = %s" % (v, opt)
        R.check(ok and cnt >= 2, "LIMITS", "depth:limit-is-the-option-or-the-default", "%s:%d in aws_xml_parse()" % (FILE, f.line), "parser.max_depth is options->max_depth, or the default constant when that is 0, in all %d states" % cnt,
                "the depth limit applied differs from the one requested (%s): documents one level deeper than the limit are accepted (or documents at the limit refused)" % det)
    g = P.fn("s_load_node_decl")
    rec = P.records.get("aws_xml_parser")
    if R.require(g is not None and rec is not None, "s_load_node_decl / struct aws_xml_parser not found"):
        sizes = {}
        for fd in rec["fields"]:
            t = rec["_unit"].types[fd["t"]]
            if t.get("arr") is not None:
                sizes[fd["n"]] = t["arr"]
        R.check(sizes.get("split_scratch") == (sizes.get("attributes") or 0) + 1 and sizes.get("attributes"), "LIMITS", "attributes:scratch-is-name-plus-attributes", "struct aws_xml_parser",
                "split_scratch[%s] = name + attributes[%s]" % (sizes.get("split_scratch"), sizes.get("attributes")), "the split scratch (%s) is not one slot larger than the attribute array (%s)" % (sizes.get("split_scratch"), sizes.get("attributes")))
        R.fn(g)
        # the attribute loop: every way out of it is `index < number of splits` being false, the index starts at 1 (split 0
        # is the name) and steps by one
        from sa.cfg import edges
        loops = Num(g, P, None).loops()
        cand = []
        for h, body in loops.items():
            B = g.blocks[h]
            if B.cond is not None and "splits" in g.show(B.cond):
                cand.append((h, body))
        ok, det = len(cand) == 1, "attribute loop not found (%d candidates)" % len(cand)
        if ok:
            h, body = cand[0]
            for b in body:
                for s, cnd, pol in edges(g, b):
                    if s in body:
                        continue
                    t = RU.cmp_norm(g, cnd, pol) if cnd is not None and isinstance(pol, bool) else None
                    txt = (g.show(t[0]), t[1], g.show(t[2]) if t[2] is not None else None) if t else None
                    if txt not in (("i", ">=", "splits.length"), ("i", ">=", "splits_count")):
                        ok, det = False, "the loop is also left when %s" % (txt,)
            steps = []
            for b in body | {h}:
                for el in g.blocks[b].elems:
                    for x in g.walk(el):
                        if x["k"] in ("un", "bin") and x.get("op") in ("++", "--", "pre++", "post++", "pre--", "post--", "+=", "-=", "=") and g.show(g.d(x["a"][0])) == "i":
                            steps.append(x.get("op"))
            if not (len(steps) == 1 and "++" in steps[0]):
                ok, det = False, "index updates inside the loop: %s" % steps
            inits = [v for e in g.all_events() if e.kind == "decl" for v in e.node["vars"] if v["n"] == "i"]
            if not (len(inits) == 1 and inits[0].get("init") is not None and g.is_const(inits[0]["init"]) == 1):
                ok, det = False, "the index does not start at 1"
        R.check(ok, "LIMITS", "attributes:every-split-becomes-an-attribute", "%s in s_load_node_decl()" % FILE, "the attribute loop runs over splits 1 .. count-1 and is left only when the index reaches the count",
                "the attribute loop does not visit every split after the name (%s): an element with the maximum number of attributes loses its last one" % det)


def round7(R, P):
    """DECL/every-pair-reported: an attribute token that splits into name and value is reported, whatever its value is (an empty
    value is a value): the push into the attribute list depends only on the splitting having worked.
    ONCE/traverse-consumes-its-element: aws_xml_node_traverse leaves without error only through its child loop (which is
    where the element's closing tag is consumed): a short cut in front of the loop leaves `</a>` to the enclosing traversal.
    BODY-VIEW/find-exact: aws_byte_cursor_find_exact compares ALL to_find->len bytes of the pattern at the candidate position."""
    from sa.cfg import natural_loops
    f = P.fn("s_load_node_decl")
    if R.require(f is not None, "s_load_node_decl not found"):
        pushes = [e for e in f.calls("aws_array_list_push_back") if "attributes" in f.show(e.node)]
        if R.require(len(pushes) >= 1, "s_load_node_decl: the push of an attribute not found"):
            dom = dominators(f)
            loops = natural_loops(f)
            hdrs = set(loops)
            for e in pushes:
                extra = []
                for c_, p_, b_ in RU.guards(f, e, dom):
                    if b_ in hdrs:
                        continue
                    t = RU.call_test(f, c_, p_)
                    if t and (t[0].get("callee") or "").startswith("aws_byte_cursor_split_on_char"):
                        continue
                    txt = f.show(f.d(c_))
                    if "splits" in txt and ("length" in txt or "count" in txt):
                        continue
                    extra.append(txt[:60])
                R.check(not extra, "DECL", "every-split-pair-is-reported", where(f, e), "the attribute is stored whenever the token split into name and value",
                        "an attribute is stored only if %s: a pair with an empty value (y=\"\") is dropped and the later attributes move down one position" % extra)
    g = P.fn("aws_xml_node_traverse")
    if R.require(g is not None, "aws_xml_node_traverse not found"):
        dom = dominators(g)
        loops = natural_loops(g)
        if R.require(bool(loops), "aws_xml_node_traverse: child loop not found"):
            outer = max(loops.items(), key=lambda kv: len(kv[1]))[0]
            for r_ in g.returns():
                v_ = RU.uncast(g, RU.origin(g, r_.node["a"][0]) or r_.node["a"][0]) if r_.node.get("a") else None
                if v_ is None or not (v_["k"] == "member" and v_["f"] == "error"):
                    continue
                # (the `error:` exit stores a failure code first: not a non-failing return)
                sets_err = any(el["k"] == "bin" and el["op"] == "=" and g.show(g.d(el["a"][0])).endswith("->error") and g.is_const(RU.uncast(g, el["a"][1])) not in (None, 0) for el in g.blocks[r_.blk].elems)
                if sets_err:
                    continue
                R.check(any(h_ in dom.get(r_.blk, ()) or r_.blk in loops[h_] for h_ in loops), "ONCE", "traverse-leaves-through-its-child-loop:line%d" % r_.node.get("loc", [0])[0], where(g, r_),
                        "a non-failing return of the traversal has been through the child loop", "aws_xml_node_traverse returns parser->error without having entered its child loop: the element's closing tag is left in the document and ends the enclosing traversal instead (following siblings are lost)")
    h = P.fn("aws_byte_cursor_find_exact")
    if R.require(h is not None, "aws_byte_cursor_find_exact not found"):
        ms = h.calls({"memcmp", "__builtin_memcmp", "aws_array_eq"})
        okm = len(ms) >= 1
        for e in ms:
            if e.node["callee"] == "aws_array_eq":
                okm = okm and [argstr(h, e.node, i, addr=False) for i in (2, 3)] == ["to_find->ptr", "to_find->len"]
            else:
                okm = okm and argstr(h, e.node, 1, addr=False) == "to_find->ptr" and argstr(h, e.node, 2, addr=False) == "to_find->len"
        R.check(okm, "BODY-VIEW", "find-exact-compares-the-whole-pattern", "aws_byte_cursor_find_exact()", "the candidate is compared with all to_find->len bytes of the pattern",
                "aws_byte_cursor_find_exact does not compare the whole pattern at the candidate position (%s): `</a>` matches `</ab>`, the body of <a> ends at a descendant's closing tag" % [h.show(e.node)[:70] for e in ms])


def analyse(ctx, replace=None, only=None):
    R = ctx.R
    units = [u for u in library_units(ctx.ex.repo) if "external" not in u]
    P = ctx.program(units, "ship", replace=replace)
    if not R.require(P.fn("aws_xml_node_traverse") is not None, "%s not analysed" % FILE):
        return
    want = set(only.get("rules", [])) if only else None

    def on(*rules):
        return want is None or any(r in want for r in rules)
    if on("BOUND", "PROGRESS", "RECUR", "REQUIRES", "SUMMARY"):
        C04.analyse(ctx, replace=replace, only={"files": [FILE], "rules": ["RECUR", "SUMMARY"], "recur": ("xml",)}, hooks=XmlHooks())
    if on("BALANCE"):
        balance(R, P)
    child_loop_exits(R, P)
    round7(R, P)
    if on("ONCE", "SKIP"):
        once(R, P)
    if on("DECL"):
        decl(R, P)
    if on("NEST-TERMINATORS"):
        terminators(R, P)
    if on("BODY-VIEW"):
        body_view(R, P)
    if on("ERR-CHECKED"):
        err_checked(R, P)
        unchecked_appends(R, P)
    if on("LIMITS"):
        limits(R, P)
        exact_guards(R, P)


MUTANTS = [
    {"name": "empty-valued-attribute-dropped", "file": FILE, "expect": "DECL", "scope": {"rules": ["DECL"]}, "old": "                aws_array_list_push_back(&node->attributes, &attribute);", "new": "                if (attribute.value.len > 0) {\n                    aws_array_list_push_back(&node->attributes, &attribute);\n                }"},
    {"name": "find-exact-skips-the-last-pattern-byte", "file": "source/byte_buf.c", "expect": "BODY-VIEW", "scope": {"rules": ["DECL"]}, "old": "        if (!memcmp(working_cur.ptr, to_find->ptr, to_find->len)) {", "new": "        if (!memcmp(working_cur.ptr, to_find->ptr, to_find->len - 1)) {"},
    {"name": "room-guard-refuses-exact-fit", "file": FILE, "expect": "LIMITS", "old": "    if (closing_name_len > node->doc_at_body.len) {", "new": "    if (node->doc_at_body.len <= closing_name_len) {"},
    {"name": "preamble-stops-after-doctype", "file": FILE, "expect": "LIMITS", "old": "            aws_byte_cursor_advance(&parser.doc, advance);\n        } else {\n            break;\n        }", "new": "            aws_byte_cursor_advance(&parser.doc, advance);\n            if (*(start + 1) == '!') {\n                break;\n            }\n        } else {\n            break;\n        }"},
    {"name": "pair-split-at-every-equals", "file": FILE, "expect": "DECL", "old": "aws_byte_cursor_split_on_char_n(&attribute_pair, '=', 1, &att_val_pair_lst)", "new": "aws_byte_cursor_split_on_char(&attribute_pair, '=', &att_val_pair_lst)"},
    {"name": "root-callback-failure-dropped", "file": FILE, "expect": "ERR-CHECKED", "scope": {"rules": ["ONCE"]}, "old": "    if (stack_data.cb(&sibling_node, stack_data.user_data)) {\n        return AWS_OP_ERR;\n    }\n\n    /* if the user simply returned while skipping the node altogether, go ahead and do the skip over. */\n    if (!sibling_node.processed) {",
     "new": "    int cb_result = stack_data.cb(&sibling_node, stack_data.user_data);\n\n    if (!cb_result && !sibling_node.processed) {"},
    {"name": "open-pattern-buffer-without-overhead", "file": FILE, "expect": "ERR-CHECKED", "old": "    uint8_t name_open[MAX_NAME_LEN + NODE_CLOSE_OVERHEAD] = {0};", "new": "    uint8_t name_open[MAX_NAME_LEN] = {0};"},
    {"name": "child-node-hoisted-out-of-the-loop", "file": FILE, "expect": "DECL", "scope": {"rules": ["ONCE", "DECL"]},
     "old": "    size_t doc_depth = aws_array_list_length(&parser->callback_stack);\n    if (doc_depth >= parser->max_depth) {", "new": "    struct aws_xml_node next_node;\n    AWS_ZERO_STRUCT(next_node);\n    next_node.parser = parser;\n    size_t doc_depth = aws_array_list_length(&parser->callback_stack);\n    if (doc_depth >= parser->max_depth) {",
     "old2": "        struct aws_xml_node next_node = {\n            .parser = parser,\n            .doc_at_body = parser->doc,\n            .processed = false,\n        };", "new2": "        next_node.doc_at_body = parser->doc;\n        next_node.processed = false;"},
    {"name": "skip-failure-ignored", "file": FILE, "expect": "ERR-CHECKED", "old": "            if (s_advance_to_closing_tag(parser, &next_node, NULL)) {\n                goto error;\n            }\n        }\n    }\n\n    aws_array_list_pop_back(&parser->callback_stack);",
     "new": "            s_advance_to_closing_tag(parser, &next_node, NULL);\n        }\n    }\n\n    aws_array_list_pop_back(&parser->callback_stack);"},
    {"name": "tenth-attribute-dropped", "file": FILE, "expect": "LIMITS", "old": "        for (size_t i = 1; i < splits.length; ++i) {", "new": "        for (size_t i = 1; i < splits.length && i < AWS_ARRAY_SIZE(parser->attributes); ++i) {"},
    {"name": "depth-limit-plus-one", "file": FILE, "expect": "LIMITS", "old": "        .max_depth = options->max_depth ? options->max_depth : s_max_document_depth,", "new": "        .max_depth = (options->max_depth ? options->max_depth : s_max_document_depth) + 1,"},
    {"name": "pop-only-on-error", "file": FILE, "expect": "BALANCE", "old": "    aws_array_list_pop_back(&parser->callback_stack);\n    return parser->error;\n\nerror:\n    parser->error = AWS_OP_ERR;", "new": "    return parser->error;\n\nerror:\n    aws_array_list_pop_back(&parser->callback_stack);\n    parser->error = AWS_OP_ERR;"},
    {"name": "skip-unconditional", "file": FILE, "expect": "SKIP", "old": "        if (!next_node.processed) {\n            if (s_advance_to_closing_tag(parser, &next_node, NULL)) {", "new": "        if (next_node.processed) {\n            if (s_advance_to_closing_tag(parser, &next_node, NULL)) {"},
    {"name": "callback-before-load", "file": FILE, "expect": "ONCE", "old": "        if (s_load_node_decl(parser, &decl_body, &next_node)) {\n            return AWS_OP_ERR;\n        }\n\n        if (on_node_encountered(&next_node, user_data)) {\n            goto error;\n        }", "new": "        if (on_node_encountered(&next_node, user_data)) {\n            goto error;\n        }\n\n        if (s_load_node_decl(parser, &decl_body, &next_node)) {\n            return AWS_OP_ERR;\n        }"},
    {"name": "quote-predicate-widened", "file": FILE, "expect": "DECL", "old": "    return value == '\"';", "new": "    return value == '\"' || value == '\\'';"},
    {"name": "nesting-test-drops-space", "file": FILE, "expect": "NEST-TERMINATORS", "old": "name_end == '>' || name_end == '/' || aws_isspace(name_end);", "new": "name_end == '>' || name_end == '/';"},
    {"name": "body-from-current-position", "file": FILE, "expect": "BODY-VIEW", "old": "        *out_body = aws_byte_cursor_from_array(node->doc_at_body.ptr, len);", "new": "        *out_body = aws_byte_cursor_from_array(node->doc_at_body.ptr, len + 1);"},
    {"name": "processed-not-set", "file": FILE, "expect": "SKIP", "old": "    AWS_FATAL_ASSERT(!node->processed && \"XML node can be traversed, or read as body, but not both.\");\n    node->processed = true;\n    return s_advance_to_closing_tag(node->parser, node, out_body);", "new": "    AWS_FATAL_ASSERT(!node->processed && \"XML node can be traversed, or read as body, but not both.\");\n    return s_advance_to_closing_tag(node->parser, node, out_body);"},
]
for _m in MUTANTS:
    _m.setdefault("scope", {"rules": [_m["expect"]]})
